"""A small abstract interpreter over the repository's AST, used by the C03 rules (orientation of reported pairs, completeness
and faithfulness of the rendered report).

Nothing is executed: function bodies are *interpreted* over abstract values.  Calls are followed into the callee's body with the
receiver's **concrete class** (so template methods, overrides, `super()`, bound methods passed as callbacks, helpers extracted or
inlined by a refactoring all evaluate to the same abstract result), loops and comprehensions are run to a fixpoint, conditions on
known constants (`import_rule`, the direction flag of the ModuleRequirement, `x is None` on a value that cannot be None) are folded.

Abstract values are frozensets of *shapes*:

  Sc       a scalar (module, name, layer, formatted text, unknown bool ...) with
             roles   {"S"} / {"O"} / both  - rule subject / rule object content
             srcs    provenance tags (RuleViolations field the value derives from, dataclass fields read)
             eids    identities of the loop iterations (elements) the value derives from
             assoc   identities of the iterations under whose current element the value is grouped (dict lookups by key)
             marks   sticky findings: ("mix", where, why) subject and object content combined although they stem from
                     different pairs;  ("part", where, why, grouped) the value stands for an incomplete iteration
  Const    a python constant (bool / None / str / int)
  Tup      a tuple with one abstract value per item
  Ref      reference to a heap cell: collection (list/set/iterator), dict, object (instance of a repo class)
  Fn       a repo function / bound method / lambda (closure);  Cls a repo class;  Lib a library callable
  Opaque   an object the interpreter knows nothing about (constructor parameters it does not model)
  Top      the interpreter lost track (unsupported construct); whoever meets it in a result must answer "undecided"

Heap cells are allocated per (syntactic site, calling context), updated weakly (joined) and therefore only grow: the fixpoint of a
loop is reached when neither the environment nor the heap changed during a pass.
"""

from __future__ import annotations

import ast
from dataclasses import dataclass, replace
from typing import Any

from core.cfg import always_exits
from core.loader import ClassInfo, FuncInfo, Repo, norm, own_nodes


FS = frozenset
E: frozenset = frozenset()


@dataclass(frozen=True)
class Sc:
    roles: frozenset = E
    srcs: frozenset = E
    eids: frozenset = E
    assoc: frozenset = E
    marks: frozenset = E
    gone: frozenset = E  # iterations whose element the value stemmed from before it was put into a collection that outlives them
    vet: bool = False  # was added to its collection through a key (`d[k].append(x)`) and checked against that key there
    none: bool = False  # may be None
    agg: bool = False  # aggregate of a collection (", ".join(xs), len(xs)): its truthiness is an emptiness test


@dataclass(frozen=True)
class Const:
    value: Any


@dataclass(frozen=True)
class Tup:
    items: tuple
    site: str = ""


@dataclass(frozen=True)
class Ref:
    kind: str  # coll | dict | obj
    key: Any


@dataclass(frozen=True)
class Fn:
    func: FuncInfo
    recv: Any = None  # abstract value of the bound receiver
    clo: int = -1  # index of the captured environment


@dataclass(frozen=True)
class Cls:
    fq: str


@dataclass(frozen=True)
class Lib:
    name: str


@dataclass(frozen=True)
class Getter:
    kind: str  # item | attr
    args: tuple


@dataclass(frozen=True)
class Partial:
    fn: Any  # abstract value of the wrapped callable
    args: tuple
    kwargs: tuple


@dataclass(frozen=True)
class PartialMethod:
    fn: Any  # functools.partialmethod(fn, *args, **kwargs) found on a class: the instance is passed first
    args: tuple
    kwargs: tuple


@dataclass(frozen=True)
class Opaque:
    tag: str = ""


@dataclass(frozen=True)
class Top:
    why: str = ""


def V(*shapes) -> frozenset:
    return frozenset(shapes)


NONE_V = V(Const(None))
UNKNOWN_BOOL = V(Sc())


class CollCell:
    def __init__(self, site: str = "", born: frozenset = E) -> None:
        self.elem: set = set()
        self.part: set = set()
        self.site = site
        self.born = born  # iterations that were running when the collection was created
        self.shared = ""  # where this one object was stored under many keys of a dictionary (dict.fromkeys(keys, obj), d[k] = obj in a loop)
        self.order = None  # None = unknown | ("unsorted",) | ("sorted", key signature): what is known about the order of the elements
        self.scope = born  # iterations of which the collection is a per-element temporary (shrinks when it is stored in a longer-lived container)
        self.origin = born  # for a view (copy made while re-tagging): the iterations that were running when the collection it shows was created


class DictCell:
    def __init__(self, site: str = "", born: frozenset = E) -> None:
        self.entries: set = set()  # (key value, value value)
        self.site = site
        self.born = born
        self.shared = ""
        self.scope = born
        self.factory: frozenset = E  # defaultdict(factory): what creates the value of a key that is looked up for the first time


class ObjCell:
    def __init__(self, ci: ClassInfo | None, site: str = "") -> None:
        self.ci = ci
        self.fields: dict[str, frozenset] = {}
        self.site = site


class Frame:
    def __init__(self, fi: FuncInfo, inv: tuple, env: dict) -> None:
        self.fi = fi
        self.inv = inv
        self.env = env
        self.ret: set = set()
        self.loops: list[dict] = []
        self.yields: Ref | None = None
        self.ctrl: list = []  # (test, polarity, kind) of the undecided conditions the current statement is control dependent on
        self.pending_ctrl = None
        self.exits = 0  # return / break / continue statements interpreted so far
        self.partial_exit = 0  # conditional exits met so far (a return / continue / break under an unknown condition)


MUTATORS_ADD1 = {"append", "add", "appendleft"}
MUTATORS_ADDN = {"extend", "update", "extendleft", "union_update"}
COPYING = {"set", "list", "tuple", "frozenset", "sorted", "reversed", "iter", "collections.deque", "deque"}
SCALAR_FUNCS = {"str", "repr", "int", "float", "format", "hash", "id", "ord", "chr", "abs", "round", "bool", "isinstance", "issubclass", "hasattr", "callable", "type"}


class Interp:
    def __init__(self, repo: Repo, intrinsics: dict | None = None, record: bool = False) -> None:
        self.repo = repo
        self.cells: dict = {}
        self.version = 0
        self.active: list[int] = []
        self.eids: dict = {}
        self.eid_info: dict[int, str] = {}
        self.loop_eids: set = set()  # identities that stand for iterations of for-loops / comprehensions
        self.loop_srcs: dict = {}  # iteration identity -> provenance tags of the elements iterated over
        self.loop_parents: dict = {}  # iteration identity -> identities of the iterations the iterated elements already stem from
        self.closures: list[dict] = []
        self.stack: list[str] = []
        self.guards: list[list] = []  # data-dependent conditions guarding the calls on the stack
        self.cond_kind: dict = {}
        self.intrinsics = intrinsics or {}  # fq of a repo function -> python callable(interp, args, kwargs, node, frame) -> value
        self.record = record
        self.node_vals: dict[int, frozenset] = {}
        self.tops: list[str] = []
        self.steps = 0
        self.uncertain = 0  # > 0 while the statements being interpreted may not execute (unknown branch, loop body, after a conditional exit)
        self.writes: set = set()  # (object cell key, field) written so far
        self.stale: set = set()  # fields holding a value of an earlier call (see rules R6)
        self.stale_reads: list = []
        self.ncalls = 0
        self._gen_cache: dict[str, bool] = {}
        self.in_cond = 0
        self.pseudo: set = set()  # identities of elements selected by index / pop (always current)
        self.collectors: list = []  # (uncertainty level, fields definitely written) per open branch of an undecided `if`
        self.scalar_calls: list = []  # (method name, provenance tags of the scalar receiver)
        self.stmt_call = None  # the call that makes up the expression statement being interpreted
        self.in_while = 0  # > 0 while the body of a `while` loop is interpreted (picks there are how the loop iterates)
        self._accumulating = False

    # ------------------------------------------------------------------ heap
    def cell(self, ref: Ref):
        return self.cells[ref.key]

    def coll(self, key, site: str = "", elems: frozenset = E) -> Ref:
        c = self.cells.get(key)
        if c is None:
            c = self.cells[key] = CollCell(site, frozenset(self.active))
            self.version += 1
        if elems:
            self.add(Ref("coll", key), elems)
        return Ref("coll", key)

    def dict_(self, key, site: str = "") -> Ref:
        if key not in self.cells:
            self.cells[key] = DictCell(site, frozenset(self.active))
            self.version += 1
        return Ref("dict", key)

    def obj(self, key, ci: ClassInfo | None, site: str = "") -> Ref:
        if key not in self.cells:
            self.cells[key] = ObjCell(ci, site)
            self.version += 1
        return Ref("obj", key)

    def adopt(self, container, v: frozenset) -> None:
        """Collections stored inside a container live as long as the container does."""
        for sh in v:
            if isinstance(sh, Ref) and sh.kind in ("coll", "dict"):
                inner = self.cells[sh.key]
                if not inner.scope <= container.scope:
                    inner.scope = inner.scope & container.scope

    def escape(self, container, v: frozenset) -> frozenset:
        """Values put into a collection that outlives a running iteration are, when read back, no longer *the current* element of it."""
        out_of = frozenset(self.active) - container.born
        if not out_of:
            return v

        def mark(sh):
            if isinstance(sh, Sc) and ((sh.eids | sh.assoc) & out_of) and not out_of <= sh.gone:
                return replace(sh, gone=sh.gone | ((sh.eids | sh.assoc) & out_of))
            if isinstance(sh, Tup):
                return Tup(tuple(frozenset(mark(x) for x in it) for it in sh.items), sh.site)
            return sh

        return frozenset(mark(sh) for sh in v)

    def add(self, ref: Ref, elems: frozenset) -> None:
        c = self.cells[ref.key]
        elems = self.escape(c, elems)
        new = elems - c.elem
        if new:
            self.adopt(c, new)
            c.elem |= new
            self.version += 1

    @staticmethod
    def effective_part(c) -> set:
        """Incompleteness marks of a collection; an element added under `T` in one branch and under `not T` in the other branch
        of the same test is added either way: the two marks cancel."""
        part = c.part
        if len(part) < 2:
            return part
        gone = set()
        for m in part:
            if m[0] == "part" and m[2].startswith("only if `not "):
                twin = next((o for o in part if o[0] == "part" and o[1] == m[1] and o[2] == "only if `" + m[2][len("only if `not "):]), None)
                if twin is not None:
                    gone |= {m, twin}
        return part - gone if gone else part

    def add_part(self, ref: Ref, marks) -> None:
        c = self.cells[ref.key]
        new = set(marks) - c.part
        if new:
            c.part |= new
            self.version += 1

    def set_field(self, ref: Ref, name: str, v: frozenset, strong: bool) -> None:
        c = self.cells[ref.key]
        old = c.fields.get(name, E)
        definite = strong
        strong = strong and self.uncertain == 0
        self.writes.add((ref.key, name))
        if definite:
            self.definite_write((ref.key, name))
        new = v if strong else old | v
        if new != old:
            c.fields[name] = new
            self.version += 1

    def definite_write(self, fld) -> None:
        """A field assignment that executes whenever the innermost open branch does."""
        if self.uncertain == 0:
            self.stale.discard(fld)
        elif self.collectors and self.collectors[-1][0] == self.uncertain:
            self.collectors[-1][1].add(fld)

    def note_shared(self, k: frozenset, v: frozenset, where: str, implicit_keys: bool = False) -> None:
        """`d[k] = obj` for many keys k with one and the same mutable obj (created by a literal / constructor outside the loop
        that supplies the keys): whatever is later added through one key shows under every key."""
        kl = frozenset(x for sc in self.scalars(k) for x in self.live(sc.eids - sc.gone) if x in self.loop_eids)
        for sh in v:
            if isinstance(sh, Ref) and sh.kind in ("coll", "dict") and isinstance(sh.key, tuple) and sh.key[-1] in ("lit", "lib", "comp", "copy", "bin"):
                c = self.cells[sh.key]
                if (implicit_keys or (kl and not (kl & c.born))) and not c.shared:
                    c.shared = where
                    self.version += 1

    def overwritten(self, k: frozenset, v: frozenset, where: str, key, same_element: bool = False) -> frozenset:
        """`d[k] = v` / `{k: v for ...}` executed once per pair of a bucket, where k is made of one side of the pair only and v
        directly carries the other side of the same pair: pairs that agree in k overwrite each other, all but one are lost.
        (Values that are collections are not meant: `d[k] = [v]` is the first step of an accumulation.)"""
        found = [sc for sc in self.scalars(k, into_colls=False) if "search" in sc.srcs]
        if found:
            # index of graph nodes: the key is a node found by a search for the current module X, the value is X itself - a node
            # that lies in the sub trees of several requested modules (a package and one of its sub modules) keeps the last one only
            live = frozenset().union(*[self.live(sc.eids - sc.gone) for sc in found]) & frozenset(self.loop_eids)
            owners = [sc for sc in self.scalars(v, into_colls=False) if sc.srcs and "search" not in sc.srcs and (sc.eids - sc.gone) & live]
            if live and owners:
                why = "a node found for several of the given modules is stored under one key and keeps only the module stored last (the given modules may contain one another)"
                return self.with_marks(v, [("part", where, why, False)], ("own", key))
            return v
        ks = [sc for sc in self.scalars(k, into_colls=False) if sc.roles and sc.srcs]
        if not ks:
            return v
        kroles = frozenset().union(*[sc.roles for sc in ks])
        live = frozenset().union(*[self.live(sc.eids - sc.gone) for sc in ks]) & frozenset(self.loop_eids)
        if not (live or same_element) or kroles >= {"S", "O"}:
            return v
        lost = [sc for sc in self.scalars(v, into_colls=False) if sc.roles and sc.srcs and not sc.roles <= kroles and (same_element or (sc.eids - sc.gone) & live) and not sc.agg]
        if not lost:
            return v
        names = {"S": "rule subject", "O": "rule object"}
        why = f"entries are stored under a key made of the {' and '.join(names[r] for r in sorted(kroles))} only: pairs that agree in it overwrite each other"
        return self.with_marks(v, [("part", where, why, False)], ("ow", key))

    def store_entry(self, ref: Ref, k: frozenset, v: frozenset, explicit: str = "", accumulating: bool = False) -> None:
        if explicit:
            self.note_shared(k, v, explicit)
            v = self.runs_to_parts(v, (ref.key, explicit))
            if not accumulating:
                v = self.overwritten(k, v, explicit, ref.key)
        c = self.cells[ref.key]
        k, v = self.escape(c, k), self.escape(c, v)
        if (k, v) not in c.entries:
            self.adopt(c, v)
            c.entries.add((k, v))
            self.version += 1

    # ------------------------------------------------------------------ helpers on values
    def top(self, why: str) -> frozenset:
        if why not in self.tops:
            self.tops.append(why)
        return V(Top(why))

    def note_lost(self, why: str) -> None:
        """The interpreter may have lost track of some data here (no value becomes Top): rules that find something *missing* must
        answer undecided."""
        if why not in self.tops:
            self.tops.append(why)

    def site(self, fr: Frame | None, node: ast.AST | None) -> str:
        if fr is None or node is None:
            return ""
        return f"{fr.fi.relpath}:{getattr(node, 'lineno', 0)}"

    def where(self, fr: Frame, node: ast.AST) -> str:
        return f"{fr.fi.relpath}::{getattr(fr.fi, 'shown', fr.fi.qualname)}::{norm(node, 90)}"

    def live(self, eids) -> frozenset:
        act = set(self.active) | self.pseudo
        return frozenset(e for e in eids if e in act)

    def pick(self, v: frozenset, key, label: str, only: str = "") -> frozenset:
        """One element selected from a collection by index / pop / next: its parts stem from the same element.
        `only`: the selection is a fixed one (`xs[0]`, `next(it)` outside a `while` loop) - the rule objects of the other elements
        are not looked at through this expression (the rule subject of a group may well be read off its first pair)."""
        e = self.eid(("pick", key), label)
        self.pseudo.add(e)
        out = self.retag(v, e, ("pick", key))
        if only and not self.in_while:
            grouped = any(self.live(sc.assoc - sc.gone) for sc in self.scalars(out))
            mark = ("part", label, only, grouped)
            out = self.map_scalars(out, lambda sc: replace(sc, marks=sc.marks | {mark}) if sc.roles == {"O"} and sc.srcs and not sc.agg else sc, ("pickmark", key))
        return out

    def scalars(self, v: frozenset, depth: int = 0, into_colls: bool = True) -> list[Sc]:
        """All scalar shapes inside a value (tuple items, object fields, elements of collections)."""
        out: list[Sc] = []
        if depth > 4:
            return out
        for sh in v:
            if isinstance(sh, Sc):
                out.append(sh)
            elif isinstance(sh, Tup):
                for it in sh.items:
                    out += self.scalars(it, depth + 1, into_colls)
            elif isinstance(sh, Ref) and sh.kind == "coll" and into_colls:
                out += self.scalars(self.elems(V(sh)), depth + 1, into_colls)
            elif isinstance(sh, Ref) and sh.kind == "obj":
                c = self.cell(sh)
                if self.is_record(c.ci):
                    for fv in c.fields.values():
                        out += self.scalars(fv, depth + 1, into_colls)
        return out

    def has_top(self, v: frozenset, depth: int = 0) -> str | None:
        if depth > 4:
            return None
        for sh in v:
            if isinstance(sh, Top):
                return sh.why or "?"
            if isinstance(sh, Tup):
                for it in sh.items:
                    w = self.has_top(it, depth + 1)
                    if w:
                        return w
            elif isinstance(sh, Ref) and sh.kind == "coll":
                w = self.has_top(frozenset(self.cell(sh).elem), depth + 1)
                if w:
                    return w
        return None

    def map_scalars(self, v: frozenset, f, key, depth: int = 0) -> frozenset:
        """Copy of a value with `f` applied to every scalar; collections / dataclass objects are copied into view cells."""
        if depth > 4:
            return v
        out = set()
        for sh in v:
            if isinstance(sh, Sc):
                out.add(f(sh))
            elif isinstance(sh, Tup):
                out.add(Tup(tuple(self.map_scalars(it, f, (key, "t", i), depth + 1) for i, it in enumerate(sh.items)), sh.site))
            elif isinstance(sh, Ref) and sh.kind == "coll":
                k = (key, "v", sh.key)
                src = self.cell(sh)
                r = self.coll(k, src.site)
                self.cell(r).order = src.order  # a view has the order of what it shows
                self.cell(r).origin = src.origin
                self.add(r, self.map_scalars(self.elems(V(sh)), f, (key, "e"), depth + 1))
                out.add(r)
            elif isinstance(sh, Ref) and sh.kind == "obj" and self.is_record(self.cell(sh).ci):
                src = self.cell(sh)
                k = (key, "o", sh.key)
                r = self.obj(k, src.ci, src.site)
                for n, fv in list(src.fields.items()):
                    self.set_field(r, n, self.map_scalars(fv, f, (key, "f", n), depth + 1), strong=False)
                out.add(r)
            else:
                out.add(sh)
        return frozenset(out)

    def with_marks(self, v: frozenset, marks, key) -> frozenset:
        marks = frozenset(marks)
        if not marks:
            return v
        return self.map_scalars(v, lambda s: s if marks <= s.marks else replace(s, marks=s.marks | marks), key)

    def elems(self, v: frozenset) -> frozenset:
        """Abstract element obtained by iterating the value."""
        out: set = set()
        for sh in v:
            if isinstance(sh, Ref) and sh.kind == "coll":
                c = self.cell(sh)
                part = self.effective_part(c)
                if part:
                    out |= self.with_marks(frozenset(c.elem), part, ("pm", sh.key))
                else:
                    out |= c.elem
            elif isinstance(sh, Ref) and sh.kind == "dict":
                for k, _v in self.cell(sh).entries:
                    out |= k
            elif isinstance(sh, Tup):
                for it in sh.items:
                    out |= it
            elif isinstance(sh, Sc):
                out.add(replace(sh, none=False, agg=False))
            elif isinstance(sh, Const):
                if isinstance(sh.value, str):
                    out.add(Sc())
            elif isinstance(sh, Opaque):
                out.add(Sc())
            elif isinstance(sh, Top):
                out.add(sh)
            elif isinstance(sh, Ref) and sh.kind == "obj":
                c = self.cell(sh)
                if self.is_namedtuple(c.ci):
                    for n in self.record_fields(c.ci):
                        out |= self.attr(V(sh), n, c.ci.node, {}, self.module_frame(c.ci.module, ("iter", c.ci.fq))) if n in c.fields else E
                elif c.ci is not None and self.repo.lookup_method(c.ci, "__iter__") is not None:
                    m_iter = self.repo.lookup_method(c.ci, "__iter__")
                    # the calling context is the object itself (its cell is per construction site and context)
                    out |= self.elems(self.call_fn(m_iter, V(sh), [], {}, c.ci.node, Frame(m_iter, ("iter", sh.key), {})))
                else:
                    out |= self.top(f"iteration over an instance of {c.ci.name if c.ci else 'an object'} is not modelled")
            elif isinstance(sh, Cls) and self.is_enum(sh.fq):
                for n in self.enum_members(sh.fq):
                    out |= self.enum_member(sh.fq, n)
            elif isinstance(sh, (Cls, Lib, Fn, Getter, Partial)):
                out |= self.top(f"iteration over {type(sh).__name__} {getattr(sh, 'fq', getattr(sh, 'name', ''))} is not modelled")
        return frozenset(out)

    # ------------------------------------------------------------------ records
    def is_record(self, ci: ClassInfo | None) -> bool:
        """dataclass or NamedTuple: an object that is nothing but its fields."""
        if ci is None:
            return False
        k = ("rec", ci.fq)
        if k not in self._gen_cache:
            self._gen_cache[k] = any(c.is_dataclass for c in self.repo.mro(ci)) or self.is_namedtuple(ci)
        return self._gen_cache[k]

    def is_namedtuple(self, ci: ClassInfo | None) -> bool:
        return ci is not None and any(b.rsplit(".", 1)[-1] == "NamedTuple" for b in self.repo.external_bases(ci))

    def record_fields(self, ci: ClassInfo) -> list[str]:
        fields: list[str] = []
        for c in reversed(self.repo.mro(ci)):
            for n in c.ann_attrs:
                if n not in fields:
                    fields.append(n)
        return fields

    # ------------------------------------------------------------------ enumerations
    def is_enum(self, fq: str) -> bool:
        ci = self.repo.classes.get(fq)
        return ci is not None and any(b.rsplit(".", 1)[-1] in ("Enum", "IntEnum", "StrEnum", "Flag", "IntFlag") for b in self.repo.external_bases(ci))

    def enum_members(self, fq: str) -> list[str]:
        ci = self.repo.classes[fq]
        return [n for n in ci.class_attrs if not n.startswith("_")]

    def enum_member(self, fq: str, name: str) -> frozenset:
        ci = self.repo.classes[fq]
        r = self.obj(("enum", fq, name), ci, ci.module.relpath)
        if "name" not in self.cell(r).fields:
            ce = ci.class_attrs[name]
            val = V(Const(ce.value)) if isinstance(ce, ast.Constant) else (self.ev(ce, {}, self.module_frame(ci.module, ("enum", fq, name))) if self.static_expr(ci.module, ce) else V(Opaque(f"{fq}.{name}")))
            self.cell(r).fields["name"] = V(Const(name))
            self.cell(r).fields["value"] = val
            self.cell(r).fields["_value_"] = val
        return V(r)

    def derive(self, parts: list[frozenset], fr: Frame | None, node: ast.AST | None, check: bool = True, agg: bool = False, none: bool = False) -> frozenset:
        """Scalar computed from the given values (formatting, concatenation, attribute of, library function of)."""
        roles: set = set()
        srcs: set = set()
        eids: set = set()
        assoc: set = set()
        marks: set = set()
        gone: set | None = None
        groups: list[list[Sc]] = []
        for p in parts:
            w = self.has_top(p)
            if w:
                return V(Top(w))
            scs = self.scalars(p)
            groups.append(scs)
            for s in scs:
                roles |= s.roles
                srcs |= s.srcs
                eids |= s.eids
                assoc |= s.assoc
                marks |= s.marks
                gone = set(s.gone) if gone is None else gone & s.gone
        if check:
            m = self.link_mark(groups, fr, node)
            if m is not None:
                marks.add(m)
        return V(Sc(frozenset(roles), frozenset(srcs), frozenset(eids), frozenset(assoc), frozenset(marks), frozenset(gone or ()), False, none, agg))

    def link_mark(self, groups: list[list[Sc]], fr: Frame | None, node: ast.AST | None, force: str = ""):
        """A ("mix", ...) mark when subject content and object content of *different* violation pairs are combined."""
        for i in range(len(groups)):
            for j in range(len(groups)):
                if i == j:
                    continue
                for a in groups[i]:
                    if a.roles != {"S"} or not a.srcs:
                        continue
                    for b in groups[j]:
                        if b.roles != {"O"} or not b.srcs:
                            continue
                        la, lb = self.live(a.eids - a.gone), self.live(b.eids - b.gone)
                        if not force and (la & lb or self.live(b.assoc - b.gone) & la or self.live(a.assoc - a.gone) & lb or self.live(a.assoc - a.gone) & self.live(b.assoc - b.gone)):
                            continue
                        return ("mix", self.site(fr, node), (self.where(fr, node) if fr is not None and node is not None else "") + (f" - the collection is one object shared by all keys ({force})" if force else ""))
        return None

    def order_of(self, v: frozenset):
        """Order facts of a value when all its alternatives are collections that agree."""
        orders = set()
        for sh in v:
            if isinstance(sh, Ref) and sh.kind == "coll":
                orders.add(self.cell(sh).order)
            elif isinstance(sh, Ref) and sh.kind == "dict":
                orders.add(None)
            elif not (isinstance(sh, Const) and sh.value is None):
                orders.add(None)
        return orders.pop() if len(orders) == 1 else None

    def key_sig(self, keyfn, elems: frozenset, call: ast.AST, env: dict, fr: Frame):
        """Signature of a sort / grouping key: per component of the key, which content of a violation pair (rule subject / rule
        object) it is made of; None when that is not known."""
        comps: list[set] | None = None
        for alt in [V(sh) for sh in elems]:
            if keyfn:
                kv: set = set()
                for f in keyfn:
                    if isinstance(f, Const) and f.value is None:
                        kv |= alt
                    else:
                        kv |= self.apply(f, [alt], {}, call, env, fr)
            else:
                kv = set(alt)
            for sh in kv:
                items = list(sh.items) if isinstance(sh, Tup) else [V(sh)]
                if comps is None:
                    comps = [set() for _ in items]
                if len(items) != len(comps):
                    return None
                for i, it in enumerate(items):
                    scs = self.scalars(it)
                    if not scs or any(not sc.roles or not sc.srcs for sc in scs):
                        return None
                    for sc in scs:
                        comps[i].add(sc.roles)
        if not comps or any(len(c) != 1 for c in comps):
            return None
        return tuple(next(iter(c)) for c in comps)

    @staticmethod
    def strip_runs(v: frozenset) -> frozenset:
        if not any(isinstance(sh, Sc) and any(m[0] == "run" for m in sh.marks) for sh in v):
            return v
        return frozenset(replace(sh, marks=frozenset(m for m in sh.marks if m[0] != "run")) if isinstance(sh, Sc) else sh for sh in v)

    def runs_to_parts(self, v: frozenset, key) -> frozenset:
        """A value stored (not accumulated) under a dictionary key: when it stems from an incomplete `groupby` run, the runs of the
        same key that come later replace it - pairs are lost."""
        runs = {m for sc in self.scalars(v) for m in sc.marks if m[0] == "run"}
        if not runs:
            return v
        marks = [("part", m[1], m[2], True) for m in runs]
        return self.with_marks(v, marks, ("runs", key))

    @staticmethod
    def unvet(v: frozenset) -> frozenset:
        """Members copied into another collection are ordinary members there (they were checked against the key of the old one)."""
        if not any(isinstance(sh, Sc) and sh.vet for sh in v):
            return v
        return frozenset(replace(sh, vet=False) if isinstance(sh, Sc) and sh.vet else sh for sh in v)

    def retag(self, v: frozenset, e: int, key, extra_marks=()) -> frozenset:
        """The current element of iteration `e`: scalars of the element derive from it, members of nested collections are
        grouped under it."""
        extra = frozenset(extra_marks)

        def direct(s: Sc) -> Sc:
            return replace(s, eids=s.eids | {e}, marks=s.marks | extra)

        def nested(s: Sc) -> Sc:
            return replace(s, assoc=s.assoc | {e}, marks=s.marks | extra)

        out = set()
        for sh in v:
            if isinstance(sh, Sc):
                out.add(direct(sh))
            elif isinstance(sh, Tup):
                out.add(Tup(tuple(self.retag(it, e, (key, "t", i), extra) for i, it in enumerate(sh.items)), sh.site))
            elif isinstance(sh, Ref) and sh.kind == "coll":
                out |= self.map_scalars(V(sh), nested, (key, "n"))
            elif isinstance(sh, Ref) and sh.kind == "obj" and self.is_record(self.cell(sh).ci):
                src = self.cell(sh)
                r = self.obj((key, "o", sh.key), src.ci, src.site)
                for n, fv in list(src.fields.items()):
                    self.set_field(r, n, self.retag(fv, e, (key, "f", n), extra), strong=False)
                out.add(r)
            else:
                out.add(sh)
        return frozenset(out)

    def eid(self, key, label: str = "") -> int:
        if key not in self.eids:
            self.eids[key] = len(self.eids) + 1
            self.eid_info[self.eids[key]] = label
        return self.eids[key]

    def as_bool(self, v: frozenset) -> bool | None:
        if not v:
            return None
        vals = set()
        for sh in v:
            if isinstance(sh, Const):
                vals.add(bool(sh.value))
            elif isinstance(sh, (Fn, Cls, Lib)):
                vals.add(True)
            else:
                return None
        return vals.pop() if len(vals) == 1 else None

    @staticmethod
    def may_be_none(v: frozenset) -> tuple[bool, bool]:
        """(can be None, can be something else)."""
        can, other = False, False
        for sh in v:
            if isinstance(sh, Const):
                if sh.value is None:
                    can = True
                else:
                    other = True
            elif isinstance(sh, Sc):
                other = True
                can = can or sh.none
            elif isinstance(sh, (Opaque, Top)):
                can = other = True
            else:
                other = True
        return can, other

    # ------------------------------------------------------------------ names
    def lookup_global(self, fr: Frame, name: str, node: ast.AST) -> frozenset:
        mod = fr.fi.module
        src = getattr(node, "_src", None)
        if src is not None:
            mod = src[0].module
        if name in mod.functions:
            return V(Fn(mod.functions[name]))
        if name in mod.classes:
            return V(Cls(mod.classes[name].fq))
        if name in mod.constants and name not in mod.imports:
            return self.module_constant(mod, name)
        if name in mod.imports:
            fq = self.repo.resolve_name(mod, ast.Name(id=name, ctx=ast.Load()))
            return self.global_by_fq(fq or mod.imports[name])
        if name in ("True", "False", "None"):
            return V(Const({"True": True, "False": False, "None": None}[name]))
        return V(Lib(name))

    def global_by_fq(self, fq: str) -> frozenset:
        if fq in self.repo.classes:
            return V(Cls(fq))
        m, _, attr = fq.rpartition(".")
        om = self.repo.modules.get(m)
        if om is not None:
            if attr in om.functions:
                return V(Fn(om.functions[attr]))
            if attr in om.constants:
                return self.module_constant(om, attr)
        return V(Lib(fq))

    def module_constant(self, mod, name: str) -> frozenset:
        """Value of a module level constant: literals (also nested displays and references to other constants) and *callable
        constants* (`itemgetter(1, 0)`, `attrgetter(...)`, `partial(f, ...)`, a lambda, a reference to a function, a dispatch table
        of those) are evaluated; anything else is an object the interpreter knows nothing about."""
        c = mod.constants[name]
        if isinstance(c, ast.Constant):
            return V(Const(c.value))
        if not self.static_expr(mod, c, frozenset({name})):
            return V(Opaque(f"{mod.name}.{name}"))
        if isinstance(c, ast.Call) and isinstance(c.func, ast.Name) and c.func.id in ("defaultdict",):
            return V(self.dict_(("const", mod.name, name), mod.relpath))
        return self.ev(c, {}, self.module_frame(mod, ("const", mod.name, name)))

    STATIC_CALLS = {"frozenset", "set", "tuple", "list", "dict", "defaultdict", "OrderedDict", "itemgetter", "attrgetter", "methodcaller", "partial", "staticmethod", "MappingProxyType", "Template", "partialmethod", "property"}

    def static_expr(self, mod, e: ast.AST, seen: frozenset = E, depth: int = 0, scope: ClassInfo | None = None) -> bool:
        """Can the module / class level expression be evaluated without running code of the repository?  (It is built from
        literals, displays, lambdas, references to functions / classes / other such constants and the getter / partial factories.)"""
        if depth > 8:
            return False
        if isinstance(e, ast.Constant):
            return True
        if isinstance(e, ast.Lambda):
            return True
        if isinstance(e, (ast.Tuple, ast.List, ast.Set)):
            return all(self.static_expr(mod, x, seen, depth + 1, scope) for x in e.elts)
        if isinstance(e, ast.Dict):
            return all(k is not None and self.static_expr(mod, k, seen, depth + 1, scope) and self.static_expr(mod, v, seen, depth + 1, scope) for k, v in zip(e.keys, e.values))
        if isinstance(e, ast.Name):
            if scope is not None and e.id in scope.methods:
                return True
            if scope is not None and e.id in scope.class_attrs:
                return e.id not in seen and self.static_expr(mod, scope.class_attrs[e.id], seen | {e.id}, depth + 1, scope)
            if e.id in mod.functions or e.id in mod.classes or e.id in mod.imports:
                return True
            if e.id in mod.constants:
                return e.id not in seen and self.static_expr(mod, mod.constants[e.id], seen | {e.id}, depth + 1, scope)
            return e.id in ("True", "False", "None", "str", "list", "set", "dict", "int", "tuple", "frozenset", "reversed", "sorted", "len", "iter", "staticmethod", "property")
        if isinstance(e, ast.Attribute):
            # operator.itemgetter, itertools.chain.from_iterable, SomeClass.method
            b = e.value
            while isinstance(b, ast.Attribute):
                b = b.value
            return isinstance(b, ast.Name) and (b.id in mod.imports or b.id in mod.classes)
        if isinstance(e, ast.Call):
            f = e.func
            fname = f.id if isinstance(f, ast.Name) else f.attr if isinstance(f, ast.Attribute) else ""
            fq = self.repo.resolve_name(mod, f) if isinstance(f, (ast.Name, ast.Attribute)) else None
            record = fq in self.repo.classes and self.is_record(self.repo.classes[fq]) and self.repo.lookup_method(self.repo.classes[fq], "__init__") is None and self.repo.lookup_method(self.repo.classes[fq], "__post_init__") is None
            if not record and (fname not in self.STATIC_CALLS or not self.static_expr(mod, f, seen, depth + 1, scope)):
                return False
            return all(self.static_expr(mod, x, seen, depth + 1, scope) for x in e.args) and all(k.arg is not None and self.static_expr(mod, k.value, seen, depth + 1, scope) for k in e.keywords)
        return False

    def module_frame(self, mod, inv: tuple) -> Frame:
        """Frame for expressions evaluated at module / class level of `mod`."""
        fi = getattr(mod.tree, "_c03_frame_func", None)
        if fi is None:
            node = ast.Lambda(args=ast.arguments(posonlyargs=[], args=[], vararg=None, kwonlyargs=[], kw_defaults=[], kwarg=None, defaults=[]), body=ast.Constant(value=None))
            node.lineno = node.col_offset = 0
            fi = FuncInfo(name="<module>", qualname="<module>", node=node, module=mod)
            mod.tree._c03_frame_func = fi  # type: ignore[attr-defined]
        return Frame(fi, inv, {})

    def lambda_func(self, e: ast.Lambda, fr: Frame) -> FuncInfo | None:
        """Function info of a lambda; lambdas at module / class level are not indexed by the loader and get one here."""
        nf = getattr(e, "_func", None)
        if nf is None:
            src = getattr(e, "_src", None)
            nf = getattr(src[1], "_func", None) if src else None
        if nf is None and fr.fi.name == "<module>":
            nf = FuncInfo(name="<lambda>", qualname=f"<lambda@{getattr(e, 'lineno', 0)}:{getattr(e, 'col_offset', 0)}>", node=e, module=fr.fi.module)
            e._func = nf  # type: ignore[attr-defined]
        return nf

    def find_method(self, ci: ClassInfo, name: str) -> FuncInfo | None:
        """Method `name` as looked up on `ci`; None when a class level assignment (`name = partialmethod(...)`, an alias of
        another method) comes first in the method resolution order."""
        for k in self.repo.mro(ci):
            if name in k.methods:
                return k.methods[name]
            if name in k.class_attrs:
                return None
        return None

    def class_attr(self, ci: ClassInfo, name: str, recv: frozenset | None) -> frozenset | None:
        """Value of a class level assignment `name = <expr>` looked up on an instance (`recv`) or on the class (recv None):
        functions become bound methods, getter / partial objects and staticmethods do not."""
        owner = next((k for k in self.repo.mro(ci) if name in k.class_attrs), None)
        if owner is None:
            return None
        ce = owner.class_attrs[name]
        if isinstance(ce, ast.Constant):
            return V(Const(ce.value))
        mod = owner.module
        if not self.static_expr(mod, ce, frozenset({name}), 0, owner):
            return V(Opaque(name))
        static = isinstance(ce, ast.Call) and isinstance(ce.func, ast.Name) and ce.func.id == "staticmethod"
        # names of the class body: methods (plain functions there) and the other class level assignments
        env: dict = {}
        for n in ast.walk(ce):
            if isinstance(n, ast.Name) and n.id != name and n.id not in env:
                if n.id in owner.methods:
                    env[n.id] = V(Fn(owner.methods[n.id]))
                elif n.id in owner.class_attrs:
                    env[n.id] = self.class_attr(owner, n.id, None) or E
        v = self.ev(ce, env, self.module_frame(mod, ("classattr", owner.fq, name)))
        if recv is None or static:
            return v
        out = set()
        for sh in v:
            if isinstance(sh, Fn) and sh.recv is None:
                out.add(Partial(V(sh), (recv,), ()))  # a function found on the class is a bound method
            elif isinstance(sh, PartialMethod):
                out.add(Partial(sh.fn, (recv, *sh.args), sh.kwargs))
            else:
                out.add(sh)
        return frozenset(out)

    # ------------------------------------------------------------------ statements
    def exec_block(self, stmts: list[ast.stmt], env: dict | None, fr: Frame) -> dict | None:
        raised = 0
        pushed = 0
        try:
            for s in stmts:
                if env is None:
                    return None
                before = fr.partial_exit
                env = self.exec_stmt(s, env, fr)
                if fr.partial_exit != before:
                    # some path through `s` left the function / loop: what follows is not executed on every path
                    self.uncertain += 1
                    raised += 1
                if fr.pending_ctrl is not None:
                    fr.ctrl.append(fr.pending_ctrl)
                    fr.pending_ctrl = None
                    pushed += 1
            return env
        finally:
            self.uncertain -= raised
            if pushed:
                del fr.ctrl[len(fr.ctrl) - pushed:]

    @staticmethod
    def join_env(a: dict | None, b: dict | None) -> dict | None:
        if a is None:
            return b
        if b is None:
            return a
        out = dict(a)
        for k, v in b.items():
            out[k] = out.get(k, E) | v
        return out

    def exec_stmt(self, s: ast.stmt, env: dict, fr: Frame) -> dict | None:
        self.steps += 1
        if self.steps > 400000:
            raise RuntimeError("abstract interpretation budget exceeded")
        if isinstance(s, ast.Expr):
            self.stmt_call = s.value  # a call whose result is thrown away is made for its effect
            self.ev(s.value, env, fr)
            return env
        if isinstance(s, ast.Assign):
            v = self.ev(s.value, env, fr)
            for t in s.targets:
                if isinstance(t, ast.Subscript):
                    # `d[k] = d.get(k, ()) + (x,)`: the new value is computed from the old one
                    base = norm(t.value)
                    self._accumulating = any(isinstance(n, (ast.Name, ast.Attribute)) and norm(n) == base for n in ast.walk(s.value))
                try:
                    self.assign(t, v, env, fr)
                finally:
                    self._accumulating = False
            return env
        if isinstance(s, ast.AnnAssign):
            if s.value is not None:
                self.assign(s.target, self.ev(s.value, env, fr), env, fr)
            return env
        if isinstance(s, ast.AugAssign):
            self.aug_assign(s, env, fr)
            return env
        if isinstance(s, ast.Return):
            v = self.ev(s.value, env, fr) if s.value is not None else NONE_V
            fr.ret |= v
            fr.exits += 1
            return None
        if isinstance(s, ast.Raise):
            return None
        if isinstance(s, ast.Pass):
            return env
        if isinstance(s, ast.If):
            tv = self.ev(s.test, env, fr)
            b = self.as_bool(tv)
            self.note_cond(s.test, tv, env, fr)
            if b is True:
                return self.exec_block(s.body, env, fr)
            if b is False:
                return self.exec_block(s.orelse, env, fr)
            self.uncertain += 1
            exits = fr.exits
            wa: set = set()
            wc: set = set()
            try:
                kind = self.cond_kind.get((id(s.test), fr.inv), "neutral")
                ce = frozenset(x for sc in self.scalars(tv) for x in self.live(sc.eids - sc.gone) if x not in self.pseudo)
                self.collectors.append((self.uncertain, wa))
                fr.ctrl.append((s.test, True, kind, ce))
                try:
                    a = self.exec_block(s.body, self.narrow(s.test, dict(env), True), fr)
                finally:
                    fr.ctrl.pop()
                    self.collectors.pop()
                self.collectors.append((self.uncertain, wc))
                fr.ctrl.append((s.test, False, kind, ce))
                try:
                    c = self.exec_block(s.orelse, self.narrow(s.test, dict(env), False), fr)
                finally:
                    fr.ctrl.pop()
                    self.collectors.pop()
            finally:
                self.uncertain -= 1
            if (a is None) != (c is None):
                # what follows runs only when the branch that left (returned / raised) was not taken
                env_after = self.narrow(s.test, dict(c if a is None else a), c is None)
                if a is None:
                    c = env_after
                else:
                    a = env_after
            if (a is None) != (c is None) and fr.exits != exits:
                fr.partial_exit += 1
                # what follows in this block runs only when the branch that left was not taken
                fr.pending_ctrl = (s.test, c is None, kind, ce)
            elif fr.exits == exits:
                # no return / break / continue inside: a branch that ended did so by raising
                both = (wa & wc) if (a is not None and c is not None) else (wc if a is None else wa)
                for fld in both:
                    self.definite_write(fld)
            return self.join_env(a, c)
        if isinstance(s, (ast.For, ast.AsyncFor)):
            return self.exec_for(s, env, fr)
        if isinstance(s, ast.While):
            return self.exec_while(s, env, fr)
        if isinstance(s, ast.Break):
            fr.exits += 1
            if fr.loops:
                fr.loops[-1]["break"] = self.join_env(fr.loops[-1]["break"], env)
            return None
        if isinstance(s, ast.Continue):
            fr.exits += 1
            if fr.loops:
                fr.loops[-1]["cont"] = self.join_env(fr.loops[-1]["cont"], env)
            return None
        if isinstance(s, (ast.With, ast.AsyncWith)):
            exits = []
            for it in s.items:
                v = self.enter_context(it.context_expr, env, fr, exits)
                if it.optional_vars is not None:
                    self.assign(it.optional_vars, v, env, fr)
            out = self.exec_block(s.body, env, fr)
            for obj, m in reversed(exits):
                self.call_fn(m, obj, [NONE_V, NONE_V, NONE_V], {}, s, fr, caller_env=env)
            return out
        if isinstance(s, ast.Try):
            pre = dict(env)
            a = self.exec_block(s.body, env, fr)
            out = None
            if a is not None:
                out = self.exec_block(s.orelse, a, fr)
            for h in s.handlers:
                henv = self.join_env(dict(pre), a)
                if h.name:
                    henv[h.name] = V(Opaque("exception"))
                self.uncertain += 1
                try:
                    out = self.join_env(out, self.exec_block(h.body, henv, fr))
                finally:
                    self.uncertain -= 1
            if s.finalbody:
                out = self.exec_block(s.finalbody, out if out is not None else dict(pre), fr) if out is not None else None
            return out
        if isinstance(s, (ast.FunctionDef, ast.AsyncFunctionDef)):
            nf = getattr(s, "_func", None)
            if nf is None:
                src = getattr(s, "_src", None)
                nf = getattr(src[1], "_func", None) if src else None
            if nf is not None:
                self.closures.append(env)
                env[s.name] = V(Fn(nf, None, len(self.closures) - 1))
            else:
                env[s.name] = self.top(f"nested def {s.name}")
            return env
        if isinstance(s, ast.Assert):
            self.ev(s.test, env, fr)
            return env
        if isinstance(s, ast.Match):
            sv = self.ev(s.subject, env, fr)
            out = None
            exhaustive = False
            self.uncertain += 1
            try:
                for c in s.cases:
                    verdict = self.pattern_verdict(c.pattern, sv, env, fr) if c.guard is None else (False if self.pattern_verdict(c.pattern, sv, env, fr) is False else None)
                    if verdict is False:
                        continue
                    cenv = dict(env)
                    self.bind_pattern(c.pattern, sv, cenv, fr)
                    if c.guard is not None:
                        gv = self.ev(c.guard, cenv, fr)
                        if self.as_bool(gv) is False:
                            continue
                        if self.as_bool(gv) is None and self.classify_cond(c.guard, gv, cenv, fr) == "data":
                            fr.ctrl.append((c.guard, True, "data", E))
                            try:
                                out = self.join_env(out, self.exec_block(c.body, cenv, fr))
                            finally:
                                fr.ctrl.pop()
                            continue
                    if verdict is True:
                        exhaustive = True
                        if out is None:
                            # the one case that is taken
                            self.uncertain -= 1
                            try:
                                return self.exec_block(c.body, cenv, fr)
                            finally:
                                self.uncertain += 1
                    out = self.join_env(out, self.exec_block(c.body, cenv, fr))
                    if verdict is True:
                        break
            finally:
                self.uncertain -= 1
            return out if exhaustive else self.join_env(out, env)
        if isinstance(s, (ast.Delete, ast.Global, ast.Nonlocal, ast.Import, ast.ImportFrom, ast.ClassDef)):
            return env
        return env

    def enter_context(self, e: ast.expr, env: dict, fr: Frame, exits: list) -> frozenset:
        """Value bound by `with <e> as x`: what a @contextmanager generator yields (its body is interpreted as a whole - the part
        after the yield runs before the with-body, which only makes collections it fills known earlier), the result of __enter__
        for objects of repository classes (their __exit__ is interpreted after the body), the object itself otherwise."""
        if isinstance(e, ast.Call):
            fv = self.ev(e.func, env, fr) if not (isinstance(e.func, ast.Attribute) and isinstance(e.func.value, ast.Call) and isinstance(e.func.value.func, ast.Name) and e.func.value.func.id == "super") else E
            fns = [sh for sh in fv if isinstance(sh, Fn)]
            if fns and len(fns) == len(fv) and all(any(d.rsplit(".", 1)[-1] in ("contextmanager", "asynccontextmanager") for d in f.func.decorators) for f in fns):
                return self.elems(self.call(e, env, fr))
        v = self.ev(e, env, fr)
        out: set = set()
        for sh in v:
            ci = self.cell(sh).ci if isinstance(sh, Ref) and sh.kind == "obj" else None
            enter = self.repo.lookup_method(ci, "__enter__") if ci is not None else None
            if enter is not None:
                out |= self.call_fn(enter, V(sh), [], {}, e, fr, caller_env=env)
                ex = self.repo.lookup_method(ci, "__exit__")
                if ex is not None:
                    exits.append((V(sh), ex))
            else:
                out.add(sh)
        return frozenset(out)

    def bind_pattern(self, pat: ast.AST, v: frozenset, env: dict, fr: Frame) -> None:
        """Names captured by a `case` pattern."""
        if isinstance(pat, ast.MatchAs):
            if pat.pattern is not None:
                self.bind_pattern(pat.pattern, v, env, fr)
            if pat.name:
                env[pat.name] = v
        elif isinstance(pat, ast.MatchSequence):
            star = any(isinstance(x, ast.MatchStar) for x in pat.patterns)
            for i, sub in enumerate(pat.patterns):
                part: set = set()
                for sh in v:
                    if isinstance(sh, Tup) and not star and len(sh.items) == len(pat.patterns):
                        part |= sh.items[i]
                    elif isinstance(sh, Tup):
                        if not star:
                            continue  # a tuple of another length does not match
                        for it in sh.items:
                            part |= it
                    else:
                        part |= self.elems(V(sh))
                if isinstance(sub, ast.MatchStar):
                    if sub.name:
                        env[sub.name] = V(self.coll((id(sub), fr.inv, "star"), self.site(fr, sub), frozenset(part)))
                else:
                    self.bind_pattern(sub, frozenset(part), env, fr)
        elif isinstance(pat, ast.MatchClass):
            ci = None
            for sh in self.ev(pat.cls, env, fr):
                if isinstance(sh, Cls):
                    ci = self.repo.classes.get(sh.fq)
            names = list(ci.ann_attrs) if ci is not None else []
            for i, sub in enumerate(pat.patterns):
                self.bind_pattern(sub, self.attr(v, names[i], pat, env, fr) if i < len(names) else self.top("positional class pattern of an unknown class"), env, fr)
            for n, sub in zip(pat.kwd_attrs, pat.kwd_patterns):
                self.bind_pattern(sub, self.attr(v, n, pat, env, fr), env, fr)
        elif isinstance(pat, ast.MatchOr):
            for sub in pat.patterns:
                self.bind_pattern(sub, v, env, fr)
        elif isinstance(pat, ast.MatchMapping):
            for sub in pat.patterns:
                self.bind_pattern(sub, self.top("mapping pattern"), env, fr)
            if pat.rest:
                env[pat.rest] = self.top("mapping pattern")
        # MatchValue / MatchSingleton capture nothing

    def pattern_verdict(self, pat: ast.AST, v: frozenset, env: dict, fr: Frame) -> bool | None:
        """True: always matches, False: never, None: unknown."""
        if isinstance(pat, ast.MatchAs) and pat.pattern is None:
            return True
        if isinstance(pat, (ast.MatchValue, ast.MatchSingleton)):
            pv = self.ev(pat.value, env, fr) if isinstance(pat, ast.MatchValue) else V(Const(pat.value))
            if len(v) == 1 and len(pv) == 1 and isinstance(next(iter(v)), Const) and isinstance(next(iter(pv)), Const):
                return next(iter(v)).value == next(iter(pv)).value and type(next(iter(v)).value) is type(next(iter(pv)).value)
            ids = lambda x: {sh.key for sh in x if isinstance(sh, Ref) and sh.kind == "obj" and isinstance(sh.key, tuple) and sh.key and sh.key[0] == "enum"}  # noqa: E731
            if v and pv and len(ids(v)) == len(v) and len(ids(pv)) == len(pv):
                return True if ids(v) == ids(pv) and len(ids(v)) == 1 else (False if not (ids(v) & ids(pv)) else None)
        if isinstance(pat, ast.MatchOr):
            vs = [self.pattern_verdict(x, v, env, fr) for x in pat.patterns]
            return True if True in vs else (False if all(x is False for x in vs) else None)
        return None

    def narrow(self, test: ast.expr, env: dict, positive: bool) -> dict:
        """Environment of the branch in which `test` is true (positive) / false: `x is None`, `x is not None`, truthiness of a
        name, `not`, `and` (when true) / `or` (when false) chains remove the alternatives the test excludes."""
        if isinstance(test, ast.UnaryOp) and isinstance(test.op, ast.Not):
            return self.narrow(test.operand, env, not positive)
        if isinstance(test, ast.BoolOp) and ((isinstance(test.op, ast.And) and positive) or (isinstance(test.op, ast.Or) and not positive)):
            for x in test.values:
                env = self.narrow(x, env, positive)
            return env
        name, none_is_true = None, None
        if isinstance(test, ast.Compare) and len(test.ops) == 1 and isinstance(test.left, ast.Name) and isinstance(test.comparators[0], ast.Constant) and test.comparators[0].value is None and isinstance(test.ops[0], (ast.Is, ast.IsNot, ast.Eq, ast.NotEq)):
            name, none_is_true = test.left.id, isinstance(test.ops[0], (ast.Is, ast.Eq))
        elif isinstance(test, ast.Name):
            name, none_is_true = test.id, False  # truthy: not None
            if not positive:
                return env  # falsy: None, but also empty / zero - nothing to remove
        if name is None or name not in env:
            return env
        keep_none = none_is_true == positive
        v = env[name]
        if keep_none:
            if isinstance(test, ast.Compare):
                nv = frozenset(sh for sh in v if (isinstance(sh, Const) and sh.value is None) or (isinstance(sh, Sc) and sh.none) or isinstance(sh, (Opaque, Top)))
                nv = frozenset(Const(None) if isinstance(sh, Sc) else sh for sh in nv)
            else:
                nv = v
        else:
            nv = frozenset(replace(sh, none=False) if isinstance(sh, Sc) and sh.none else sh for sh in v if not (isinstance(sh, Const) and sh.value is None))
        if nv:
            env[name] = nv
        return env

    def early_exit(self, loop: ast.AST) -> ast.AST | None:
        """A `break`, or a `return` inside the loop body (the iteration may stop before the last element)."""
        stack = list(loop.body)
        while stack:
            n = stack.pop()
            if isinstance(n, (ast.FunctionDef, ast.AsyncFunctionDef, ast.Lambda, ast.ClassDef)):
                continue
            if isinstance(n, ast.Return):
                return n
            if isinstance(n, ast.Break):
                return n
            if isinstance(n, (ast.For, ast.AsyncFor, ast.While)):
                # a break inside a nested loop leaves only that loop; a return leaves both
                for x in ast.walk(n):
                    if isinstance(x, ast.Return):
                        return x
                continue
            stack.extend(ast.iter_child_nodes(n))
        return None

    def exec_for(self, s: ast.For, env: dict, fr: Frame) -> dict | None:
        e = self.eid((id(s), fr.inv), f"{fr.fi.relpath}:{s.lineno}")
        self.loop_eids.add(e)
        ex = self.early_exit(s)
        if isinstance(ex, ast.Return) and ex.value is not None and isinstance(s.iter, ast.Name) and any(isinstance(n, ast.Name) and n.id == s.iter.id for n in ast.walk(ex.value)):
            # `for first in it: return f(chain([first], it))`: the first element is peeked at, the rest of the very same iterator is
            # handed on in the returned value - nothing is left behind
            ex = None
        head = dict(env)
        brk = None
        itv = None
        iter_calls = False
        for _round in range(12):
            v0 = self.version
            if itv is None or not iter_calls:
                # views (d.items(), sorted(x), ...) are refreshed every round; a source computed by repository functions is
                # evaluated once (its result cells are shared and keep growing anyway)
                c0 = self.ncalls
                itv = self.ev(s.iter, head, fr)
                iter_calls = self.ncalls != c0
            elem = self.elems(itv)
            self.loop_srcs.setdefault(e, set()).update(x for sc in self.scalars(elem) for x in sc.srcs)
            self.loop_parents.setdefault(e, set()).update(x for sc in self.scalars(elem) for x in sc.eids if x != e)
            # one pass per alternative shape of the element keeps the provenance of different sources apart
            alts = [V(sh) for sh in elem] if 0 < len(elem) <= 64 else [elem]
            out = None
            for alt in alts:
                extra = []
                if ex is not None:
                    grouped = any(self.live(sc.assoc - sc.gone) for sc in self.scalars(alt))
                    extra = [("part", self.site(fr, ex), f"the loop `for {norm(s.target)} in {norm(s.iter, 60)}` is left early by `{norm(ex, 40)}`", grouped)]
                cur = self.retag(alt, e, (id(s), fr.inv, "it"), extra)
                benv = dict(head)
                self.assign(s.target, cur, benv, fr)
                fr.loops.append({"break": None, "cont": None})
                self.active.append(e)
                self.uncertain += 1
                try:
                    o = self.exec_block(s.body, benv, fr)
                finally:
                    self.uncertain -= 1
                    self.active.pop()
                    lp = fr.loops.pop()
                out = self.join_env(out, self.join_env(o, lp["cont"]))
                brk = self.join_env(brk, lp["break"])
            new_head = self.join_env(dict(head), out)
            if new_head == head and self.version == v0:
                break
            head = new_head
        res = self.exec_block(s.orelse, dict(head), fr) if s.orelse else head
        return self.join_env(res, brk)

    def exec_while(self, s: ast.While, env: dict, fr: Frame) -> dict | None:
        head = dict(env)
        brk = None
        for _round in range(12):
            v0 = self.version
            tv = self.ev(s.test, head, fr)
            if self.as_bool(tv) is False:
                break
            fr.loops.append({"break": None, "cont": None})
            self.uncertain += 1
            self.in_while += 1
            try:
                out = self.exec_block(s.body, dict(head), fr)
            finally:
                self.in_while -= 1
                self.uncertain -= 1
                lp = fr.loops.pop()
            out = self.join_env(out, lp["cont"])
            brk = self.join_env(brk, lp["break"])
            new_head = self.join_env(dict(head), out)
            if new_head == head and self.version == v0:
                break
            head = new_head
        res = self.exec_block(s.orelse, dict(head), fr) if s.orelse else head
        return self.join_env(res, brk)

    # ------------------------------------------------------------------ assignment
    def assign(self, t: ast.expr, v: frozenset, env: dict, fr: Frame) -> None:
        if isinstance(t, ast.Name):
            env[t.id] = v
            return
        if isinstance(t, (ast.Tuple, ast.List)):
            n = len(t.elts)
            parts: list[set] = [set() for _ in range(n)]
            star = next((i for i, x in enumerate(t.elts) if isinstance(x, ast.Starred)), None)
            for sh in v:
                if isinstance(sh, Tup) and star is None and len(sh.items) == n:
                    for i, it in enumerate(sh.items):
                        parts[i] |= it
                elif isinstance(sh, Tup) and star is not None:
                    for i in range(n):
                        for it in sh.items:
                            parts[i] |= it
                elif isinstance(sh, Ref) and sh.kind in ("coll", "dict"):
                    el = self.elems(V(sh))
                    for i in range(n):
                        parts[i] |= el
                elif isinstance(sh, Ref) and sh.kind == "obj":
                    ci = self.cell(sh).ci
                    names = self.record_fields(ci) if self.is_namedtuple(ci) else []
                    if names and star is None and len(names) == n:
                        for i, nm in enumerate(names):
                            parts[i] |= self.attr(V(sh), nm, t, env, fr)
                    else:
                        el = self.elems(V(sh))  # __iter__ of the class, or Top
                        for i in range(n):
                            parts[i] |= el
                elif isinstance(sh, (Cls, Lib, Fn, Getter, Partial)):
                    for i in range(n):
                        parts[i] |= self.top(f"unpacking of a {type(sh).__name__}")
                elif isinstance(sh, Sc):
                    for i in range(n):
                        parts[i].add(replace(sh, none=False, agg=False))
                elif isinstance(sh, (Opaque, Top)):
                    for i in range(n):
                        parts[i].add(sh if isinstance(sh, Top) else Sc())
                elif isinstance(sh, Tup):
                    for i in range(n):
                        parts[i] |= self.top(f"unpacking a {len(sh.items)}-tuple into {n} targets")
            for i, x in enumerate(t.elts):
                if isinstance(x, ast.Starred):
                    r = self.coll((id(x), fr.inv, "star"), self.site(fr, x), frozenset(parts[i]))
                    self.assign(x.value, V(r), env, fr)
                else:
                    self.assign(x, frozenset(parts[i]), env, fr)
            return
        if isinstance(t, ast.Attribute):
            base = self.ev(t.value, env, fr)
            objs = [sh for sh in base if isinstance(sh, Ref) and sh.kind == "obj"]
            for sh in objs:
                self.set_field(sh, t.attr, v, strong=len(base) == 1)
            return
        if isinstance(t, ast.Subscript):
            base, _k = self.recv_for_mutation(t.value, env, fr, "dict")
            key = self.ev(t.slice, env, fr) if not isinstance(t.slice, ast.Slice) else E
            for sh in base:
                if isinstance(sh, Ref) and sh.kind == "dict":
                    self.store_entry(sh, key, self.bake(key, v, fr, t), explicit=self.site(fr, t), accumulating=getattr(self, "_accumulating", False))
                elif isinstance(sh, Ref) and sh.kind == "coll":
                    self.add(sh, v if not isinstance(t.slice, ast.Slice) else self.elems(v))
            return
        if isinstance(t, ast.Starred):
            self.assign(t.value, v, env, fr)

    def aug_assign(self, s: ast.AugAssign, env: dict, fr: Frame) -> None:
        rv = self.ev(s.value, env, fr)
        if isinstance(s.target, ast.Subscript):
            base, key = self.recv_for_mutation(s.target, env, fr, "coll")
            cur = base
        else:
            cur = self.ev(s.target, env, fr)
            key = None
        new: set = set()
        scal: set = set()
        for sh in cur:
            if isinstance(sh, Ref) and sh.kind == "coll":
                if isinstance(s.op, (ast.Add, ast.BitOr)):
                    add = self.unvet(self.elems(rv))
                    if key is not None:
                        add = self.bake(key, add, fr, s, self.cell(sh).shared, keyed_add=True)
                    self.add(sh, add)
                    self.note_mutation([sh], add, s, env, fr)
                new.add(sh)
            elif isinstance(sh, Ref) and sh.kind == "dict":
                if isinstance(s.op, ast.BitOr):
                    for o in rv:
                        if isinstance(o, Ref) and o.kind == "dict":
                            for k, v in list(self.cell(o).entries):
                                self.store_entry(sh, k, v)
                new.add(sh)
            else:
                scal.add(sh)
        if scal:
            new |= self.binop(frozenset(scal), rv, s.op, s, fr)
        if not isinstance(s.target, ast.Subscript):
            self.assign(s.target, frozenset(new), env, fr)

    def bake(self, key: frozenset, v: frozenset, fr: Frame, node: ast.AST, force: str = "", keyed_add: bool = False) -> frozenset:
        """Value stored under `key`: marked when the key is subject (object) content and the value object (subject) content of
        another violation pair."""
        if not key:
            return v
        # a collection stored under a key: members that got there through a key of their own were checked when they were added
        vs = self.scalars(v) if keyed_add else [sc for sc in self.scalars(v) if not sc.vet]
        m = self.link_mark([self.scalars(key), vs], fr, node, force)
        if m is not None:
            v = self.with_marks(v, [m], (id(node), fr.inv, "bake"))
        if keyed_add:
            # accumulation under the key: runs of one key that were split by `groupby` are re-united
            v = frozenset(replace(sh, vet=True) if isinstance(sh, Sc) else sh for sh in self.strip_runs(v))
        return v

    def recv_for_mutation(self, e: ast.expr, env: dict, fr: Frame, kind: str) -> tuple[frozenset, frozenset | None]:
        """Containers denoted by an expression in receiver / store position; entries of dicts are created on demand
        (`d[k].append(v)` on a defaultdict, `d.setdefault(k, []).append(v)`). Returns (containers, key of the last step)."""
        if isinstance(e, ast.Subscript) and not isinstance(e.slice, ast.Slice):
            base, _ = self.recv_for_mutation(e.value, env, fr, "dict")
            key = self.ev(e.slice, env, fr)
            out: set = set()
            keyed = False
            for sh in base:
                if isinstance(sh, Ref) and sh.kind == "dict":
                    keyed = True
                    inner = {x for _k, v in self.cell(sh).entries for x in v if isinstance(x, Ref) and x.kind in ("coll", "dict")}
                    if not inner:
                        k = (id(e), fr.inv, "auto", sh.key)
                        inner = {self.coll(k, self.site(fr, e)) if kind == "coll" else self.dict_(k, self.site(fr, e))}
                        for r in inner:
                            # the per-key collection of a defaultdict belongs to the dictionary
                            self.cells[r.key].scope = self.cells[r.key].scope & self.cell(sh).scope
                            self.cells[r.key].born = self.cells[r.key].born & self.cell(sh).born
                    for r in inner:
                        self.store_entry(sh, key, V(r))
                    out |= inner
                elif isinstance(sh, Ref) and sh.kind == "coll":
                    out |= {x for x in self.cell(sh).elem if isinstance(x, Ref)}
                elif isinstance(sh, Top):
                    out.add(sh)
            return frozenset(out), (key if keyed else None)
        if isinstance(e, ast.Call) and isinstance(e.func, ast.Attribute) and e.func.attr == "setdefault" and e.args:
            base, _ = self.recv_for_mutation(e.func.value, env, fr, "dict")
            key = self.ev(e.args[0], env, fr)
            default = self.ev(e.args[1], env, fr) if len(e.args) > 1 else NONE_V
            out = set()
            keyed = False
            for sh in base:
                if isinstance(sh, Ref) and sh.kind == "dict":
                    keyed = True
                    inner = {x for _k, v in self.cell(sh).entries for x in v if isinstance(x, Ref) and x.kind in ("coll", "dict")}
                    inner |= {x for x in default if isinstance(x, Ref)}
                    for r in inner:
                        self.store_entry(sh, key, V(r))
                    out |= inner
            if keyed:
                return frozenset(out), key
        return self.ev(e, env, fr), None

    # ------------------------------------------------------------------ conditions / partiality
    def note_cond(self, test: ast.expr, tv: frozenset, env: dict, fr: Frame) -> None:
        self.cond_kind[(id(test), fr.inv)] = self.classify_cond(test, tv, env, fr)

    def classify_cond(self, e: ast.expr, v: frozenset | None, env: dict, fr: Frame) -> str:
        """const | benign (emptiness of a collection / aggregate) | data (depends on reported pairs) | neutral."""
        if isinstance(e, ast.UnaryOp) and isinstance(e.op, ast.Not):
            return self.classify_cond(e.operand, None, env, fr)
        if isinstance(e, ast.BoolOp):
            kinds = [self.classify_cond(x, None, env, fr) for x in e.values]
            for k in ("data", "neutral", "benign"):
                if k in kinds:
                    return k
            return "const"
        if v is None:
            v = self.ev(e, env, fr)
        if self.as_bool(v) is not None:
            return "const"
        target = e
        if isinstance(e, ast.Compare) and len(e.ops) == 1 and isinstance(e.left, ast.Call) and isinstance(e.left.func, ast.Name) and e.left.func.id == "len" and len(e.left.args) == 1:
            c = e.comparators[0]
            if isinstance(c, ast.Constant) and c.value in (0, 1) and not (c.value == 1 and isinstance(e.ops[0], (ast.Gt, ast.Eq, ast.NotEq, ast.LtE))):
                target = e.left.args[0]
        if isinstance(e, ast.Compare) and len(e.ops) == 1 and isinstance(e.ops[0], (ast.Eq, ast.NotEq)) and isinstance(e.comparators[0], (ast.List, ast.Tuple, ast.Set, ast.Dict)) and not getattr(e.comparators[0], "elts", getattr(e.comparators[0], "keys", [])):
            target = e.left
        if target is not e or isinstance(e, (ast.Name, ast.Attribute, ast.Subscript, ast.Call)):
            tv = self.ev(target, env, fr) if target is not e else v
            if tv and all((isinstance(sh, Ref) and sh.kind in ("coll", "dict")) or isinstance(sh, (Tup, Const)) or (isinstance(sh, Sc) and sh.agg) for sh in tv):
                return "benign"
        if any(s.srcs - {x for x in s.srcs if str(x).startswith("fld:")} for s in self.scalars(v)):
            return "data"
        return "neutral"

    def data_conds(self, node: ast.AST, env: dict, fr: Frame) -> list:
        """The data-dependent conditions the statement being interpreted is control dependent on (within its function)."""
        if self.in_cond:
            return []  # while a condition itself is being (re-)examined
        return [(self.site(fr, e), f"only if `{'' if pol else 'not '}{norm(e, 70)}`", e, ce) for e, pol, k, ce in fr.ctrl if k == "data"]

    def is_dedupe_test(self, e: ast.expr, refs, added: frozenset, env: dict, fr: Frame) -> bool:
        """`x in C` / `x not in C` where C is the collection being filled or holds values of the same provenance as x:
        a duplicate is skipped, nothing is lost."""
        while isinstance(e, ast.UnaryOp) and isinstance(e.op, ast.Not):
            e = e.operand
        if not (isinstance(e, ast.Compare) and len(e.ops) == 1 and isinstance(e.ops[0], (ast.In, ast.NotIn))):
            return False
        self.in_cond += 1
        try:
            cv = self.ev(e.comparators[0], env, fr)
            lv = self.ev(e.left, env, fr)
        except KeyError:
            return False
        finally:
            self.in_cond -= 1
        if any(isinstance(sh, Ref) and sh in set(refs) for sh in cv):
            return True
        prov = lambda scs: {(sc.roles, frozenset(x for x in sc.srcs if not str(x).startswith("fld:"))) for sc in scs}  # noqa: E731
        members = [sh for sh in cv if isinstance(sh, Ref) and sh.kind in ("coll", "dict")]
        if not members or len(members) != len(cv):
            return False
        # a 'seen' collection that outlives the collection being filled (one result list per key, one 'seen' set for all keys) does
        # not skip duplicates of this list: it withholds what another list already got
        filled = [self.cells[r.key] for r in refs if isinstance(r, Ref) and r.kind in ("coll", "dict")]
        if any(f.born - self.cells[m.key].born for f in filled for m in members):
            return False
        a, b, c = prov(self.scalars(lv)), prov(self.scalars(self.elems(cv))), prov(self.scalars(added))
        return bool(a) and (not b or a <= b) and c <= a

    def selection_eids(self, e: ast.expr, added: frozenset, env: dict, fr: Frame) -> frozenset:
        """`if key_of(x) == current_key:` - identities of the enclosing iterations the equality test compares the added element with."""
        if not (isinstance(e, ast.Compare) and len(e.ops) == 1 and isinstance(e.ops[0], (ast.Eq, ast.Is))):
            return E
        self.in_cond += 1
        try:
            tv = self.ev(e, env, fr)
        except KeyError:
            return E
        finally:
            self.in_cond -= 1
        own = frozenset(x for sc in self.scalars(added) for x in self.live(sc.eids - sc.gone))
        both = frozenset(x for sc in self.scalars(tv) for x in self.live(sc.eids - sc.gone))
        return both - own if (both & own) else E

    def select(self, v: frozenset, node: ast.AST, env: dict, fr: Frame) -> frozenset:
        """Elements added under `if key_of(x) == current_key` are grouped under the element that supplied the key."""
        outer: set = set()
        for r in self.data_conds(node, env, fr):
            pol = not r[1].startswith("only if `not ")
            if pol:
                outer |= self.selection_eids(r[2], v, env, fr)
        if not outer:
            return v
        fo = frozenset(outer)
        return self.map_scalars(v, lambda sc: replace(sc, assoc=sc.assoc | fo), (id(node), fr.inv, "sel"))

    def note_mutation(self, refs, added: frozenset, node: ast.AST, env: dict, fr: Frame) -> None:
        reasons = [(r[0], r[1], r[3]) for r in self.data_conds(node, env, fr) if not self.is_dedupe_test(r[2], refs, added, env, fr) and not (not r[1].startswith("only if `not ") and self.selection_eids(r[2], added, env, fr))]
        for g in self.guards:
            reasons = reasons + g
        if not reasons:
            return
        grouped = any(self.live(sc.assoc - sc.gone) for sc in self.scalars(added))
        for r in refs:
            if isinstance(r, Ref) and r.kind == "coll":
                born = self.cells[r.key].scope
                # a condition on the element of an iteration only drops something from collections that outlive that element
                marks = [("part", w, why, grouped) for w, why, ce in reasons if not (ce and ce <= born)]
                if marks:
                    self.add_part(r, marks)

    # ------------------------------------------------------------------ expressions
    def ev(self, e: ast.expr, env: dict, fr: Frame) -> frozenset:
        v = self.ev_(e, env, fr)
        if self.record:
            self.node_vals[id(e)] = self.node_vals.get(id(e), E) | v
        return v

    def ev_(self, e: ast.expr, env: dict, fr: Frame) -> frozenset:
        if isinstance(e, ast.Constant):
            return V(Const(e.value))
        if isinstance(e, ast.Name):
            if e.id in env:
                return env[e.id]
            return self.lookup_global(fr, e.id, e)
        if isinstance(e, ast.Attribute):
            return self.attr(self.ev(e.value, env, fr), e.attr, e, env, fr)
        if isinstance(e, ast.Call):
            return self.call(e, env, fr)
        if isinstance(e, ast.Tuple) and isinstance(e.ctx, ast.Load):
            items = []
            for x in e.elts:
                if isinstance(x, ast.Starred):
                    return V(self.coll((id(e), fr.inv, "tup"), self.site(fr, e), frozenset().union(*[self.elems(self.ev(y.value, env, fr)) if isinstance(y, ast.Starred) else self.ev(y, env, fr) for y in e.elts])))
                items.append(self.ev(x, env, fr))
            t = Tup(tuple(items), self.site(fr, e))
            # (subject, object) built from two different pairs; members that are whole collections (a tuple of buckets) are
            # checked where their elements are combined
            m = self.link_mark([self.scalars(it, into_colls=False) for it in items], fr, e)
            if m is not None:
                return self.with_marks(V(t), [m], (id(e), fr.inv, "mix"))
            return V(t)
        if isinstance(e, (ast.List, ast.Set)):
            els: set = set()
            for x in e.elts:
                if isinstance(x, ast.Starred):
                    els |= self.elems(self.ev(x.value, env, fr))
                else:
                    els |= self.ev(x, env, fr)
            return V(self.coll((id(e), fr.inv, "lit"), self.site(fr, e), frozenset(els)))
        if isinstance(e, ast.Dict):
            r = self.dict_((id(e), fr.inv, "lit"), self.site(fr, e))
            for k, v in zip(e.keys, e.values):
                if k is None:
                    for o in self.ev(v, env, fr):
                        if isinstance(o, Ref) and o.kind == "dict":
                            for kk, vv in list(self.cell(o).entries):
                                self.store_entry(r, kk, vv)
                else:
                    kv = self.ev(k, env, fr)
                    self.store_entry(r, kv, self.bake(kv, self.ev(v, env, fr), fr, e))
            return V(r)
        if isinstance(e, (ast.ListComp, ast.SetComp, ast.GeneratorExp, ast.DictComp)):
            return self.comprehension(e, env, fr)
        if isinstance(e, ast.Subscript):
            return self.subscript(e, env, fr)
        if isinstance(e, ast.JoinedStr):
            parts = [self.text_of(self.ev(x.value, env, fr), x, fr) for x in e.values if isinstance(x, ast.FormattedValue)]
            if not parts:
                return V(Const("".join(x.value for x in e.values if isinstance(x, ast.Constant))))
            if all(len(p) == 1 and isinstance(next(iter(p)), Const) and isinstance(next(iter(p)).value, (str, int)) for p in parts) and all(x.format_spec is None and x.conversion == -1 for x in e.values if isinstance(x, ast.FormattedValue)):
                # built from constants only (`f"_create_{kind}_messages"`): a constant
                it_ = iter(parts)
                return V(Const("".join(x.value if isinstance(x, ast.Constant) else str(next(iter(next(it_))).value) for x in e.values)))
            return self.derive(parts, fr, e)
        if isinstance(e, ast.BinOp):
            return self.binop(self.ev(e.left, env, fr), self.ev(e.right, env, fr), e.op, e, fr)
        if isinstance(e, ast.BoolOp):
            is_and = isinstance(e.op, ast.And)
            acc: set = set()
            last = E
            for x in e.values:
                v = self.ev(x, env, fr)
                b = self.as_bool(v)
                last = v
                if b is None:
                    acc |= v
                    continue
                if b is (not is_and):
                    # `or` met a true operand / `and` met a false one: evaluation stops here
                    return frozenset(acc) | v if acc else v
            return frozenset(acc) | last
        if isinstance(e, ast.UnaryOp):
            v = self.ev(e.operand, env, fr)
            if isinstance(e.op, ast.Not):
                b = self.as_bool(v)
                if b is not None:
                    return V(Const(not b))
                return self.derive([v], fr, e, check=False)
            return self.derive([v], fr, e, check=False)
        if isinstance(e, ast.Compare):
            return self.compare(e, env, fr)
        if isinstance(e, ast.IfExp):
            tv = self.ev(e.test, env, fr)
            b = self.as_bool(tv)
            self.note_cond(e.test, tv, env, fr)
            if b is True:
                return self.ev(e.body, env, fr)
            if b is False:
                return self.ev(e.orelse, env, fr)
            return self.ev(e.body, env, fr) | self.ev(e.orelse, env, fr)
        if isinstance(e, ast.Lambda):
            nf = self.lambda_func(e, fr)
            if nf is None:
                return self.top("lambda without function info")
            self.closures.append(env)
            return V(Fn(nf, None, len(self.closures) - 1))
        if isinstance(e, ast.NamedExpr):
            v = self.ev(e.value, env, fr)
            self.assign(e.target, v, env, fr)
            return v
        if isinstance(e, ast.Starred):
            return self.ev(e.value, env, fr)
        if isinstance(e, ast.Await):
            return self.ev(e.value, env, fr)
        if isinstance(e, (ast.Yield, ast.YieldFrom)):
            if fr.yields is None:
                fr.yields = self.coll((id(fr.fi.node), fr.inv, "gen"), self.site(fr, e))
            if e.value is not None:
                v = self.ev(e.value, env, fr)
                add = self.elems(v) if isinstance(e, ast.YieldFrom) else v
                self.add(fr.yields, add)
                self.note_mutation([fr.yields], add, e, env, fr)
            return NONE_V
        if isinstance(e, ast.Slice):
            return V(Sc())
        return self.top(f"unsupported expression {type(e).__name__}")

    def text_of(self, v: frozenset, node: ast.AST, fr: Frame) -> frozenset:
        """str(v): instances of repo classes that define __str__ / __format__ / __repr__ are rendered by that method."""
        out: set = set()
        for sh in v:
            if isinstance(sh, Ref) and sh.kind == "obj" and self.cell(sh).ci is not None:
                ci = self.cell(sh).ci
                m = self.repo.lookup_method(ci, "__str__") or self.repo.lookup_method(ci, "__format__") or self.repo.lookup_method(ci, "__repr__")
                if m is not None:
                    out |= self.call_fn(m, V(sh), [V(Const(""))] if m.name == "__format__" else [], {}, node, fr)
                    continue
            out.add(sh)
        return frozenset(out)

    def compare(self, e: ast.Compare, env: dict, fr: Frame) -> frozenset:
        left = self.ev(e.left, env, fr)
        rights = [self.ev(c, env, fr) for c in e.comparators]
        if len(e.ops) == 1:
            op, right = e.ops[0], rights[0]
            if isinstance(op, (ast.Is, ast.IsNot)) and right == NONE_V:
                can, other = self.may_be_none(left)
                if left and not can:
                    return V(Const(isinstance(op, ast.IsNot)))
                if left and not other:
                    return V(Const(isinstance(op, ast.Is)))
            if isinstance(op, (ast.Eq, ast.NotEq, ast.Is, ast.IsNot)) and len(left) == 1 and len(right) == 1:
                a, b = next(iter(left)), next(iter(right))
                if isinstance(a, Const) and isinstance(b, Const):
                    eq = a.value == b.value
                    return V(Const(eq if isinstance(op, (ast.Eq, ast.Is)) else not eq))
        return self.derive([left, *rights], fr, e, check=False)

    def binop(self, a: frozenset, b: frozenset, op: ast.operator, node: ast.AST, fr: Frame) -> frozenset:
        colls = [sh for sh in a | b if isinstance(sh, Ref) and sh.kind == "coll"]
        out: set = set()
        if colls and isinstance(op, (ast.Add, ast.BitOr, ast.Sub, ast.BitAnd, ast.BitXor, ast.Mult)):
            r = self.coll((id(node), fr.inv, "bin"), self.site(fr, node))
            if isinstance(op, (ast.Add, ast.BitOr, ast.BitXor)):
                self.add(r, self.elems(frozenset(colls)))
            else:
                left_colls = frozenset(sh for sh in a if isinstance(sh, Ref) and sh.kind == "coll")
                self.add(r, self.elems(left_colls))
                if isinstance(op, (ast.Sub, ast.BitAnd)):
                    own = [sc for sc in self.scalars(b)] if isinstance(op, ast.Sub) else []
                    if not (own and all(x for sc in own for x in [self.live(sc.eids - sc.gone) & frozenset(self.loop_eids)])):
                        # (`all - {own}` inside the iteration over `own` is 'all the others': nothing that matters is lost)
                        grouped = any(self.live(sc.assoc - sc.gone) for sc in self.scalars(self.elems(left_colls)))
                        self.add_part(r, [("part", self.site(fr, node), f"elements are removed by `{norm(node, 60)}`", grouped)])
            out.add(r)
        rest_a = frozenset(sh for sh in a if not (isinstance(sh, Ref) and sh.kind == "coll"))
        rest_b = frozenset(sh for sh in b if not (isinstance(sh, Ref) and sh.kind == "coll"))
        if rest_a or rest_b:
            if len(rest_a) == 1 and len(rest_b) == 1 and all(isinstance(next(iter(x)), Const) for x in (rest_a, rest_b)):
                x, y = next(iter(rest_a)).value, next(iter(rest_b)).value
                if isinstance(op, ast.Add) and isinstance(x, (str, int)) and type(x) is type(y):
                    return frozenset(out) | V(Const(x + y))
                return frozenset(out) | V(Sc())
            out |= self.derive([rest_a, rest_b], fr, node)
        return frozenset(out)

    def comprehension(self, e: ast.AST, env: dict, fr: Frame) -> frozenset:
        if isinstance(e, ast.DictComp):
            res = self.dict_((id(e), fr.inv, "comp"), self.site(fr, e))
        else:
            res = self.coll((id(e), fr.inv, "comp"), self.site(fr, e))
        outer_marks: list = []
        born = frozenset(self.active)
        for gd in self.guards:
            outer_marks += [("part", r[0], r[1], False) for r in gd if not (r[2] and r[2] <= born)]
        outer_marks += [("part", r[0], r[1], False) for r in self.data_conds(e, env, fr) if not (r[3] and r[3] <= born)]

        def gen(gi: int, inner: dict, marks: list) -> None:
            if gi == len(e.generators):
                if isinstance(e, ast.DictComp):
                    kv = self.ev(e.key, inner, fr)
                    vv = self.ev(e.value, inner, fr)
                    self.store_entry(res, kv, self.bake(kv, self.with_marks(vv, marks, (id(e), fr.inv, "cm")), fr, e), explicit=self.site(fr, e))
                else:
                    self.add(res, self.unvet(self.ev(e.elt, inner, fr)))
                    if marks:
                        self.add_part(res, marks)
                return
            g = e.generators[gi]
            itv = self.ev(g.iter, inner, fr)
            eid = self.eid((id(e), gi, fr.inv), f"{fr.fi.relpath}:{e.lineno}")
            self.loop_eids.add(eid)
            elem = self.elems(itv)
            self.loop_srcs.setdefault(eid, set()).update(x for sc in self.scalars(elem) for x in sc.srcs)
            self.loop_parents.setdefault(eid, set()).update(x for sc in self.scalars(elem) for x in sc.eids if x != eid)
            alts = [V(sh) for sh in elem] if 0 < len(elem) <= 64 else [elem]
            for alt in alts:
                cur = self.retag(alt, eid, (id(e), gi, fr.inv, "it"))
                env2 = dict(inner)
                self.assign(g.target, cur, env2, fr)
                self.active.append(eid)
                try:
                    dead = False
                    ms = list(marks)
                    for c in g.ifs:
                        tv = self.ev(c, env2, fr)
                        b = self.as_bool(tv)
                        k = self.classify_cond(c, tv, env2, fr)
                        self.cond_kind[(id(c), fr.inv)] = k
                        if b is False:
                            dead = True
                            break
                        if k == "data":
                            own = {self.eids.get((id(e), i, fr.inv)) for i in range(gi + 1)}
                            outer = frozenset(x for sc in self.scalars(tv) for x in self.live(sc.eids - sc.gone) if x not in own)
                            if outer and isinstance(c, ast.Compare) and len(c.ops) == 1 and isinstance(c.ops[0], (ast.Eq, ast.Is)):
                                # selection relative to the current element of an enclosing iteration (`for s in subjects: [o for s2, o in pairs if s2 == s]`):
                                # the selected elements are grouped under that element
                                cur = self.map_scalars(cur, lambda sc, outer=outer: replace(sc, assoc=sc.assoc | outer), (id(e), gi, fr.inv, "sel"))
                                self.assign(g.target, cur, env2, fr)
                                continue
                            if self.is_dedupe_test(c, [res], cur, env2, fr):
                                continue
                            grouped = any(self.live(sc.assoc - sc.gone) for sc in self.scalars(cur))
                            ms.append(("part", self.site(fr, c), f"only if `{norm(c, 70)}`", grouped))
                    if not dead:
                        gen(gi + 1, env2, ms)
                finally:
                    self.active.pop()

        gen(0, dict(env), outer_marks)
        if isinstance(e, ast.SetComp):
            self.cell(res).order = ("unsorted",)
        elif not isinstance(e, ast.DictComp) and len(e.generators) == 1 and isinstance(e.elt, ast.Name) and isinstance(e.generators[0].target, ast.Name) and e.elt.id == e.generators[0].target.id:
            # `[x for x in xs if c]`: a sub-sequence keeps the order of xs
            try:
                self.in_cond += 1
                self.cell(res).order = self.order_of(self.ev(e.generators[0].iter, env, fr))
            finally:
                self.in_cond -= 1
        return V(res)

    def subscript(self, e: ast.Subscript, env: dict, fr: Frame) -> frozenset:
        base = self.ev(e.value, env, fr)
        if isinstance(e.slice, ast.Slice):
            out: set = set()
            for sh in base:
                if isinstance(sh, Ref) and sh.kind == "coll":
                    full = e.slice.lower is None and e.slice.upper is None
                    r = self.coll((id(e), fr.inv, "slice", sh.key), self.site(fr, e))
                    self.cell(r).order = self.cell(sh).order
                    el = self.elems(V(sh))
                    self.add(r, el)
                    if not full:
                        grouped = any(self.live(sc.assoc - sc.gone) for sc in self.scalars(el))
                        self.add_part(r, [("part", self.site(fr, e), f"only the slice `{norm(e, 60)}` is used", grouped)])
                    out.add(r)
                elif isinstance(sh, Tup):
                    sl = e.slice
                    consts = [x.value if isinstance(x, ast.Constant) else (-x.operand.value if isinstance(x, ast.UnaryOp) and isinstance(x.op, ast.USub) and isinstance(x.operand, ast.Constant) else "?") if x is not None else None for x in (sl.lower, sl.upper, sl.step)]
                    if "?" not in consts:
                        out.add(Tup(tuple(sh.items[slice(*consts)]), sh.site))
                    else:
                        out.add(self.coll((id(e), fr.inv, "slice", "t"), self.site(fr, e), frozenset().union(*sh.items) if sh.items else E))
                elif isinstance(sh, (Sc, Const, Opaque)):
                    out |= self.derive([V(sh)], fr, e, check=False)
                elif isinstance(sh, Top):
                    out.add(sh)
            return frozenset(out)
        key = self.ev(e.slice, env, fr)
        out = set()
        for sh in base:
            if isinstance(sh, Ref) and sh.kind == "dict":
                if self.cell(sh).factory and isinstance(e.ctx, ast.Load):
                    # defaultdict(SomeClass)[key]: a missing key gets a fresh value from the factory
                    made: set = set()
                    for f in self.cell(sh).factory:
                        made |= self.apply(f, [], {}, e, env, fr)
                    self.store_entry(sh, key, frozenset(made))
                out |= self.dict_lookup(sh, key, e, fr)
            elif isinstance(sh, Ref) and sh.kind == "coll":
                fixed = len(key) == 1 and isinstance(next(iter(key)), Const) and isinstance(next(iter(key)).value, int)
                # `xs[i]` and `ys[i]` (parallel lists, e.g. after `xs, ys = zip(*pairs)`) denote parts of one pair: one identity per index expression
                out |= self.pick(self.elems(V(sh)), ("idx", norm(e.slice, 40), fr.inv), self.site(fr, e), f"only the element `{norm(e, 60)}` is used" if fixed else "")
            elif isinstance(sh, Tup):
                idx = next(iter(key)).value if len(key) == 1 and isinstance(next(iter(key)), Const) else None
                if isinstance(idx, int) and -len(sh.items) <= idx < len(sh.items):
                    out |= sh.items[idx]
                else:
                    for it in sh.items:
                        out |= it
            elif isinstance(sh, Sc):
                out |= self.derive([V(sh), key], fr, e, check=False)
            elif isinstance(sh, (Opaque, Cls, Lib)):
                if isinstance(sh, (Cls, Lib)):
                    out.add(sh)  # generic alias `list[int]`
                else:
                    out |= self.derive([key], fr, e, check=False, none=False)
            elif isinstance(sh, Const):
                out.add(Sc())
            elif isinstance(sh, Top):
                out.add(sh)
            elif isinstance(sh, Ref) and sh.kind == "obj":
                ci = self.cell(sh).ci
                getitem = self.repo.lookup_method(ci, "__getitem__") if ci is not None else None
                idx = next(iter(key)).value if len(key) == 1 and isinstance(next(iter(key)), Const) else None
                if getitem is not None:
                    out |= self.call_fn(getitem, V(sh), [key], {}, e, fr, caller_env=env)
                elif self.is_namedtuple(ci):
                    names = self.record_fields(ci)
                    if isinstance(idx, int) and not isinstance(idx, bool) and -len(names) <= idx < len(names):
                        out |= self.attr(V(sh), names[idx], e, env, fr)
                    else:
                        for nm in names:
                            out |= self.attr(V(sh), nm, e, env, fr)
                else:
                    out |= self.top(f"`{norm(e, 50)}`: subscript of an instance of {ci.name if ci else 'an object'}")
            else:
                out |= self.top(f"`{norm(e, 50)}`: subscript of a {type(sh).__name__}")
        return frozenset(out)

    def dict_lookup(self, ref: Ref, key: frozenset, node: ast.AST, fr: Frame) -> frozenset:
        lk = frozenset().union(*[self.live(s.eids - s.gone) for s in self.scalars(key)]) if key else E
        out: set = set()
        entries = list(self.cell(ref).entries)
        if len(key) == 1 and isinstance(next(iter(key)), Const) and entries and all(len(k) == 1 and isinstance(next(iter(k)), Const) for k, _v in entries):
            # a table with constant keys read with a constant key (`{True: keep, False: flip}[flag]`): only that entry
            kc = next(iter(key)).value
            entries = [(k, v) for k, v in entries if type(next(iter(k)).value) is type(kc) and next(iter(k)).value == kc]
        # keys made from distinct input objects (the first / the second architecture a matcher is applied to) never collide
        origin = lambda val: frozenset(x for sc in self.scalars(val) for x in sc.srcs if str(x).startswith("evaluable#"))  # noqa: E731
        ko = origin(key)
        if ko:
            entries = [(k, v) for k, v in entries if not origin(k) or origin(k) == ko]
        for _k, v in entries:
            if lk:
                # objects kept in a dictionary are handed out as they are (they may be changed through the reference)
                objs = frozenset(x for x in v if isinstance(x, Ref) and x.kind == "obj")
                out |= objs
                v = v - objs
                out |= self.map_scalars(v, lambda s: s if (lk <= s.assoc or not (s.srcs or s.roles)) else replace(s, assoc=s.assoc | lk), (id(node), fr.inv, "lk", ref.key))
            else:
                out |= v
        return frozenset(out)

    # ------------------------------------------------------------------ attributes
    def attr(self, base: frozenset, name: str, node: ast.AST, env: dict, fr: Frame) -> frozenset:
        out: set = set()
        for sh in base:
            if isinstance(sh, Ref) and sh.kind == "obj":
                c = self.cell(sh)
                if name == "__dict__":
                    d = self.dict_((id(node), fr.inv, "__dict__", sh.key), self.site(fr, node))
                    for n in list(c.fields):
                        self.store_entry(d, V(Const(n)), self.attr(V(sh), n, node, env, fr))
                    out.add(d)
                    continue
                if name in c.fields:
                    v = c.fields[name]
                    if (sh.key, name) in self.stale:
                        self.stale_reads.append((self.site(fr, node), self.where(fr, node), name))
                    if self.is_record(c.ci):
                        tag = f"fld:{c.ci.name}.{name}"
                        # collections held by a record keep their identity (they may be filled through the field)
                        held = frozenset(x for x in v if isinstance(x, Ref) and x.kind in ("coll", "dict"))
                        v = held | self.map_scalars(v - held, lambda s, tag=tag: replace(s, srcs=s.srcs | {tag}), (id(node), fr.inv, "fld"))
                    out |= v
                    continue
                m = self.find_method(c.ci, name) if c.ci is not None else None
                if m is not None and any(d.rsplit(".", 1)[-1] == "cached_property" for d in m.decorators):
                    v = self.call_fn(m, V(sh), [], {}, node, fr)
                    self.set_field(sh, name, v, strong=False)
                    out |= v
                elif m is not None and m.is_property:
                    out |= self.call_fn(m, V(sh), [], {}, node, fr)
                elif m is not None:
                    out.add(Fn(m, V(sh)))
                elif c.ci is not None and any(name in k.class_attrs for k in self.repo.mro(c.ci)):
                    out |= self.class_attr(c.ci, name, V(sh))
                elif name.startswith("__") and name.endswith("__"):
                    out.add(Opaque(f".{name}"))
                else:
                    out |= self.top(f"attribute `{name}` of {c.ci.name if c.ci else 'an object'} has no known value at {self.site(fr, node)}")
            elif isinstance(sh, Sc):
                out.add(replace(sh, none=False, agg=False))
            elif isinstance(sh, Opaque):
                out.add(Opaque(f"{sh.tag}.{name}"))
            elif isinstance(sh, Cls):
                ci = self.repo.classes.get(sh.fq)
                m = self.find_method(ci, name) if ci else None
                if m is not None:
                    out.add(Fn(m, V(sh) if m.is_classmethod else None))
                elif ci is not None and self.is_enum(sh.fq) and name in self.enum_members(sh.fq):
                    out |= self.enum_member(sh.fq, name)
                elif ci is not None and any(name in k.class_attrs for k in self.repo.mro(ci)):
                    out |= self.class_attr(ci, name, None)
                else:
                    out.add(Opaque(f"{sh.fq}.{name}"))
            elif isinstance(sh, Lib):
                out.add(Lib(f"{sh.name}.{name}"))
            elif isinstance(sh, Const):
                if sh.value is not None:  # an attribute of None is an error path
                    out.add(Sc())
            elif isinstance(sh, Top):
                out.add(sh)
            elif isinstance(sh, Tup):
                out |= self.top(f"attribute `{name}` of a tuple at {self.site(fr, node)}")
            elif isinstance(sh, Ref):
                out.add(Opaque(f"bound {name}"))
            elif isinstance(sh, Fn):
                out.add(Opaque(f"fn.{name}"))
        return frozenset(out)

    # ------------------------------------------------------------------ calls
    def eval_args(self, call: ast.Call, env: dict, fr: Frame) -> tuple[list[frozenset], dict[str, frozenset]]:
        args: list[frozenset] = []
        for a in call.args:
            if isinstance(a, ast.Starred):
                v = self.ev(a.value, env, fr)
                tups = [sh for sh in v if isinstance(sh, Tup)]
                if len(v) == 1 and tups:
                    args += list(tups[0].items)
                elif isinstance(call.func, ast.Name) and call.func.id == "zip" and len(call.args) == 1:
                    # zip(*pairs): transposition - one collection per tuple position
                    els = [sh for sh in self.elems(v) if isinstance(sh, Tup)]
                    width = {len(t.items) for t in els}
                    if len(width) == 1 and len(els) == len(self.elems(v)):
                        args.append(V(Tup(tuple(V(self.coll((id(call), fr.inv, "unzip", i), self.site(fr, call), frozenset().union(*[t.items[i] for t in els]))) for i in range(width.pop())), "unzip")))
                    else:
                        args.append(self.top(f"`{norm(call, 50)}`: transposition of values of unknown shape"))
                else:
                    self.top(f"`*{norm(a.value, 40)}` in `{norm(call, 50)}`: argument list of unknown length")
                    args.append(self.elems(v))
            else:
                args.append(self.ev(a, env, fr))
        kwargs = {k.arg: self.ev(k.value, env, fr) for k in call.keywords if k.arg is not None}
        for k in call.keywords:
            if k.arg is None:
                v = self.ev(k.value, env, fr)
                for sh in v:
                    if isinstance(sh, Ref) and sh.kind == "dict":
                        for kk, vv in list(self.cell(sh).entries):
                            names = [c.value for c in kk if isinstance(c, Const) and isinstance(c.value, str)]
                            if len(names) != len(kk) or not names:
                                self.top(f"`**{norm(k.value, 40)}` with computed keys")
                            for nm in names:
                                kwargs[nm] = kwargs.get(nm, E) | vv
                    elif not isinstance(sh, Opaque):
                        self.top(f"`**{norm(k.value, 40)}` is not a known dictionary")
        return args, kwargs

    def call(self, call: ast.Call, env: dict, fr: Frame) -> frozenset:
        f = call.func
        # super().method(...)
        if isinstance(f, ast.Attribute) and isinstance(f.value, ast.Call) and isinstance(f.value.func, ast.Name) and f.value.func.id == "super":
            args, kwargs = self.eval_args(call, env, fr)
            return self.super_call(f.attr, args, kwargs, call, env, fr)
        if isinstance(f, ast.Attribute):
            if f.attr in MUTATORS_ADD1 | MUTATORS_ADDN | {"insert", "setdefault"} and isinstance(f.value, (ast.Subscript, ast.Call)):
                base, key = self.recv_for_mutation(f.value, env, fr, "dict" if f.attr == "setdefault" else "coll")
            else:
                base, key = self.ev(f.value, env, fr), None
            args, kwargs = self.eval_args(call, env, fr)
            out: set = set()
            for sh in base:
                out |= self.method(sh, f.attr, args, kwargs, call, env, fr, key)
            return frozenset(out)
        fv = self.ev(f, env, fr)
        args, kwargs = self.eval_args(call, env, fr)
        out = set()
        for sh in fv:
            out |= self.apply(sh, args, kwargs, call, env, fr)
        return frozenset(out)

    def apply(self, sh, args, kwargs, call: ast.AST, env: dict, fr: Frame) -> frozenset:
        if isinstance(sh, Fn):
            return self.call_fn(sh.func, sh.recv, args, kwargs, call, fr, sh.clo, env)
        if isinstance(sh, Cls):
            return self.construct(sh.fq, args, kwargs, call, fr, env)
        if isinstance(sh, Lib):
            return self.lib(sh.name, args, kwargs, call, env, fr)
        if isinstance(sh, Top):
            return V(sh)
        if isinstance(sh, Partial):
            out: set = set()
            for f in sh.fn:
                out |= self.apply(f, [*sh.args, *args], {**dict(sh.kwargs), **kwargs}, call, env, fr)
            return frozenset(out)
        if isinstance(sh, Getter) and sh.kind == "call" and args:
            out = set()
            for x in args[0]:
                out |= self.method(x, sh.args[0], list(sh.args[1]), dict(sh.args[2]), call, env, fr)
            return frozenset(out)
        if isinstance(sh, Getter) and args:
            parts = []
            for a in sh.args:
                if sh.kind == "attr":
                    parts.append(self.attr(args[0], a, call, env, fr))
                else:
                    got: set = set()
                    for x in args[0]:
                        if isinstance(x, Tup) and isinstance(a, int) and -len(x.items) <= a < len(x.items):
                            got |= x.items[a]
                        elif isinstance(x, Ref) and x.kind == "dict":
                            got |= self.dict_lookup(x, V(Const(a)), call, fr)
                        elif isinstance(x, Ref) and x.kind == "coll":
                            got |= self.elems(V(x))
                        elif isinstance(x, Sc):
                            got.add(replace(x, none=False, agg=False))
                        else:
                            got |= self.top(f"itemgetter on {type(x).__name__}")
                    parts.append(frozenset(got))
            return parts[0] if len(parts) == 1 else V(Tup(tuple(parts), self.site(fr, call)))
        if isinstance(sh, Ref) and sh.kind == "obj" and self.cell(sh).ci is not None and self.repo.lookup_method(self.cell(sh).ci, "__call__") is not None:
            return self.call_fn(self.repo.lookup_method(self.cell(sh).ci, "__call__"), V(sh), args, kwargs, call, fr, caller_env=env)
        if isinstance(sh, (Opaque, Sc)):
            if any(isinstance(x, Ref) and x.kind in ("coll", "dict") for a in [*args, *kwargs.values()] for x in a):
                return self.top(f"call of an unknown callable with a collection argument: `{norm(call, 60)}`")
            return self.derive([*args, *kwargs.values()], fr, call, check=False, none=True)
        return self.top(f"call of a non-callable value in `{norm(call, 60)}`")

    def super_call(self, name: str, args, kwargs, call: ast.Call, env: dict, fr: Frame) -> frozenset:
        cur = fr.fi.cls
        params = fr.fi.param_names
        selfv = env.get(params[0], E) if params else E
        out: set = set()
        for sh in selfv:
            if isinstance(sh, Ref) and sh.kind == "obj" and self.cell(sh).ci is not None and cur is not None:
                mro = self.repo.mro(self.cell(sh).ci)
                idx = next((i for i, c in enumerate(mro) if c.fq == cur.fq), None)
                target = None
                if idx is not None:
                    for c in mro[idx + 1:]:
                        if name in c.methods:
                            target = c.methods[name]
                            break
                if target is not None:
                    out |= self.call_fn(target, V(sh), args, kwargs, call, fr)
                elif name == "__init__":
                    out |= NONE_V
                else:
                    out |= self.top(f"super().{name} not found")
        if not out:
            return NONE_V if name == "__init__" else self.top(f"super().{name}: unknown receiver")
        return frozenset(out)

    def call_fn(self, fi: FuncInfo, recv, args: list, kwargs: dict, node: ast.AST, fr: Frame | None, clo: int = -1, caller_env: dict | None = None) -> frozenset:
        intr = self.intrinsics.get(fi.fq) or self.intrinsics.get(f"{fi.module.name}.{fi.qualname}")
        if intr is not None:
            return intr(self, args, kwargs, node, fr)
        self.ncalls += 1
        inv = (fr.inv if fr is not None else ()) + (id(node),)
        if len(inv) > 40 or self.stack.count(fi.fq) >= 2:
            return self.top(f"recursion / call depth at {fi.fq}")
        if fi.is_abstract:
            return self.top(f"abstract method {fi.qualname} reached")
        a = fi.node.args
        env: dict = dict(self.closures[clo]) if clo >= 0 else {}
        pos = [p.arg for p in [*a.posonlyargs, *a.args]]
        allp = [*a.posonlyargs, *a.args, *a.kwonlyargs]
        args = list(args)
        if fi.cls is not None and fi.outer is None and not fi.is_staticmethod and pos and not isinstance(fi.node, ast.Lambda):
            if recv is not None:
                env[pos[0]] = recv
                pos = pos[1:]
        for i, v in enumerate(args):
            if i < len(pos):
                env[pos[i]] = v
            elif a.vararg is not None:
                r = self.coll((id(fi.node), inv, "varargs"), "")
                self.add(r, v)
                env[a.vararg.arg] = V(r)
        for k, v in kwargs.items():
            env[k] = v
        # defaults
        pos_all = [*a.posonlyargs, *a.args]
        defaults = list(zip(pos_all[len(pos_all) - len(a.defaults):], a.defaults)) + [(p, d) for p, d in zip(a.kwonlyargs, a.kw_defaults) if d is not None]
        callee_fr = Frame(fi, inv, env)
        for p, d in defaults:
            if p.arg not in env:
                env[p.arg] = self.ev(d, {}, callee_fr)
        for p in allp:
            if p.arg not in env:
                env[p.arg] = V(Opaque(f"param {p.arg}"))
        if a.vararg is not None and a.vararg.arg not in env:
            env[a.vararg.arg] = V(self.coll((id(fi.node), inv, "varargs"), ""))
        if a.kwarg is not None:
            env[a.kwarg.arg] = V(Opaque("kwargs"))
        guards = [(r[0], r[1], r[3]) for r in self.data_conds(node, caller_env, fr)] if (fr is not None and caller_env is not None) else []
        if not isinstance(fi.node, ast.Lambda) and self.is_generator(fi):
            callee_fr.yields = self.coll((id(fi.node), inv, "gen"), self.site(callee_fr, fi.node))
        self.stack.append(fi.fq)
        self.guards.append(guards)
        try:
            if isinstance(fi.node, ast.Lambda):
                return self.ev(fi.node.body, env, callee_fr)
            end = self.exec_block(fi.node.body, env, callee_fr)
        finally:
            self.stack.pop()
            self.guards.pop()
        if callee_fr.yields is not None:
            return V(callee_fr.yields)
        out = frozenset(callee_fr.ret)
        if end is not None:
            out |= NONE_V
        return out

    def field_default(self, ci: ClassInfo, fname: str, key, fr: Frame | None) -> frozenset | None:
        """Default of a dataclass / NamedTuple field that the constructor call leaves out: `x: T = expr`,
        `field(default=expr)`, `field(default_factory=f)` (a fresh value per constructed object)."""
        owner = next((k for k in self.repo.mro(ci) if fname in k.class_attrs), None)
        if owner is None:
            return None
        ce = owner.class_attrs[fname]
        mfr = self.module_frame(owner.module, key)
        if isinstance(ce, ast.Call) and (norm(ce.func) in ("field", "dataclasses.field")):
            kw = {k.arg: k.value for k in ce.keywords if k.arg}
            if "default_factory" in kw:
                out: set = set()
                for f in self.ev(kw["default_factory"], {}, mfr):
                    out |= self.apply(f, [], {}, ce, {}, mfr)
                return frozenset(out)
            if "default" in kw:
                return self.ev(kw["default"], {}, mfr)
            return None
        if isinstance(ce, ast.Constant) or self.static_expr(owner.module, ce, frozenset({fname}), 0, owner):
            return self.ev(ce, {}, mfr)
        return V(Opaque(f"{ci.name}.{fname}"))

    def is_generator(self, fi: FuncInfo) -> bool:
        if fi.fq not in self._gen_cache:
            self._gen_cache[fi.fq] = any(isinstance(x, (ast.Yield, ast.YieldFrom)) for x in own_nodes(fi.node))
        return self._gen_cache[fi.fq]

    def construct(self, fq: str, args: list, kwargs: dict, node: ast.AST, fr: Frame | None, env: dict | None = None) -> frozenset:
        ci = self.repo.classes.get(fq)
        if ci is None:
            return V(Opaque(fq))
        inv = fr.inv if fr is not None else ()
        ref = self.obj((id(node), inv, "obj", fq), ci, self.site(fr, node))
        init = self.repo.lookup_method(ci, "__init__")
        if init is not None:
            self.call_fn(init, V(ref), args, kwargs, node, fr, caller_env=env)
            return V(ref)
        record = ci.is_dataclass or any(c.is_dataclass for c in self.repo.mro(ci)) or any(b.rsplit(".", 1)[-1] in ("NamedTuple", "TypedDict") for b in self.repo.external_bases(ci))
        if not record and (args or kwargs):
            return self.top(f"constructor of {ci.name} (no __init__, not a dataclass) is not modelled")
        if record:
            fields: list[str] = []
            for c in reversed(self.repo.mro(ci)):
                for n in c.ann_attrs:
                    if n not in fields:
                        fields.append(n)
            vals: dict[str, frozenset] = {}
            for i, v in enumerate(args):
                if i < len(fields):
                    vals[fields[i]] = v
            for k, v in kwargs.items():
                vals[k] = v
            for fname in fields:
                if fname not in vals:
                    dv = self.field_default(ci, fname, (id(node), inv, "default", fname), fr)
                    if dv is not None:
                        vals[fname] = dv
            m = self.link_mark([self.scalars(v, into_colls=False) for v in vals.values()], fr, node)
            for n, v in vals.items():
                if m is not None:
                    v = self.with_marks(v, [m], (id(node), inv, "mix", n))
                self.set_field(ref, n, v, strong=False)
            return V(ref)
        return V(ref)

    # ------------------------------------------------------------------ methods of abstract values
    def method(self, sh, name: str, args: list, kwargs: dict, call: ast.Call, env: dict, fr: Frame, key: frozenset | None = None) -> frozenset:
        if isinstance(sh, Ref) and sh.kind == "obj":
            c = self.cell(sh)
            m = self.find_method(c.ci, name) if c.ci is not None else None
            if m is not None and (m.is_property or any(d.rsplit(".", 1)[-1] == "cached_property" for d in m.decorators)):
                # `obj.prop(args)`: the property's value is what is called
                out = set()
                for f in self.attr(V(sh), name, call, env, fr):
                    out |= self.apply(f, args, kwargs, call, env, fr)
                return frozenset(out)
            if m is not None:
                if m.is_staticmethod:
                    return self.call_fn(m, None, args, kwargs, call, fr, caller_env=env)
                return self.call_fn(m, V(Cls(c.ci.fq)) if m.is_classmethod else V(sh), args, kwargs, call, fr, caller_env=env)
            if name in c.fields or (c.ci is not None and any(name in k.class_attrs for k in self.repo.mro(c.ci))):
                out: set = set()
                for f in (c.fields[name] if name in c.fields else self.class_attr(c.ci, name, V(sh))):
                    out |= self.apply(f, args, kwargs, call, env, fr)
                return frozenset(out)
            return self.top(f"method {name} not found on {c.ci.fq if c.ci else '?'}")
        if isinstance(sh, Ref) and sh.kind == "coll":
            return self.coll_method(sh, name, args, kwargs, call, env, fr, key)
        if isinstance(sh, Ref) and sh.kind == "dict":
            return self.dict_method(sh, name, args, kwargs, call, env, fr)
        if isinstance(sh, Cls):
            ci = self.repo.classes.get(sh.fq)
            m = self.find_method(ci, name) if ci else None
            if m is None and ci is not None and any(name in k.class_attrs for k in self.repo.mro(ci)):
                out = set()
                for f in self.class_attr(ci, name, None):
                    out |= self.apply(f, args, kwargs, call, env, fr)
                return frozenset(out)
            if m is None:
                return self.top(f"{sh.fq}.{name} not found")
            if m.is_classmethod:
                return self.call_fn(m, V(sh), args, kwargs, call, fr, caller_env=env)
            if m.is_staticmethod:
                return self.call_fn(m, None, args, kwargs, call, fr, caller_env=env)
            return self.call_fn(m, args[0] if args else None, args[1:], kwargs, call, fr, caller_env=env)
        if isinstance(sh, Lib):
            return self.lib(f"{sh.name}.{name}", args, kwargs, call, env, fr)
        if isinstance(sh, (Sc, Const)):
            if isinstance(sh, Const) and sh.value is None:
                return E
            if isinstance(sh, Sc) and sh.srcs:
                asrcs = frozenset(x for a in [*args, *kwargs.values()] for sc in self.scalars(a) for x in sc.srcs)
                self.scalar_calls.append((name, sh.srcs, asrcs, self.where(fr, call)))
            if name == "join" and args:
                el = self.text_of(self.elems(args[0]), call, fr)
                return self.derive([V(sh) if isinstance(sh, Sc) else E, el], fr, call, check=False, agg=True)
            if name in ("format", "format_map"):
                return self.derive([V(sh) if isinstance(sh, Sc) else E, *[self.text_of(a, call, fr) for a in [*args, *kwargs.values()]]], fr, call)
            if name in ("split", "rsplit", "splitlines", "partition", "rpartition"):
                return V(self.coll((id(call), fr.inv, "split"), self.site(fr, call), self.derive([V(sh) if isinstance(sh, Sc) else E], fr, call, check=False)))
            if name in ("substitute", "safe_substitute"):
                return self.derive([V(sh) if isinstance(sh, Sc) else E, *[self.text_of(a, call, fr) for a in [*args, *kwargs.values()]]], fr, call)
            return self.derive([V(sh) if isinstance(sh, Sc) else E, *[a for a in [*args, *kwargs.values()] if not any(isinstance(x, Ref) for x in a)]], fr, call, check=False)
        if isinstance(sh, Opaque):
            if any(isinstance(x, Ref) and x.kind in ("coll", "dict") for a in [*args, *kwargs.values()] for x in a):
                return self.top(f"`{norm(call, 70)}`: method of an unmodelled object receives a collection")
            if call is self.stmt_call and any(sc.srcs - {x for x in sc.srcs if str(x).startswith("fld:")} for a in [*args, *kwargs.values()] for sc in self.scalars(a)):
                # reported data is handed, for the effect of the call, to an object the interpreter knows nothing about (a writer, a sink ...)
                self.note_lost(f"`{norm(call, 70)}`: data is handed to an unmodelled object")
            return self.derive([*args, *kwargs.values()], fr, call, check=False, none=True)
        if isinstance(sh, Tup):
            return V(Sc())
        if isinstance(sh, Top):
            return V(sh)
        if isinstance(sh, Fn):
            return self.top(f"attribute call on function object: {name}")
        return self.top(f"method {name} on {type(sh).__name__}")

    def coll_method(self, sh: Ref, name: str, args, kwargs, call: ast.Call, env: dict, fr: Frame, key) -> frozenset:
        if name in MUTATORS_ADD1 or name == "insert":
            v = self.unvet(self.select(args[-1] if args else E, call, env, fr))
            if self.cell(sh).order and self.cell(sh).order[0] == "sorted":
                self.cell(sh).order = None
            if key is not None:
                v = self.bake(key, v, fr, call, self.cell(sh).shared, keyed_add=True)
            self.add(sh, v)
            self.note_mutation([sh], v, call, env, fr)
            return NONE_V
        if name in MUTATORS_ADDN:
            for a in args:
                v = self.unvet(self.elems(a))
                if key is not None:
                    v = self.bake(key, v, fr, call, self.cell(sh).shared, keyed_add=True)
                self.add(sh, v)
                self.note_mutation([sh], v, call, env, fr)
            return NONE_V
        if name == "sort":
            els = self.elems(V(sh))
            sig = self.key_sig(kwargs.get("key"), els, call, env, fr) if els else None
            self.cell(sh).order = ("sorted", sig) if sig else None
            return NONE_V
        if name in ("remove", "discard") and args:
            # taking the current element of a running iteration out of a collection made for that very iteration (`others = set(all);
            # others.discard(own)`) is how 'all the others' is spelled; out of a longer-lived collection it is a loss that stays
            cell = self.cell(sh)
            own = frozenset(x for sc in self.scalars(args[0]) for x in self.live(sc.eids - sc.gone) if x in self.loop_eids)
            if not (own and cell.born & own):
                grouped = any(self.live(sc.assoc - sc.gone) for sc in self.scalars(self.elems(V(sh))))
                self.add_part(sh, [("part", self.site(fr, call), f"elements are removed by `{norm(call, 60)}`", grouped)])
            return NONE_V
        if name in ("reverse", "remove", "discard", "clear"):
            return NONE_V
        if name in ("pop", "popleft", "__next__"):
            return self.pick(self.elems(V(sh)), (id(call), fr.inv), self.site(fr, call))
        if name in ("copy", "union", "__or__", "__add__"):
            r = self.coll((id(call), fr.inv, "copy"), self.site(fr, call), self.elems(V(sh)))
            for a in args:
                self.add(r, self.elems(a))
            return V(r)
        if name in ("difference", "intersection", "symmetric_difference"):
            r = self.coll((id(call), fr.inv, "copy"), self.site(fr, call), self.elems(V(sh)))
            if name != "symmetric_difference":
                grouped = any(self.live(sc.assoc - sc.gone) for sc in self.scalars(self.elems(V(sh))))
                self.add_part(r, [("part", self.site(fr, call), f"elements are removed by `{norm(call, 60)}`", grouped)])
            return V(r)
        if name in ("index", "count", "issubset", "issuperset", "isdisjoint", "__len__", "__contains__"):
            return self.derive([self.elems(V(sh))], fr, call, check=False, agg=True)
        if name in ("write", "writelines") and isinstance(sh.key, tuple) and sh.key[-1] == "lib":
            # text buffer (io.StringIO)
            v = args[0] if name == "write" else self.elems(args[0]) if args else E
            self.add(sh, v)
            self.note_mutation([sh], v, call, env, fr)
            return V(Sc())
        if name == "getvalue":
            return self.derive([self.text_of(self.elems(V(sh)), call, fr)], fr, call, check=False, agg=True)
        if name in ("close", "flush", "seek", "truncate"):
            return NONE_V
        return self.top(f"collection method {name}")

    def dict_method(self, sh: Ref, name: str, args, kwargs, call: ast.Call, env: dict, fr: Frame) -> frozenset:
        c = self.cell(sh)
        if name == "keys":
            return V(self.coll((id(call), fr.inv, "keys", sh.key), self.site(fr, call), frozenset().union(*[k for k, _ in c.entries]) if c.entries else E))
        if name == "values":
            return V(self.coll((id(call), fr.inv, "values", sh.key), self.site(fr, call), frozenset().union(*[v for _, v in c.entries]) if c.entries else E))
        if name == "items":
            return V(self.coll((id(call), fr.inv, "items", sh.key), self.site(fr, call), frozenset(Tup((k, v), "") for k, v in c.entries)))
        if name in ("get", "pop"):
            out = self.dict_lookup(sh, args[0] if args else E, call, fr)
            if len(args) > 1:
                out |= args[1]
            elif name == "get":
                out |= NONE_V
            return out
        if name == "setdefault":
            k = args[0] if args else E
            if len(args) > 1:
                existing = self.dict_lookup(sh, k, call, fr)
                if not existing:
                    self.store_entry(sh, k, args[1])
                return self.dict_lookup(sh, k, call, fr)
            return self.dict_lookup(sh, k, call, fr) | NONE_V
        if name == "update":
            for a in args:
                for o in a:
                    if isinstance(o, Ref) and o.kind == "dict":
                        for k, v in list(self.cell(o).entries):
                            self.store_entry(sh, k, v)
                    elif isinstance(o, Ref) and o.kind == "coll":
                        for t in self.elems(V(o)):
                            if isinstance(t, Tup) and len(t.items) == 2:
                                self.store_entry(sh, t.items[0], t.items[1])
            for k, v in kwargs.items():
                self.store_entry(sh, V(Const(k)), v)
            return NONE_V
        if name == "copy":
            r = self.dict_((id(call), fr.inv, "copy"), self.site(fr, call))
            for k, v in list(c.entries):
                self.store_entry(r, k, v)
            return V(r)
        if name in ("clear", "popitem"):
            return NONE_V
        if name == "most_common":
            return V(self.coll((id(call), fr.inv, "items", sh.key), self.site(fr, call), frozenset(Tup((k, v), "") for k, v in c.entries)))
        if name == "elements":
            return V(self.coll((id(call), fr.inv, "keys", sh.key), self.site(fr, call), frozenset().union(*[k for k, _ in c.entries]) if c.entries else E))
        if name in ("fromkeys",) and args:
            return self.lib("dict.fromkeys", args, kwargs, call, env, fr)
        return self.top(f"dict method {name}")

    # ------------------------------------------------------------------ library functions
    def lib(self, name: str, args: list, kwargs: dict, call: ast.AST, env: dict, fr: Frame) -> frozenset:
        short = name.rsplit(".", 1)[-1]
        key = (id(call), fr.inv, "lib")
        site = self.site(fr, call)
        if name in COPYING or (short in COPYING and name.startswith(("builtins", "collections"))):
            out: set = set()
            rest: set = set()
            for sh in (args[0] if args else E):
                if isinstance(sh, Tup) and name in ("tuple", "reversed", "list", "iter"):
                    out.add(Tup(tuple(reversed(sh.items)), sh.site) if name == "reversed" else sh)
                else:
                    rest.add(sh)
            if rest or not out:
                r = self.coll(key, site)
                els = self.unvet(self.elems(frozenset(rest)))
                self.add(r, els)
                if short == "sorted":
                    keyfn = kwargs.get("key")
                    sig = self.key_sig(keyfn, els, call, env, fr) if els else None
                    self.cell(r).order = ("sorted", sig) if sig else None
                elif short in ("set", "frozenset"):
                    self.cell(r).order = ("unsorted",)
                else:
                    self.cell(r).order = self.order_of(frozenset(rest))
                out.add(r)
            return frozenset(out)
        if name in ("operator.itemgetter", "itemgetter", "operator.attrgetter", "attrgetter"):
            consts = [next(iter(a)).value for a in args if len(a) == 1 and isinstance(next(iter(a)), Const)]
            if len(consts) != len(args) or not consts:
                return self.top(f"`{norm(call, 60)}` with computed arguments")
            return V(Getter("item" if "itemgetter" in name else "attr", tuple(consts)))
        if name in ("functools.partial", "partial") and args:
            return V(Partial(args[0], tuple(args[1:]), tuple(sorted(kwargs.items()))))
        if name in ("staticmethod", "types.MappingProxyType", "MappingProxyType") and len(args) == 1:
            return args[0]
        if name in ("functools.partialmethod", "partialmethod") and args:
            return V(PartialMethod(args[0], tuple(args[1:]), tuple(sorted(kwargs.items()))))
        if name in ("operator.not_", "operator.truth", "not_", "truth") and len(args) == 1:
            # truthiness: of a collection / an aggregate it is an emptiness test
            b = self.as_bool(args[0])
            if b is not None:
                return V(Const(b if short == "truth" else not b))
            benign = bool(args[0]) and all((isinstance(sh, Ref) and sh.kind in ("coll", "dict")) or isinstance(sh, (Tup, Const)) or (isinstance(sh, Sc) and sh.agg) for sh in args[0])
            return self.derive([self.elems(args[0]) if any(isinstance(sh, Ref) for sh in args[0]) else args[0]], fr, call, check=False, agg=benign)
        if name in ("operator.methodcaller", "methodcaller") and args:
            names = [c.value for c in args[0] if isinstance(c, Const) and isinstance(c.value, str)]
            if len(names) != 1 or len(args[0]) != 1:
                return self.top(f"`{norm(call, 60)}` with a computed method name")
            return V(Getter("call", (names[0], tuple(args[1:]), tuple(sorted(kwargs.items())))))
        if name in ("itertools.starmap", "starmap") and len(args) == 2:
            # starmap(f, tuples): f(*t) per element
            r = self.coll(key, site)
            e = self.eid((id(call), "starmap", fr.inv), site)
            self.loop_eids.add(e)
            first = self.elems(args[1])
            self.active.append(e)
            try:
                for alt in [V(sh) for sh in first]:
                    cur = self.retag(alt, e, (id(call), fr.inv, "starmap"))
                    for t in cur:
                        if isinstance(t, Tup):
                            for f in args[0]:
                                self.add(r, self.apply(f, list(t.items), {}, call, env, fr))
                        else:
                            self.add(r, V(t) if isinstance(t, Top) else self.top(f"`{norm(call, 60)}`: elements of unknown shape are spread into arguments"))
            finally:
                self.active.pop()
            return V(r)
        if name in ("itertools.repeat", "repeat") and args:
            return V(self.coll(key, site, args[0]))
        if name in ("itertools.filterfalse", "filterfalse") and len(args) == 2:
            return self.selection(key, site, args[1], args[0], None, call, env, fr)
        if name in ("itertools.compress", "compress") and len(args) == 2:
            return self.selection(key, site, args[0], None, args[1], call, env, fr)
        if name in ("itertools.islice", "islice", "itertools.takewhile", "takewhile", "itertools.dropwhile", "dropwhile") and args:
            src = args[0] if short in ("islice", "compress") else args[-1]
            r = self.coll(key, site, self.elems(src))
            self.cell(r).order = self.order_of(src)
            grouped = any(self.live(sc.assoc - sc.gone) for sc in self.scalars(self.elems(src)))
            self.add_part(r, [("part", site, f"`{norm(call, 60)}` keeps only some elements", grouped)])
            return V(r)
        if name in ("itertools.zip_longest", "zip_longest"):
            r = self.coll(key, site)
            self.add(r, V(Tup(tuple(self.elems(a) for a in args), site)))
            return V(r)
        if name in ("functools.reduce", "reduce") and len(args) >= 2:
            # fold: the accumulator is whatever the function returns for (accumulator, element), to a fixpoint
            first = self.elems(args[1])
            acc = args[2] if len(args) > 2 else first
            for _round in range(4):
                nxt: set = set(acc)
                for f in args[0]:
                    nxt |= self.apply(f, [frozenset(acc), first], {}, call, env, fr)
                if frozenset(nxt) == acc:
                    break
                acc = frozenset(nxt)
            return frozenset(acc)
        if name.startswith("operator.") and short.strip("_") in ("or", "ior", "add", "iadd", "concat", "iconcat", "and", "iand", "sub", "isub", "xor", "ixor") and len(args) == 2:
            op = {"or": ast.BitOr, "ior": ast.BitOr, "add": ast.Add, "iadd": ast.Add, "concat": ast.Add, "iconcat": ast.Add, "and": ast.BitAnd, "iand": ast.BitAnd, "sub": ast.Sub, "isub": ast.Sub, "xor": ast.BitXor, "ixor": ast.BitXor}[short.strip("_")]()
            return self.binop(args[0], args[1], op, call, fr)
        if name in ("itertools.groupby", "groupby") and args:
            r = self.coll(key, site)
            keyfn = args[1] if len(args) > 1 else kwargs.get("key")
            e = self.eid((id(call), "groupby", fr.inv), site)
            first = self.elems(args[0])
            # groupby only groups consecutive runs: the groups are complete only if the sequence is sorted by (a key that starts
            # with) the grouping key
            order = self.order_of(args[0])
            gsig = self.key_sig(keyfn, first, call, env, fr) if first else None
            why = ""
            if order == ("unsorted",) and gsig:
                why = f"`{norm(call, 70)}` groups a sequence that is not sorted at all: a group holds only one consecutive run of its key"
            elif order and order[0] == "sorted" and gsig and order[1] and order[1][: len(gsig)] != gsig:
                names = {frozenset({"S"}): "rule subject", frozenset({"O"}): "rule object", frozenset({"S", "O"}): "subject and object"}
                show = lambda sig: "(" + ", ".join(names.get(c, "?") for c in sig) + ")"  # noqa: E731
                why = f"`{norm(call, 70)}` groups by {show(gsig)} a sequence that is sorted by {show(order[1])}: a group holds only one consecutive run of its key"
            run_mark = [("run", site, why)] if why else []
            self.active.append(e)
            try:
                for alt in [V(sh) for sh in first]:
                    cur = self.retag(alt, e, (id(call), fr.inv, "gb"), run_mark)
                    kv: set = set()
                    if keyfn:
                        for f in keyfn:
                            kv |= self.apply(f, [cur], {}, call, env, fr)
                    else:
                        kv |= cur
                    grp = self.coll((id(call), fr.inv, "gbg", repr(alt)), site, cur)
                    self.add(r, V(Tup((frozenset(kv), V(grp)), site)))
            finally:
                self.active.pop()
            return V(r)
        if name in ("dict.fromkeys", "collections.OrderedDict.fromkeys", "OrderedDict.fromkeys", "collections.defaultdict.fromkeys", "defaultdict.fromkeys") and args:
            # every key maps to the very same value object
            r = self.dict_(key, site)
            val = args[1] if len(args) > 1 else kwargs.get("value", NONE_V)
            keys = self.elems(args[0])
            self.note_shared(keys, val, f"{norm(call, 60)} [{site}]", implicit_keys=True)
            for kk in keys:
                self.store_entry(r, V(kk), val)
            return V(r)
        if name in ("dict", "collections.defaultdict", "collections.OrderedDict", "defaultdict", "OrderedDict"):
            r = self.dict_(key, site)
            if short == "defaultdict" and args:
                fac = frozenset(sh for sh in args[0] if isinstance(sh, (Fn, Cls, Partial)) or (isinstance(sh, Lib) and sh.name not in ("list", "set", "dict", "int", "str", "float", "bool", "tuple", "frozenset")))
                if fac and not self.cell(r).factory:
                    self.cell(r).factory = fac
                args = args[1:]
            for a in args:
                for o in a:
                    if isinstance(o, Ref) and o.kind == "dict":
                        for k, v in list(self.cell(o).entries):
                            self.store_entry(r, k, v)
                    elif isinstance(o, Ref) and o.kind == "coll":
                        for t in self.elems(V(o)):
                            if isinstance(t, Tup) and len(t.items) == 2:
                                # key and value were combined when the pair was built (and checked there)
                                self.store_entry(r, t.items[0], self.overwritten(t.items[0], t.items[1], site, (key, "pairs"), same_element=True), explicit=site)
                            elif isinstance(t, Top):
                                return V(t)
            for k, v in kwargs.items():
                self.store_entry(r, V(Const(k)), v)
            return V(r)
        if name in ("len", "sum", "any", "all", "min", "max", "next") or name in SCALAR_FUNCS:
            if name in ("min", "max", "next"):
                return self.pick(self.elems(args[0]), (id(call), fr.inv), site, f"only the first element is used: `{norm(call, 60)}`" if name == "next" else "") if args else E
            if name in ("len", "sum", "any", "all"):
                return self.derive([self.elems(a) for a in args], fr, call, check=False, agg=name == "len")
            if name in ("str", "repr", "format"):
                args = [self.text_of(a, call, fr) for a in args]
            return self.derive([a for a in args if not any(isinstance(x, Ref) and x.kind != "obj" for x in a)], fr, call, check=False)
        if name == "map" and len(args) >= 2:
            r = self.coll(key, site)
            e = self.eid((id(call), "map", fr.inv), site)
            self.loop_eids.add(e)
            first = self.elems(args[1])
            self.loop_srcs.setdefault(e, set()).update(x for sc in self.scalars(first) for x in sc.srcs)
            self.loop_parents.setdefault(e, set()).update(x for sc in self.scalars(first) for x in sc.eids if x != e)
            alts = [V(sh) for sh in first] if 0 < len(first) <= 64 else [first]
            self.active.append(e)
            try:
                for alt in alts:
                    cur = [self.retag(alt, e, (id(call), fr.inv, "map", 0))] + [self.retag(self.elems(a), e, (id(call), fr.inv, "map", i + 1)) for i, a in enumerate(args[2:])]
                    for f in args[0]:
                        self.add(r, self.apply(f, cur, {}, call, env, fr))
            finally:
                self.active.pop()
            return V(r)
        if name == "filter" and len(args) >= 2:
            return self.selection(key, site, args[1], args[0], None, call, env, fr)
        if name == "zip" and len(args) == 1 and len(args[0]) == 1 and isinstance(next(iter(args[0])), Tup) and next(iter(args[0])).site == "unzip":
            return args[0]
        if name == "zip":
            r = self.coll(key, site)
            self.add(r, V(Tup(tuple(self.elems(a) for a in args), site)))
            return V(r)
        if name == "enumerate":
            r = self.coll(key, site)
            self.add(r, V(Tup((V(Sc()), self.elems(args[0]) if args else E), site)))
            return V(r)
        if name in ("itertools.chain", "chain"):
            r = self.coll(key, site)
            for a in args:
                self.add(r, self.unvet(self.elems(a)))
            return V(r)
        if name in ("itertools.chain.from_iterable", "chain.from_iterable"):
            r = self.coll(key, site)
            for a in args:
                self.add(r, self.unvet(self.elems(self.elems(a))))
            return V(r)
        if name in ("itertools.product", "product"):
            # every element of one argument is paired with every element of the others: subject content and object content
            # that are combined here stem from different pairs (unless they never were parts of pairs)
            r = self.coll(key, site)
            items = [self.elems(a) for a in args]
            el = V(Tup(tuple(items), site))
            m = self.link_mark([self.scalars(it) for it in items], fr, call)
            if m is not None:
                el = self.with_marks(el, [m], (key, "mix"))
            self.add(r, el)
            return V(r)
        if name in ("typing.cast", "cast") and len(args) == 2:
            return args[1]
        if name in ("dataclasses.fields", "fields") and args:
            r = self.coll(key, site)
            for sh in args[0]:
                ci = self.cell(sh).ci if isinstance(sh, Ref) and sh.kind == "obj" else self.repo.classes.get(sh.fq) if isinstance(sh, Cls) else None
                if ci is None:
                    return self.top("dataclasses.fields of an unknown object")
                for c in reversed(self.repo.mro(ci)):
                    for n in c.ann_attrs:
                        fo = self.obj((key, "field", n), None, site)
                        self.set_field(fo, "name", V(Const(n)), strong=False)
                        self.add(r, V(fo))
            return V(r)
        if name in ("dataclasses.asdict", "asdict", "vars", "dataclasses.astuple", "astuple") and args:
            objs = [sh for sh in args[0] if isinstance(sh, Ref) and sh.kind == "obj"]
            if len(objs) != len(args[0]) or not objs:
                return self.top(f"{name} of an unknown object")
            if short == "astuple":
                r = self.coll(key, site)
                for o in objs:
                    for n, fv in list(self.cell(o).fields.items()):
                        self.add(r, self.attr(V(o), n, call, env, fr))
                return V(r)
            d = self.dict_(key, site)
            for o in objs:
                for n in list(self.cell(o).fields):
                    self.store_entry(d, V(Const(n)), self.attr(V(o), n, call, env, fr))
            return V(d)
        if name in ("collections.Counter", "Counter"):
            # multiset: keys are the distinct elements, values are counts
            r = self.dict_(key, site)
            for a in args:
                for el in self.elems(a):
                    self.store_entry(r, V(el), V(Sc()))
            return V(r)
        if name in ("itertools.tee", "tee") and args:
            a = self.coll((key, "a"), site, self.elems(args[0]))
            b = self.coll((key, "b"), site, self.elems(args[0]))
            self.cell(a).order = self.cell(b).order = self.order_of(args[0])
            return V(Tup((V(a), V(b)), site))
        if name in ("io.StringIO", "StringIO"):
            r = self.coll(key, site)
            for a in args:
                self.add(r, a)
            return V(r)
        if name == "print" and "file" in kwargs:
            for sh in kwargs["file"]:
                if isinstance(sh, Ref) and sh.kind == "coll":
                    v = self.derive([self.text_of(a, call, fr) for a in args], fr, call) if args else E
                    self.add(sh, v)
                    self.note_mutation([sh], v, call, env, fr)
                elif not (isinstance(sh, Const) and sh.value is None):
                    self.note_lost(f"`{norm(call, 60)}`: printed to an unmodelled stream")
            return NONE_V
        if name in ("bisect.insort", "bisect.insort_left", "bisect.insort_right", "insort", "insort_left", "insort_right", "heapq.heappush", "heappush") and len(args) >= 2:
            for sh in args[0]:
                if isinstance(sh, Ref) and sh.kind == "coll":
                    v = self.unvet(self.select(args[1], call, env, fr))
                    self.add(sh, v)
                    self.note_mutation([sh], v, call, env, fr)
            return NONE_V
        if name in ("heapq.merge", "merge"):
            r = self.coll(key, site)
            for a in args:
                self.add(r, self.unvet(self.elems(a)))
            return V(r)
        if name in ("heapq.nsmallest", "heapq.nlargest", "nsmallest", "nlargest") and len(args) >= 2:
            r = self.coll(key, site, self.elems(args[1]))
            grouped = any(self.live(sc.assoc - sc.gone) for sc in self.scalars(self.elems(args[1])))
            self.add_part(r, [("part", site, f"`{norm(call, 60)}` keeps only some elements", grouped)])
            return V(r)
        if name in ("print", "warnings.warn"):
            return NONE_V
        if name in ("dataclasses.replace", "replace", "copy.copy", "copy.deepcopy", "copy", "deepcopy") and args and all(isinstance(sh, Ref) for sh in args[0]) and args[0]:
            out = set()
            for sh in args[0]:
                if sh.kind == "obj":
                    src = self.cell(sh)
                    r = self.obj((key, "copy", sh.key), src.ci, site)
                    for n, fv in list(src.fields.items()):
                        self.set_field(r, n, self.attr(V(sh), n, call, env, fr) if self.is_record(src.ci) else fv, strong=False)
                    for n, fv in kwargs.items():
                        self.cell(r).fields[n] = fv if len(args[0]) == 1 else self.cell(r).fields.get(n, E) | fv
                        self.version += 1
                    out.add(r)
                elif sh.kind == "coll":
                    r = self.coll((key, "copy", sh.key), site, self.elems(V(sh)))
                    self.cell(r).order = self.cell(sh).order
                    out.add(r)
                else:
                    r = self.dict_((key, "copy", sh.key), site)
                    for k, v in list(self.cell(sh).entries):
                        self.store_entry(r, k, v)
                    out.add(r)
            return frozenset(out)
        if name == "setattr" and len(args) == 3:
            names = [c.value for c in args[1] if isinstance(c, Const) and isinstance(c.value, str)]
            if not names or len(names) != len(args[1]):
                return self.top("setattr with a computed name")
            for sh in args[0]:
                if isinstance(sh, Ref) and sh.kind == "obj":
                    for n in names:
                        self.set_field(sh, n, args[2], strong=len(args[0]) == 1 and len(names) == 1)
            return NONE_V
        if name == "getattr" and len(args) >= 2:
            names = [c.value for c in args[1] if isinstance(c, Const) and isinstance(c.value, str)]
            if names and len(names) == len(args[1]):
                out: set = set()
                for n in names:
                    out |= self.attr(args[0], n, call, env, fr)
                return frozenset(out)
            return self.top("getattr with a computed name")
        if name in ("range",):
            return V(self.coll(key, site, V(Sc())))
        if name in ("super", "object"):
            return V(Opaque(name))
        if short and short[0].isupper() and short.endswith(("Error", "Exception", "Warning", "Mismatch", "Configured")):
            return V(Opaque("exception"))
        if args and len(name.split(".")) == 2 and name.split(".")[0] in ("set", "frozenset", "list", "dict", "str", "tuple"):
            # unbound method of a builtin type: set.union(a, b), str.join(sep, xs), list.append(xs, x)
            out = set()
            for sh in args[0]:
                out |= self.method(sh, short, args[1:], kwargs, call, env, fr)
            return frozenset(out)
        if any(isinstance(x, Ref) and x.kind in ("coll", "dict") for a in [*args, *kwargs.values()] for x in a):
            return self.top(f"library function `{name}` applied to a collection is not modelled")
        return self.derive([*args, *kwargs.values()], fr, call, check=False, none=False)

    def selection(self, key, site: str, src: frozenset, pred, selectors, call: ast.AST, env: dict, fr: Frame) -> frozenset:
        """filter(pred, xs) / filterfalse(pred, xs) / compress(xs, selectors): a sub-sequence of xs.  Like a comprehension `if`, the
        selection only counts as dropping reported data when its condition depends on that data (not on constants, not on the
        emptiness of a collection / an aggregate such as len())."""
        r = self.coll(key, site)
        self.cell(r).order = self.order_of(src)
        first = self.elems(src)
        e = self.eid((key, "sel"), site)
        self.loop_eids.add(e)
        self.loop_parents.setdefault(e, set()).update(x for sc in self.scalars(first) for x in sc.eids if x != e)
        conds: list[frozenset] = []
        if selectors is not None:
            conds.append(self.elems(selectors))
            self.add(r, first)
        else:
            self.active.append(e)
            try:
                for alt in [V(sh) for sh in first]:
                    cur = self.retag(alt, e, (key, "sel"))
                    cv: set = set()
                    for f in (pred or ()):
                        if isinstance(f, Const) and f.value is None:
                            cv |= cur  # filter(None, xs): truthiness of the element itself
                        else:
                            cv |= self.apply(f, [cur], {}, call, env, fr)
                    b = self.as_bool(frozenset(cv))
                    keep = not b if call is not None and isinstance(call, ast.Call) and norm(call.func).endswith("filterfalse") else b
                    if keep is False:
                        continue
                    conds.append(frozenset(cv))
                    self.add(r, alt)
            finally:
                self.active.pop()
        data = False
        for cv in conds:
            if self.as_bool(cv) is not None:
                continue
            if cv and all((isinstance(sh, Ref) and sh.kind in ("coll", "dict")) or isinstance(sh, (Tup, Const)) or (isinstance(sh, Sc) and sh.agg) for sh in cv):
                continue  # emptiness
            if self.has_top(cv) or any(sc.srcs - {x for x in sc.srcs if str(x).startswith("fld:")} for sc in self.scalars(cv)):
                data = True
        if data:
            grouped = any(self.live(sc.assoc - sc.gone) for sc in self.scalars(first))
            self.add_part(r, [("part", site, f"`{norm(call, 60)}` keeps only some elements", grouped)])
        return V(r)

    # ------------------------------------------------------------------ entry points for the rules
    def root_frame(self, fi: FuncInfo | None = None) -> Frame:
        if fi is None:
            fi = next(iter(self.repo.funcs.values()))
        return Frame(fi, (), {})

    def instantiate(self, ci: ClassInfo, by_annotation, label: str) -> frozenset:
        """Instance of a repo class whose constructor arguments are chosen by `by_annotation(param, resolved annotation)`."""
        init = self.repo.lookup_method(ci, "__init__")
        node = ci.node
        fr = Frame(init if init is not None else next(iter(ci.methods.values())), (label,), {})
        args: dict[str, frozenset] = {}
        if init is not None:
            for p in init.params[1:]:
                v = by_annotation(p, init)
                if v is not None:  # None: leave the parameter to its default
                    args[p.arg] = v
        return self.construct(ci.fq, [], args, node, fr)

    def call_method(self, obj: frozenset, name: str, args: list, label: str) -> frozenset:
        out: set = set()
        for sh in obj:
            if isinstance(sh, Ref) and sh.kind == "obj":
                ci = self.cell(sh).ci
                m = self.repo.lookup_method(ci, name)
                if m is None:
                    return self.top(f"{ci.fq}.{name} not found")
                fr = Frame(m, (label,), {})
                out |= self.call_fn(m, V(sh), args, {}, m.node, fr)
        return frozenset(out)


def describe(interp: Interp, v: frozenset, depth: int = 0) -> str:
    """Debug rendering of a value."""
    parts = []
    for sh in sorted(v, key=repr):
        if isinstance(sh, Ref) and sh.kind == "coll" and depth < 3:
            c = interp.cell(sh)
            parts.append(f"coll[{describe(interp, frozenset(c.elem), depth + 1)}]" + (f" part={sorted(c.part)}" if c.part else ""))
        elif isinstance(sh, Ref) and sh.kind == "dict" and depth < 3:
            c = interp.cell(sh)
            parts.append("dict{" + "; ".join(f"{describe(interp, k, depth + 1)} -> {describe(interp, vv, depth + 1)}" for k, vv in c.entries) + "}")
        elif isinstance(sh, Ref) and sh.kind == "obj" and depth < 3:
            c = interp.cell(sh)
            parts.append(f"{c.ci.name if c.ci else 'obj'}(" + ", ".join(f"{n}={describe(interp, fv, depth + 1)}" for n, fv in c.fields.items()) + ")")
        elif isinstance(sh, Tup):
            parts.append("(" + ", ".join(describe(interp, it, depth + 1) for it in sh.items) + ")")
        elif isinstance(sh, Sc):
            bits = ["".join(sorted(sh.roles)) or "-"]
            if sh.srcs:
                bits.append("src=" + ",".join(sorted(map(str, sh.srcs))))
            if sh.eids:
                bits.append("e=" + ",".join(map(str, sorted(sh.eids))))
            if sh.assoc:
                bits.append("a=" + ",".join(map(str, sorted(sh.assoc))))
            if sh.marks:
                bits.append("marks=" + repr(sorted(sh.marks)))
            parts.append("<" + " ".join(bits) + ">")
        else:
            parts.append(repr(sh))
    return " | ".join(parts) if parts else "{}"
