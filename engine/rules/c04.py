"""C04 - modules and hierarchy mirror the scanned directory tree, named from root_path.

  C04.R1  entry points forward each parameter to the same-role parameter (module-object entry = pure delegation via dirname(__file__))
  C04.R2  one registration per non-excluded directory / .py file, under the dotted name of its path
  C04.R3  naming: root directory name + '.' + path relative to the root, suffix removed, separators -> '.'
  C04.R4  hierarchy: every module gets its ancestor nodes and hierarchy edges; nodes are created from scanned modules and importers only
  C04.R5  prefixes: absolute-import prefix from module_path.parent relative to root_path.parent; every absolute importee passes the
          root-prefix adjustment, relative ones never; no character-set strip used as prefix/suffix removal
"""

from __future__ import annotations

import ast

from core.flow import Flow, Spec
from core.guards import atom, f_not, implies
from core.loader import AnalysisError, FuncInfo, Repo, ancestors, calls_in, header, norm, own_nodes, parent
from core.report import Result

from . import scan
from .common import cfg_of, conds, dotted, guard_formula, is_attr_call, loops_around, reachable_funcs, stmt_of, truth, types_of, where

ENTRY = "pytestarch.pytestarch"
GG = "pytestarch.eval_structure_generation.graph_generation.graph_generator"
PARSER = "pytestarch.eval_structure_generation.file_import.parser"
NXGRAPH = "pytestarch.eval_structure.networkxgraph"
CONVERTER = "pytestarch.eval_structure_generation.file_import.converter"

# role map get_evaluable_architecture -> generate_graph (argument source -> callee parameter), one reason per renamed role
GEN_ROLES = [
    ("root_as_path", "root_path"),
    ("module_as_path", "module_path"),
    ("path_diff_between_root_and_module", "path_diff_between_root_and_module"),
    ("regex_exclusions", "exclusions"),  # generate_graph receives regex patterns only: globs are converted before
    ("exclude_external_libraries", "exclude_external_libraries"),
    ("level_limit", "level_limit"),
    ("regex_external_exclusions", "external_exclusions"),  # same: already converted
]


def run(repo: Repo) -> Result:
    res = Result("C04")
    res.explanation = (
        "Decides (a) fully, that the module-object entry point is a pure delegation with dirname(__file__) of its first two parameters and "
        "every other parameter forwarded to the same-named one, hence builds the same architecture; (b) that the path entry point forwards "
        "each role to generate_graph; (c) registration: one module per non-excluded directory / .py file under _get_module_name(path) with the "
        "documented naming shape; (d) hierarchy: ancestors and hierarchy edges for every module, nodes created only from scanned modules and "
        "importers (never from imported names); (e) the absolute-import prefix and its uniform application to absolute importees."
    )
    res.not_decided = "names for arbitrary directory trees and 'sub-scan = restriction of the whole scan' (relations over concrete trees)."
    res.trusted_base = ["pathlib / os.path semantics", "engine flow analysis"]
    T = types_of(repo)
    # ---- R1
    ge = repo.func(ENTRY, "get_evaluable_architecture")
    gm = repo.func(ENTRY, "get_evaluable_architecture_for_module_objects")
    calls = [c for c in calls_in(gm.node) if dotted(c.func) == ge.name]
    if len(calls) != 1:
        raise AnalysisError("module-object entry point: delegation call not found")
    call = calls[0]
    rets = [s for s in own_nodes(gm.node) if isinstance(s, ast.Return)]
    ok = len(rets) == 1 and rets[0].value is call and not conds(gm, call)
    res.add("C04.R1", f"{gm.relpath}::{gm.qualname}::pure delegation", ok, "returns get_evaluable_architecture(...) unconditionally" if ok else "the module-object entry point is not an unconditional delegation to the path entry point", where(gm, call), kind="structural")
    bound: dict[str, ast.expr] = {}
    for i, a in enumerate(call.args):
        if i < len(ge.param_names):
            bound[ge.param_names[i]] = a
    for k in call.keywords:
        if k.arg:
            bound[k.arg] = k.value

    def resolve(e: ast.expr) -> ast.expr:
        if isinstance(e, ast.Name) and e.id not in gm.param_names:
            a = [s for s in own_nodes(gm.node) if (isinstance(s, ast.Assign) and dotted(s.targets[0]) == e.id) or (isinstance(s, ast.AnnAssign) and dotted(s.target) == e.id)]
            if len(a) == 1:
                return a[0].value
        return e

    for i, pname in enumerate(ge.param_names):
        a = bound.get(pname)
        if i < 2:
            v = resolve(a) if a is not None else None
            want_src = gm.param_names[i]
            ok = isinstance(v, ast.Call) and dotted(v.func) in ("os.path.dirname", "dirname") and len(v.args) == 1 and norm(v.args[0]) == f"{want_src}.__file__"
            res.add("C04.R1", f"{gm.relpath}::{gm.qualname}::{pname} <- dirname({want_src}.__file__)", ok, f"{pname} = directory of {want_src}" if ok else f"`{pname}` receives `{norm(v) if v is not None else 'nothing'}` instead of os.path.dirname({want_src}.__file__)", where(gm, call), kind="flow")
        else:
            ok = a is not None and dotted(a) == pname and pname in gm.param_names
            same_default = True
            if pname in gm.param_names:
                d1 = T._default_of(gm, next(p for p in gm.params if p.arg == pname))
                d2 = T._default_of(ge, next(p for p in ge.params if p.arg == pname))
                same_default = (norm(d1) if d1 is not None else None) == (norm(d2) if d2 is not None else None)
            res.add("C04.R1", f"{gm.relpath}::{gm.qualname}::{pname} forwarded", ok and same_default, f"{pname} forwarded unchanged (same default)" if ok and same_default else (f"`{pname}` of the path entry point receives `{norm(a) if a is not None else 'its default'}` from the module-object entry point" if not ok else f"default of `{pname}` differs between the two entry points"), where(gm, call), kind="flow")
    gen = repo.func(GG, "generate_graph")
    gcalls = [c for c in calls_in(ge.node) if dotted(c.func) == gen.name]
    if len(gcalls) != 1:
        raise AnalysisError("get_evaluable_architecture: generate_graph call not found")
    gb: dict[str, ast.expr] = {}
    for i, a in enumerate(gcalls[0].args):
        if i < len(gen.param_names):
            gb[gen.param_names[i]] = a
    for k in gcalls[0].keywords:
        if k.arg:
            gb[k.arg] = k.value
    for src, dst in GEN_ROLES:
        a = gb.get(dst)
        ok = a is not None and dotted(a) == src
        res.add("C04.R1", f"{ge.relpath}::{ge.qualname}::{dst} <- {src}", ok, f"generate_graph({dst}={src})" if ok else f"generate_graph receives `{norm(a) if a is not None else 'nothing'}` as `{dst}` instead of `{src}`", where(ge, gcalls[0]), kind="flow")
    # how the local roles are built
    for var, builder, arg in (("root_as_path", "Path", "root_path"), ("module_as_path", "Path", "module_path")):
        a = [s for s in own_nodes(ge.node) if isinstance(s, ast.Assign) and dotted(s.targets[0]) == var]
        ok = len(a) == 1 and isinstance(a[0].value, ast.Call) and dotted(a[0].value.func) == builder and dotted(a[0].value.args[0]) == arg
        res.add("C04.R1", f"{ge.relpath}::{ge.qualname}::{var} = Path({arg})", ok, f"{var} is the Path of {arg}" if ok else f"`{var}` is not Path({arg})", where(ge, ge.node), kind="flow")
    a = [s for s in own_nodes(ge.node) if isinstance(s, ast.Assign) and dotted(s.targets[0]) == "path_diff_between_root_and_module"]
    ok = len(a) == 1 and "module_as_path.relative_to(root_as_path)" in norm(a[0].value, 300) and ".replace(os.sep, '.')" in norm(a[0].value, 300)
    res.add("C04.R1", f"{ge.relpath}::{ge.qualname}::path difference", ok, "path difference = module_path relative to root_path in dotted notation" if ok else "the path difference is not str(module_path.relative_to(root_path)) with separators replaced by '.'", where(ge, ge.node), kind="structural")
    # ---- R2
    n = scan.run_registration(repo, res, "C04.R2")
    res.floor("C04.R2", 7, n)
    # ---- R3
    pc = repo.cls(PARSER, "Parser")
    gmn = pc.methods.get("_get_module_name")
    p = gmn.param_names[1]
    rets = [s for s in own_nodes(gmn.node) if isinstance(s, ast.Return)]
    rel = [s for s in own_nodes(gmn.node) if isinstance(s, ast.Assign) and isinstance(s.value, ast.Call) and is_attr_call(s.value, "relative_to")]
    ok_rel = len(rel) == 1 and dotted(rel[0].value.func.value) == p and norm(rel[0].value.args[0]) == "self._source_root"
    res.add("C04.R3", f"{gmn.relpath}::{gmn.qualname}::relative to the source root", ok_rel, "names are computed from the path relative to the source root" if ok_rel else "module names are not computed from path.relative_to(source_root)", where(gmn, gmn.node), kind="structural")
    root_ret = [r for r in rets if norm(r.value) == "self._source_root.name"]
    ok = len(root_ret) == 1 and ok_rel and implies(guard_formula(gmn, root_ret[0]), truth(gmn, f"str({dotted(rel[0].targets[0])}) == '.'")) if rel else False
    res.add("C04.R3", f"{gmn.relpath}::{gmn.qualname}::root maps to its own name", ok, "the root directory itself is named by its directory name" if ok else "the source root is not named by its own directory name exactly when the relative path is '.'", where(gmn, gmn.node), kind="dominance")
    other = [r for r in rets if r not in root_ret]
    ok = False
    if len(other) == 1 and isinstance(other[0].value, ast.JoinedStr):
        parts = other[0].value.values
        texts = [norm(v.value) if isinstance(v, ast.FormattedValue) else repr(v.value) for v in parts]
        if len(parts) == 3 and texts[0] == "self._source_root.name" and texts[1] == "'.'":
            dv = parts[2].value
            chain = []
            cur = dv
            for _ in range(4):
                if isinstance(cur, ast.Name):
                    asg = [s for s in own_nodes(gmn.node) if isinstance(s, ast.Assign) and dotted(s.targets[0]) == cur.id]
                    if len(asg) != 1:
                        break
                    chain.append(norm(asg[0].value, 200))
                    nxt = [x for x in ast.walk(asg[0].value) if isinstance(x, ast.Name) and x.id != "os" and x.id != "str"]
                    cur = nxt[0] if nxt else None
                else:
                    break
            text = " <- ".join(chain)
            ok = ".replace(os.sep, '.')" in text and ".with_suffix('')" in text and (dotted(rel[0].targets[0]) in text if rel else False)
    res.add("C04.R3", f"{gmn.relpath}::{gmn.qualname}::naming shape", ok, "name = root directory name + '.' + relative path without suffix, separators replaced by '.'" if ok else "the module name is not `<root name>.<relative path without suffix, os.sep -> '.'>`", where(gmn, gmn.node), kind="structural")
    # ---- R4
    g = repo.cls(NXGRAPH, "NetworkxGraph")
    aam = g.methods.get("_add_all_modules_as_nodes")
    aeh = g.methods.get("_add_edges_within_module_hierarchy")
    if aam is None or aeh is None:
        raise AnalysisError("NetworkxGraph._add_all_modules_as_nodes / _add_edges_within_module_hierarchy not found")
    lp = [l for l in own_nodes(aam.node) if isinstance(l, ast.For) and norm(l.iter) == "self._all_modules"]
    ok = len(lp) == 1 and not any(isinstance(x, (ast.Break, ast.Continue, ast.If)) for x in ast.walk(lp[0]))
    if ok:
        mv = dotted(lp[0].target)
        cn = [c for c in ast.walk(lp[0]) if isinstance(c, ast.Call) and is_attr_call(c, "_create_node") and dotted(c.args[0]) == mv]
        he = [c for c in ast.walk(lp[0]) if isinstance(c, ast.Call) and is_attr_call(c, aeh.name) and isinstance(c.args[0], ast.Call) and dotted(c.args[0].func) == "get_parent_modules" and dotted(c.args[0].args[0]) == mv and dotted(c.args[1]) == mv]
        ok = len(cn) == 1 and len(he) == 1
    res.add("C04.R4", f"{aam.relpath}::{aam.qualname}::every module: node + ancestors", ok, "every scanned module becomes a node and is linked to all its ancestors" if ok else "not every scanned module becomes a node linked to get_parent_modules(module)", where(aam, aam.node), kind="structural")
    zl = [l for l in own_nodes(aeh.node) if isinstance(l, ast.For) and isinstance(l.iter, ast.Call) and dotted(l.iter.func) == "zip"]
    ok = False
    if len(zl) == 1:
        allv = None
        for s in own_nodes(aeh.node):
            if isinstance(s, ast.Assign) and isinstance(s.value, ast.BinOp) and norm(s.value) == f"{aeh.param_names[1]} + [{aeh.param_names[2]}]":
                allv = dotted(s.targets[0])
        z = zl[0].iter
        pair = [norm(a) for a in z.args] == [f"{allv}[:-1]", f"{allv}[1:]"] if allv else False
        tv = [dotted(x) for x in zl[0].target.elts] if isinstance(zl[0].target, ast.Tuple) else []
        cn = [c for c in ast.walk(zl[0]) if isinstance(c, ast.Call) and is_attr_call(c, "_create_node") and tv and dotted(c.args[0]) == tv[0]]
        ce = [c for c in ast.walk(zl[0]) if isinstance(c, ast.Call) and is_attr_call(c, "_create_edge") and tv and [dotted(a) for a in c.args[:2]] == tv and any(k.arg == "inherits" and isinstance(k.value, ast.Constant) and k.value.value is True for k in c.keywords)]
        ok = pair and len(cn) == 1 and len(ce) == 1 and not any(isinstance(x, (ast.Break, ast.Continue, ast.If)) for x in ast.walk(zl[0]))
    res.add("C04.R4", f"{aeh.relpath}::{aeh.qualname}::consecutive parent->child hierarchy edges", ok, "each consecutive (ancestor, descendant) pair gets a node and a hierarchy edge" if ok else "ancestors are not linked pairwise with inherits=True edges (and nodes) for the whole chain", where(aeh, aeh.node), kind="structural")
    # who may create nodes: scanned modules and importers, never imported names
    init = g.methods.get("__init__")
    construction = [f for f in reachable_funcs(repo, [init], byname=False) if f.cls is g]

    def sources(f: FuncInfo, e: ast.expr):
        if isinstance(e, ast.Attribute) and dotted(e) == "self._all_modules":
            return {"SCANNED"}
        if isinstance(e, ast.Call) and isinstance(e.func, ast.Attribute) and e.func.attr in ("importer", "importer_parent_modules") and not e.args:
            return {"IMPORTER"}
        if isinstance(e, ast.Call) and isinstance(e.func, ast.Attribute) and e.func.attr in ("importee", "importee_parent_modules") and not e.args:
            return {"IMPORTEE"}
        return None

    def node_transfer(f: FuncInfo, call_: ast.Call, names, args, recv, kwargs):
        # the flattening helper maps a name to (a prefix of) itself: keep the argument's provenance, context-sensitively
        if isinstance(call_.func, ast.Attribute) and call_.func.attr == "_flatten_graph_node" and args:
            return set(args[0])
        return None

    flow = Flow(repo, T, Spec(sources=sources, transfer=node_transfer, objects_carry=False, scope=lambda f: f in construction))
    k = 0
    for f in construction:
        for c in calls_in(f.node):
            arg = None
            if is_attr_call(c, "add_node") and "_graph" in norm(c.func.value) and c.args:
                arg = c.args[0]
            elif is_attr_call(c, "_create_node") and c.args:
                arg = c.args[0]
            if arg is None:
                continue
            tags = set(flow.tags(arg))
            k += 1
            ok = "IMPORTEE" not in tags
            res.add("C04.R4", repo.key(f, stmt_of(c)) + f" [node from {sorted(tags) or ['?']}]", ok, "nodes are created from scanned modules / importers and their ancestors" if ok else f"`{norm(c, 60)}` creates a node from an *imported* name: names that are not files or directories of the scanned tree (relative import parts, functions, classes) become modules", where(f, c), kind="flow")
    res.floor("C04.R4.nodes", 3, k)
    # ---- R5
    gap = repo.func(GG, "_get_absolute_import_prefix")
    rets = [s for s in own_nodes(gap.node) if isinstance(s, ast.Return)]
    empty = [r for r in rets if isinstance(r.value, ast.Constant) and r.value.value == ""]
    main = [r for r in rets if r not in empty]
    ok = len(empty) == 1 and len(main) == 1 and "module_path.parent.relative_to(root_path.parent)" in norm(main[0].value, 300) and ".replace(os.sep, '.')" in norm(main[0].value, 300)
    res.add("C04.R5", f"{gap.relpath}::{gap.qualname}::prefix source", ok, "absolute-import prefix = module_path.parent relative to root_path.parent, dotted" if ok else f"the absolute-import prefix is `{norm(main[0].value, 100) if main else '?'}`: not module_path.parent relative to root_path.parent in dotted notation", where(gap, gap.node), kind="structural")
    if empty:
        gf = guard_formula(gap, empty[0])
        ok = any("_actual_difference" in a for a in map(str, [gf])) or bool(conds(gap, empty[0]))
        res.add("C04.R5", f"{gap.relpath}::{gap.qualname}::no prefix without a path difference", ok, "no prefix when root_path equals module_path" if ok else "the empty prefix is returned unconditionally", where(gap, empty[0]), nontrivial=False)
    # strip-family calls with a multi-character / computed argument remove a character *set*, not a prefix or suffix
    s_n = 0
    for f in repo.all_functions():
        for c in calls_in(f.node):
            if isinstance(c.func, ast.Attribute) and c.func.attr in ("strip", "lstrip", "rstrip") and c.args:
                a = c.args[0]
                single = isinstance(a, ast.Constant) and isinstance(a.value, str) and len(a.value) == 1
                if not single:
                    from core.fold import fold

                    v = fold(repo, f.module, a, f)
                    single = v is not None and len(v) == 1
                s_n += 1
                res.add("C04.R5", repo.key(f, stmt_of(c)) + f" [{norm(c, 50)}]", single, "strips a single character" if single else f"`{norm(c, 70)}` removes any run of the *characters* of its argument, not that suffix/prefix: path components spelled with those letters are eaten as well", where(f, c), kind="structural")
    # sibling consistency: absolute importees pass the root-prefix adjustment, relative ones do not
    conv = repo.cls(CONVERTER, "ImportConverter")
    cv = conv.methods.get("_convert")
    adj = conv.methods.get("_adjust_with_root_prefix")
    if cv is None or adj is None:
        raise AnalysisError("ImportConverter._convert / _adjust_with_root_prefix not found")

    def transfer(f: FuncInfo, call_: ast.Call, names, args, recv, kwargs):
        if isinstance(call_.func, ast.Attribute) and call_.func.attr == adj.name:
            return {"ADJ"}
        return None

    def src2(f: FuncInfo, e: ast.expr):
        if isinstance(e, ast.Attribute) and e.attr in ("name", "module") and isinstance(e.value, ast.Name):
            return {"RAWNAME"}
        return None

    fl2 = Flow(repo, T, Spec(sources=src2, transfer=transfer, objects_carry=False, scope=lambda f: f is cv))
    k2 = 0
    for c in calls_in(cv.node):
        ci = T.ctor_class(cv, c)
        if ci is None:
            continue
        if ci.name == "AbsoluteImport" and len(c.args) >= 2:
            k2 += 1
            tags = set(fl2.tags(c.args[1]))
            ok = "ADJ" in tags and "RAWNAME" not in (tags - {"ADJ"}) or tags == {"ADJ"} or ("ADJ" in tags)
            # every definition reaching the argument must be adjusted: RAWNAME may only appear through the adjusted value joined with alias names
            res.add("C04.R5", repo.key(cv, stmt_of(c)) + " [absolute importee adjusted]", "ADJ" in tags, "the absolute importee went through the root-prefix adjustment" if "ADJ" in tags else f"`{norm(c, 70)}` builds an absolute import whose name never passed {adj.name}: imports written relative to module_path's parent no longer resolve when a sub-directory is scanned", where(cv, c), kind="flow")
        if ci.name == "RelativeImport":
            k2 += 1
            bad = [a for a in c.args if "ADJ" in fl2.tags(a)]
            res.add("C04.R5", repo.key(cv, stmt_of(c)) + " [relative importee not adjusted]", not bad, "relative imports are resolved against the importer only" if not bad else "a relative import receives a root-prefix-adjusted name", where(cv, c), kind="flow")
    res.floor("C04.R5.imports", 3, k2)
    # the adjustment: prefix + "." + name if that is an internal module, else the name
    rets = [s for s in own_nodes(adj.node) if isinstance(s, ast.Return)]
    names_ = adj.param_names[1:]
    full = [s for s in own_nodes(adj.node) if isinstance(s, ast.Assign) and isinstance(s.value, ast.JoinedStr)]
    ok = len(rets) == 2 and len(full) == 1 and [norm(v.value) if isinstance(v, ast.FormattedValue) else v.value for v in full[0].value.values] == [names_[1], ".", names_[0]]
    if ok:
        fv = dotted(full[0].targets[0])
        r_full = [r for r in rets if dotted(r.value) == fv]
        r_plain = [r for r in rets if dotted(r.value) == names_[0]]
        ok = len(r_full) == 1 and len(r_plain) == 1 and implies(guard_formula(adj, r_full[0]), atom(f"{fv} in {names_[2]}"))
    res.add("C04.R5", f"{adj.relpath}::{adj.qualname}::adjustment", ok, "prefix.name is used exactly when it is a scanned internal module" if ok else "the root-prefix adjustment is not `prefix.name if that is an internal module else name`", where(adj, adj.node), kind="dominance")
    return res
