"""C04 - modules and hierarchy mirror the scanned directory tree, named from root_path.

  C04.R1  entry points: the module-object entry point is a pure delegation (dirname(__file__) of its two module objects, every other
          option forwarded to the same-named option with the same default) - or, without a direct call, performs the same calls of
          the scanning API; the path entry point hands each option to the consumer of that role (Parser source root <- root_path,
          scan start <- module_path, file filter <- (regex_)exclusions, external filter <- its flag and patterns, graph <- level_limit)
  C04.R2  a module is registered exactly for every non-excluded directory / .py file; descent, reading and parsing only after the
          exclusion test on the path itself (rules/scan.py); a scan by `os.walk` is decided on a model of the walk: followlinks=True,
          the start and every kept sub-directory name pass the exclusion test (or the body tests the visited directory and empties
          the list), names are taken out of the list in place and never while that list is iterated, every file name is handed on
  C04.R3  naming: root directory name + '.' + path relative to the root, suffix removed, one component per path part;
          the root itself is named by its directory name (also as `[root.name, *rel.parts[:-1]]` + `rel.stem` only below the root)
  C04.R4  hierarchy: every scanned module becomes a node; all its ancestors (get_parent_modules) become nodes and every consecutive
          (parent, child) pair of the chain gets an `inherits=True` edge; nodes are never created from *imported* names
          (a construction whose shape cannot be read - another algorithm for the hierarchy, ledgers turned into the graph at the end -
          is tabulated on model inputs by the finite-domain evaluator, rules/c04_model.py: nodes, inherits edges and import edges of
          the built graph against what the property demands; a differing input is a counterexample)
  C04.R5  prefixes: absolute-import prefix = module_path.parent relative to root_path.parent (dotted), used whenever module_path
          differs from root_path; the internal-module set comes from the scan; every absolute importee is `prefix.name` exactly when
          that is a scanned module (the sub-module test of `from x import y` is made on the adjusted name; decision table over all
          membership scenarios; tests on the *characters* of the imported name are free variables of that table: an outcome that depends
          on the spelling of the name is a violation), relative importees never are; no character-set strip used as prefix/suffix removal

All rules are evaluated on symbolic executions of *public* entry points (rules/c04_symx.py): `get_evaluable_architecture`,
`get_evaluable_architecture_for_module_objects`, `Parser.parse`, `NetworkxGraph.__init__`, `ImportConverter.convert`.  Private helpers
are found by being reached from there, never by name; locals never appear in what is compared; values are compared in normal forms
(rules/c04_norm.py).  A shape that cannot be interpreted is reported as undecided, never as a violation.
"""

from __future__ import annotations

import ast
import itertools
import re

from core.loader import AnalysisError, FuncInfo, Repo, calls_in, norm
from core.report import Result

from . import scan
from . import c04_eval
from .c04_norm import FIRST_PART, alternatives, canon, dotted, leaves, loc, rename_atoms, restrict, seq, show_dotted, show_loc, strip_abs, unbox
from .c04_symx import FALSE, TRUE, Event, Formula, SymX, Term, Trace, atom, atoms_of, evaluate, f_and, f_not, f_or, implies, is_const, rewrite, show, show_formula, simplify, substitute, subterms
from .common import stmt_of, types_of, where

ENTRY = "pytestarch.pytestarch"
NXGRAPH = "pytestarch.eval_structure.networkxgraph"
CONVERTER = "pytestarch.eval_structure_generation.file_import.converter"
TYPES = "pytestarch.eval_structure.types"


def run(repo: Repo) -> Result:
    res = Result("C04")
    res.explanation = (
        "Decides, on symbolic executions of the public entry points (helpers are followed, locals replaced by their values): (a) the "
        "module-object entry point is a pure delegation with dirname(__file__) of its first two parameters and every other parameter "
        "forwarded to the same-named one, hence builds the same architecture; (b) the path entry point hands every option to the consumer "
        "of its role; (c) registration: a module is registered exactly for every non-excluded directory / .py file, under the dotted name "
        "`<root name>.<relative path without suffix>` of that path; (d) hierarchy: node for every scanned module, nodes and inherits-edges "
        "along all its ancestors, no node from imported names; (e) the absolute-import prefix and its application to absolute importees."
    )
    res.not_decided = "names for arbitrary directory trees and 'sub-scan = restriction of the whole scan' (relations over concrete trees)."
    res.trusted_base = ["pathlib / os.path semantics", "symbolic executor rules/c04_symx.py", "rules/c09_eval.py (finite-domain evaluator, used by rules/c04_model.py when the shape of the graph construction cannot be read)"]
    rule_r1(repo, res)
    n = scan.run_registration(repo, res, "C04.R2")
    if not any(u["rule"] == "C04.R2" for u in res.undecided):
        res.floor("C04.R2", 7, n)
    rule_r3(repo, res)
    rule_r4(repo, res)
    rule_r5(repo, res)
    if res.undecided:
        # a rule that found too few instances next to constructs that could not be classified is a consequence of those: the
        # verdict is 'undecided' with the reasons given there, not 'vacuous'
        for rule, (expected, found) in list(res.floors.items()):
            if found < expected:
                del res.floors[rule]
    return res


# =========================================================================== R1

# classes whose construction / public methods are the vocabulary of the rules (they stay events of the execution)
ANCHOR_CLASSES = {"Parser", "FileFilter", "Config", "ExternalImportFilter", "NetworkxGraph", "ImportConverter", "EvaluableArchitectureGraph", "ImporteeModuleCalculator", "NamedModule", "AbsoluteImport", "RelativeImport", "Import"}


def _run_entry(repo: Repo, T, fi: FuncInfo) -> "tuple[SymX, Trace]":
    """Symbolic execution of a public entry point that also follows the objects it builds: a class of the repository that is
    instantiated on the way and is not itself vocabulary of the rules (a policy / options / pipeline object that took over what
    helper functions did) has its constructor and its methods executed in place, so the calls made *inside* them are seen."""
    from .c04_symx import _private_helper_class, default_policy

    opened: set[str] = set()
    sx = tr = None
    for _round in range(4):
        def policy(caller: FuncInfo, callee: FuncInfo, opened=frozenset(opened)) -> bool:
            if default_policy(fi, caller, callee):
                return True
            return callee.cls is not None and callee.cls.fq in opened and not (callee.name.startswith("__") and callee.name.endswith("__"))

        def enter_ctor(ci, opened=frozenset(opened)) -> bool:
            usual = (not ci.bases or _private_helper_class(ci)) and ci is not fi.cls and not ci.is_dataclass and (ci.module is fi.module or ci.name.startswith("_"))
            return usual or ci.fq in opened

        sx = SymX(repo, T, policy=policy, enter_ctor=enter_ctor)
        tr = sx.run(fi)
        built = {e.func[1] for e in tr.events if e.kind == "call" and e.func[0] == "cls" and e.func[1] in repo.classes}
        new = {fq for fq in built if fq not in opened and fq.rsplit(".", 1)[-1] not in ANCHOR_CLASSES and not any(b.endswith(("NamedTuple", "Enum")) for b in repo.classes[fq].bases)}
        if not new:
            break
        opened |= new
    assert sx is not None and tr is not None
    return sx, tr


def _bind_args(callee: FuncInfo, e: Event) -> dict[str, Term]:
    """Argument terms of a call event by parameter name of the callee (receiver parameter skipped)."""
    names = callee.param_names
    if callee.cls is not None and callee.outer is None and not callee.is_staticmethod:
        names = names[1:]
    out: dict[str, Term] = {}
    for i, a in enumerate(e.args):
        if a[0] == "star":
            break
        if i < len(names):
            out[names[i]] = a
    for k, v in e.kwargs:
        if k == "**":
            d = unbox(v)
            if d[0] == "dict" and all(kk[0] == "const" and isinstance(kk[1], str) for kk, _vv in d[1]):
                for kk, vv in d[1]:
                    if kk[1] in names:
                        out[kk[1]] = vv
            else:
                out["**"] = v
        elif k in names:
            out[k] = v
    if any(a[0] == "star" for a in e.args):
        out["*"] = next(a for a in e.args if a[0] == "star")
    return out


def _default(fi: FuncInfo, name: str) -> str | None:
    a = fi.node.args
    pos = [*a.posonlyargs, *a.args]
    for i, p in enumerate(pos):
        if p.arg == name:
            j = i - (len(pos) - len(a.defaults))
            return norm(a.defaults[j]) if j >= 0 else None
    for p, d in zip(a.kwonlyargs, a.kw_defaults):
        if p.arg == name:
            return norm(d) if d is not None else None
    return None


def _param_leaves(t: Term, fi: FuncInfo) -> set[str]:
    return {x[1] for x in leaves(t, ("param",)) if x[1] in fi.param_names}


def _plain_value(t: Term) -> bool:
    """A value written with parameters, constants, `not` / `and` / `or` / comparisons / bool() only."""
    if t[0] in ("param", "const"):
        return True
    if t[0] == "unop":
        return _plain_value(t[2])
    if t[0] == "boolop":
        return all(_plain_value(x) for x in t[2])
    if t[0] == "cmp":
        return _plain_value(t[2]) and _plain_value(t[3])
    if t[0] == "call" and t[1] == ("builtin", "bool") and len(t[2]) == 1:
        return _plain_value(t[2][0])
    if t[0] == "phi":
        return all(_plain_value(v) for _g, v in t[1])
    return False


def _plain_loc(l: Term) -> bool:
    """A location written with parameters, attributes and parent / relative steps only (comparable with an expected one)."""
    if l[0] in ("PARENT", "ABS", "NOSUF"):
        return _plain_loc(l[1])
    if l[0] == "REL":
        return _plain_loc(l[1]) and _plain_loc(l[2])
    if l[0] == "attr":
        return _plain_loc(l[1])
    return l[0] in ("param", "const")


def _strip_abs_deep(l: Term) -> Term:
    """Location without abspath / resolve steps (a module's __file__ is an absolute path already)."""
    if l[0] == "ABS":
        return _strip_abs_deep(l[1])
    if l[0] in ("PARENT", "NOSUF"):
        return (l[0], _strip_abs_deep(l[1]))
    if l[0] == "REL":
        return ("REL", _strip_abs_deep(l[1]), _strip_abs_deep(l[2]))
    return l


def _canon_text(t: Term) -> str:
    """Text of a term with location wrappers removed, the guards of choices dropped and symbol numbers erased (for comparing two
    executions of different functions)."""

    def fix(x: Term):
        if x[0] == "call" and x[1][0] == "lib" and x[1][1] in ("pathlib.Path", "pathlib.PurePath", "os.fspath") and len(x[2]) == 1:
            return x[2][0]
        if x[0] == "call" and x[1] == ("builtin", "str") and len(x[2]) == 1:
            return x[2][0]
        if x[0] == "call" and x[1] == ("lib", "os.path.dirname") and len(x[2]) == 1:
            return ("attr", x[2][0], "parent")
        if x[0] == "phi":
            vals = sorted({re.sub(r"#\d+", "#", show(v)) for _g, v in x[1]})
            return ("unk", "one of " + " | ".join(vals), 0)
        if x[0] == "comp":
            return ("comp", x[1], x[2], tuple((tg, it, ()) for tg, it, _c in x[3]), 0)
        return None

    return re.sub(r"#\d+", "#", show(rewrite(t, fix)))


API_EVENTS = {"Parser", "parse", "Config", "ImportConverter", "convert", "ExternalImportFilter", "filter", "NetworkxGraph", "EvaluableArchitectureGraph", "ImporteeModuleCalculator", "calculate_importee_modules"}


def rule_r1(repo: Repo, res: Result) -> None:
    T = types_of(repo)
    ge = repo.func(ENTRY, "get_evaluable_architecture")
    gm = repo.func(ENTRY, "get_evaluable_architecture_for_module_objects")
    # ---- the module-object entry point
    sx = SymX(repo, T, keep=lambda f: f.fq == ge.fq)
    tr = sx.run(gm)
    calls = [e for e in tr.events if e.kind == "call" and e.func == ("fn", ge.fq)]
    tag = f"{gm.relpath}::{gm.qualname}"
    if calls:
        rets = [t for _pc, t in tr.returns]
        results = [c.result for c in calls]
        ok = simplify(f_or([c.guard for c in calls])) == TRUE and all(t in results for t in rets) and bool(rets)
        res.add("C04.R1", f"{tag}::pure delegation", ok, "returns get_evaluable_architecture(...) unconditionally" if ok else "the module-object entry point is not an unconditional delegation to the path entry point", where(calls[0].fi, calls[0].node), kind="structural")
        for n_, call in enumerate(calls):
            suffix = "" if len(calls) == 1 else f" [call {n_ + 1}: {norm(call.node, 50)}]"
            bound = _bind_args(ge, call)
            if "*" in bound or "**" in bound:
                res.undecide("C04.R1", f"{tag}::forwarding{suffix}", f"the delegation passes its arguments as `{show(bound.get('*') or bound.get('**'), 60)}`: cannot tell which option receives what", where(call.fi, call.node))
                continue
            for i, pname in enumerate(ge.param_names):
                a = bound.get(pname)
                if i < 2:
                    src = gm.param_names[i] if i < len(gm.param_names) else "?"
                    want = ("PARENT", ("attr", ("param", src), "__file__"))
                    got = _strip_abs_deep(loc(a)) if a is not None else None
                    ok = got == want
                    if not ok and got is not None and not _plain_loc(got):
                        res.undecide("C04.R1", f"{tag}::{pname} <- dirname({src}.__file__){suffix}", f"cannot read `{show(a, 120)}` as a directory", where(call.fi, call.node))
                        continue
                    res.add("C04.R1", f"{tag}::{pname} <- dirname({src}.__file__){suffix}", ok, f"{pname} = directory of {src}" if ok else f"`{pname}` receives `{show_loc(got) if got is not None else 'nothing'}` instead of the directory of {src}.__file__", where(call.fi, call.node), kind="flow")
                else:
                    ok = a == ("param", pname) and pname in gm.param_names
                    if a is not None and a[0] == "boolop" and a[1] == "or" and a[2][0] == ("param", pname) and all(x[0] in ("const", "lib", "tuple") for x in a[2][1:]):
                        res.add("C04.R1", f"{tag}::{pname} forwarded{suffix}", False, f"`{pname}` is forwarded as `{show(a, 80)}`: an empty value given to the module-object entry point is replaced, the path entry point would have used it as it is", where(call.fi, call.node), kind="flow")
                        continue
                    if not ok and a is not None and a[0] not in ("param", "const", "attr", "tuple"):
                        res.undecide("C04.R1", f"{tag}::{pname} forwarded{suffix}", f"cannot tell whether `{show(a, 120)}` is the option `{pname}` unchanged", where(call.fi, call.node))
                        continue
                    same_default = pname not in gm.param_names or _default(gm, pname) == _default(ge, pname)
                    if a is None and pname in gm.param_names and _default(ge, pname) is not None:
                        detail = f"`{pname}` of the module-object entry point is not forwarded: the path entry point always uses its default"
                    elif not ok:
                        detail = f"`{pname}` of the path entry point receives `{show(a, 80) if a is not None else 'its default'}` from the module-object entry point"
                    elif not same_default:
                        detail = f"default of `{pname}` differs between the two entry points"
                    else:
                        detail = f"{pname} forwarded unchanged (same default)"
                    res.add("C04.R1", f"{tag}::{pname} forwarded{suffix}", ok and same_default, detail, where(call.fi, call.node), kind="flow")
    else:
        # no direct delegation: both entry points must perform the same calls of the scanning / graph API, with
        # root_path := dirname(root_module.__file__), module_path := dirname(module.__file__)
        _r1_same_api_calls(repo, res, T, ge, gm)
    # ---- the path entry point: every option reaches the consumer of its role
    sx2, tr2 = _run_entry(repo, T, ge)
    tag = f"{ge.relpath}::{ge.qualname}"
    p = ge.param_names
    want_names = ["root_path", "module_path", "exclusions", "exclude_external_libraries", "level_limit", "regex_exclusions", "external_exclusions", "regex_external_exclusions"]
    if p != want_names:
        res.undecide("C04.R1", f"{tag}::signature", f"the public signature changed to {p}: the roles of the options are not known", where(ge, ge.node))
        return

    def single(name: str, what: str) -> Event | None:
        evs = [e for e in tr2.events if e.kind == "call" and e.name == name]
        if len(evs) != 1:
            res.undecide("C04.R1", f"{tag}::{what}", f"{len(evs)} `{name}` call(s) reached from the path entry point (expected exactly one)", where(ge, ge.node))
            return None
        return evs[0]

    parser_cls = repo.cls(scan.PARSER, "Parser")
    init = repo.lookup_method(parser_cls, "__init__")
    ctor = single("Parser", "scanner construction")
    if ctor is not None and init is not None:
        b = _bind_args(init, ctor)
        names = init.param_names[1:]
        root_arg = b.get(names[1]) if len(names) > 1 else None
        got = loc(root_arg) if root_arg is not None else None
        ok = got == ("param", "root_path")
        if not ok and (_has_lost_parts(root_arg) or got is None or not _plain_loc(got)):
            res.undecide("C04.R1", f"{tag}::source root of the scan <- root_path", f"cannot follow how the scanner's source root `{show(root_arg, 100)}` is computed", where(ctor.fi, ctor.node))
        else:
            res.add("C04.R1", f"{tag}::source root of the scan <- root_path", ok, "module names are computed relative to root_path" if ok else f"the scanner's source root is `{show_loc(got) if got is not None else '?'}`, not root_path: module names no longer start at the root directory", where(ctor.fi, ctor.node), kind="flow")
        filt = b.get(names[0]) if names else None
        pl = _param_leaves(filt, ge) if filt is not None else set()
        precise = False
        want_scan = {"exclusions", "regex_exclusions"}
        if filt is not None and not want_scan >= pl >= set() and want_scan <= pl:
            # more options than the two reach the filter object: which of its configuration fields does the predicate match against?
            used = _options_matched_by_filter(repo, T, filt, ge)
            if used is not None:
                pl, precise = used, True
        _options_obligation(res, f"{tag}::file filter <- exclusions / regex_exclusions", pl, want_scan, "the scan filter", ctor, filt, precise)
        start = [e for e in tr2.events if e.kind == "call" and e.name == "parse" and e.recv == ctor.result]
        if len(start) == 1:
            got = loc(start[0].arg(0)) if start[0].arg(0) is not None else None
            ok = got == ("param", "module_path")
            if not ok and (_has_lost_parts(start[0].arg(0)) or got is None or not _plain_loc(got)):
                res.undecide("C04.R1", f"{tag}::scan start <- module_path", f"cannot follow how the start of the scan `{show(start[0].arg(0), 100)}` is computed", where(start[0].fi, start[0].node))
            else:
                res.add("C04.R1", f"{tag}::scan start <- module_path", ok, "the scan starts at module_path" if ok else f"the scan starts at `{show_loc(got) if got is not None else '?'}`, not at module_path", where(start[0].fi, start[0].node), kind="flow")
        else:
            res.undecide("C04.R1", f"{tag}::scan start", f"{len(start)} `parse` call(s) on the scanner", where(ge, ge.node))
    ext = single("ExternalImportFilter", "external import filter")
    if ext is not None:
        a0 = ext.arg(0, "exclude_external_libraries")
        ok = a0 == ("param", "exclude_external_libraries")
        if not ok and (a0 is None or _has_lost_parts(a0) or not _plain_value(a0)):
            res.undecide("C04.R1", f"{tag}::external filter flag <- exclude_external_libraries", f"cannot follow how the flag `{show(a0, 80) if a0 is not None else '?'}` of the external-import filter is computed", where(ext.fi, ext.node))
        else:
            res.add("C04.R1", f"{tag}::external filter flag <- exclude_external_libraries", ok, "the flag is forwarded" if ok else f"the external-import filter receives `{show(a0, 60) if a0 is not None else '?'}` as its flag", where(ext.fi, ext.node), kind="flow")
        a2 = ext.arg(2, "external_exclusions")
        pl = _param_leaves(a2, ge) if a2 is not None else set()
        _options_obligation(res, f"{tag}::external filter patterns <- external_exclusions / regex_external_exclusions", pl, {"external_exclusions", "regex_external_exclusions"}, "the patterns of the external-import filter", ext, a2)
    g = single("NetworkxGraph", "graph construction")
    if g is not None:
        a2 = g.arg(2, "level_limit")
        pl = _param_leaves(a2, ge) if a2 is not None else set()
        ok = "level_limit" in pl and pl <= {"level_limit", "root_path", "module_path"}
        if not ok and ("level_limit" in pl or _has_lost_parts(a2)):
            res.undecide("C04.R1", f"{tag}::graph depth <- level_limit", f"cannot follow how the graph's level limit `{show(a2, 80) if a2 is not None else '?'}` is computed", where(g.fi, g.node))
        else:
            res.add("C04.R1", f"{tag}::graph depth <- level_limit", ok, "the level limit (shifted by the root/module offset) reaches the graph" if ok else f"the graph's level limit is built from {sorted(pl) or 'no option'}", where(g.fi, g.node), kind="flow")
        a0 = g.arg(0, "all_modules")
        ok = a0 is not None and any(x[0] == "mcall" and x[2] == "parse" for x in subterms(a0))
        if not ok and _has_lost_parts(a0):
            res.undecide("C04.R1", f"{tag}::graph modules <- scan result", f"cannot follow where the module list `{show(a0, 80)}` of the graph comes from", where(g.fi, g.node))
        else:
            res.add("C04.R1", f"{tag}::graph modules <- scan result", ok, "the graph is built from the scanned modules" if ok else "the module list of the graph does not come from the scan", where(g.fi, g.node), kind="flow")


def _has_lost_parts(t: Term | None) -> bool:
    """The value contains parts the executor could not follow: loop-carried values, results of calls it did not enter, fields of
    objects whose construction it did not see. A *negative* statement about such a value ("is not computed from ...") is unfounded."""
    if t is None:
        return False
    for x in subterms(t):
        if x[0] in ("unk", "loopvar"):
            return True
        if x[0] == "attr" and x[1][0] in ("new", "call", "mcall", "elem") and x[2].startswith("_"):
            return True  # a private field of an object built elsewhere
        if x[0] == "attr" and x[1][0] == "mcall" and (x[1][1][0] == "new" or x[1][2].startswith("_")):
            return True  # a field of what a method of a helper object returned (`ctx._replace(...).root_path`)
        if x[0] == "attr" and x[1][0] == "new" and x[2] not in ("name", "parent", "parts", "stem", "suffix"):
            return True  # a field of a helper object that the executor could not read
        if x[0] in ("call", "mcall") and (x[1][0] == "fn" if x[0] == "call" else False):
            return True  # a repository function that was not entered
    return False


def _options_matched_by_filter(repo: Repo, T, filt: Term, ge: FuncInfo) -> "set[str] | None":
    """Options of the entry point whose patterns the exclusion predicate of the filter object `filt` matches against: the predicate is
    executed symbolically on a filter built from a symbolic configuration; the configuration fields that reach `re.match` are then
    looked up in the configuration object the entry point builds. None if any step cannot be followed."""
    if filt[0] != "new" or len(filt[2]) + len(filt[3]) != 1:
        return None
    cfg = filt[2][0] if filt[2] else filt[3][0][1]
    fcls = repo.classes.get(filt[1])
    ccls = repo.classes.get(cfg[1]) if cfg[0] == "new" else None
    if fcls is None or ccls is None or repo.lookup_method(ccls, "__init__") is not None:
        return None
    init = repo.lookup_method(fcls, "__init__")
    pred = repo.lookup_method(fcls, scan.EXCLUSION_PREDICATE)
    if init is None or pred is None or len(init.param_names) != 2:
        return None
    self_t, cfg_t = ("param", "<filter>"), ("param", "<config>")
    try:
        sx0 = SymX(repo, T)
        tr0 = sx0.run(init, args={init.param_names[1]: cfg_t}, self_term=self_t)
        if tr0.final is None or not tr0.final.alive or tr0.opaque_calls():
            return None
        heap = dict(tr0.final.heap)
        probe = SymX(repo, T, first_id=20_000)
        overloads = probe._dispatch_overloads(pred)
        bodies = [f for _t, f in overloads] if overloads else [pred]
        fields: set[str] = set()
        matches = 0
        for i, body in enumerate(bodies):
            sx1 = SymX(repo, T, first_id=30_000 + 10_000 * i, keep=lambda f: f.fq == pred.fq)
            tr1 = sx1.run(body, self_term=self_t, heap=heap)
            for e in tr1.events:
                if e.kind != "call":
                    continue
                if e.func[0] == "lib" and e.func[1] in ("re.match", "re.search", "re.fullmatch") and e.args:
                    pat = e.args[0]
                elif e.func[0] == "method" and e.name in ("match", "search", "fullmatch") and e.recv is not None:
                    pat = e.recv
                else:
                    continue
                matches += 1
                mine = {x[2] for x in subterms(pat) if x[0] == "attr" and x[1] == cfg_t}
                if not mine:
                    return None
                fields |= mine
            if tr1.opaque_calls(lambda e: e.name == pred.name):
                return None
        if not matches:
            return None
    except AnalysisError:
        return None
    declared = [a for c in reversed(repo.mro(ccls)) for a in c.ann_attrs]
    if not fields <= set(declared):
        return None
    given: dict[str, Term] = {}
    for i, v in enumerate(cfg[2]):
        if i < len(declared):
            given[declared[i]] = v
    for k, v in cfg[3]:
        given[k] = v
    out: set[str] = set()
    for f in fields:
        if f in given:
            if _has_lost_parts(given[f]):
                return None
            out |= _param_leaves(given[f], ge)
    return out


def _options_obligation(res: Result, key: str, got: set[str], want: set[str], what: str, e: Event, value: Term | None = None, precise: bool = False) -> None:
    """The value is computed from exactly the options `want`. An option that is missing is a violation; additional options
    (e.g. both pattern kinds converted by one shared comprehension) cannot be judged on the level of 'depends on'."""
    if got == want:
        res.add("C04.R1", key, True, f"{what} is built from {' / '.join(sorted(want))}", where(e.fi, e.node), kind="flow")
    elif not want <= got and _has_lost_parts(value):
        res.undecide("C04.R1", key, f"cannot follow how {what} is computed (`{show(value, 100)}`)", where(e.fi, e.node))
    elif not want <= got:
        res.add("C04.R1", key, False, f"{what} is built from {sorted(got) or 'no option'} instead of {' / '.join(sorted(want))}", where(e.fi, e.node), kind="flow")
    elif precise:
        res.add("C04.R1", key, False, f"{what} also matches the patterns given as {' / '.join(sorted(got - want))}: options meant for another filter decide which files and directories are scanned", where(e.fi, e.node), kind="flow")
    else:
        res.undecide("C04.R1", key, f"{what} depends on {sorted(got)}: cannot tell whether the other options only take part in a shared computation", where(e.fi, e.node))


def _r1_same_api_calls(repo: Repo, res: Result, T, ge: FuncInfo, gm: FuncInfo) -> None:
    """Without a direct delegation: the path entry point, executed with root_path := dirname(root_module.__file__) and
    module_path := dirname(module.__file__), must perform the same calls of the scanning / graph API as the module-object one."""
    tag = f"{gm.relpath}::{gm.qualname}"
    a = SymX(repo, T).run(gm)
    args = {}
    for i, pname in enumerate(ge.param_names):
        if i < 2 and i < len(gm.param_names):
            args[pname] = ("call", ("lib", "os.path.dirname"), (("attr", ("param", gm.param_names[i]), "__file__"),), ())
    b = SymX(repo, T).run(ge, args=args)

    def sig(tr: Trace) -> list[str]:
        out = []
        for e in tr.events:
            if e.kind == "call" and e.name in API_EVENTS:
                out.append(f"{e.name}({', '.join(_canon_text(x) for x in e.args)})")
        return out

    sa, sb = sig(a), sig(b)
    if not sa or not sb:
        res.undecide("C04.R1", f"{tag}::delegation", "the module-object entry point neither calls the path entry point nor reaches the scanning API", where(gm, gm.node))
        return
    ok = sa == sb
    diff = ""
    for x, y in itertools.zip_longest(sa, sb, fillvalue="nothing"):
        if x != y:
            i = next((k for k in range(min(len(x), len(y))) if x[k] != y[k]), min(len(x), len(y)))
            diff = f"`{x.split('(')[0]}`: `...{x[max(0, i - 60):i + 60]}...` vs `...{y[max(0, i - 60):i + 60]}...`"
            break
    res.add("C04.R1", f"{tag}::same scanning calls as the path entry point", ok, "both entry points perform the same calls, with dirname(__file__) of the module objects as paths" if ok else f"the two entry points differ in the call of {diff}", where(gm, gm.node), kind="flow")


# =========================================================================== R3


def _path_vocabulary(d, leaves_ok: tuple, names_of: tuple = ()) -> bool:
    """The dotted name consists only of path components of locations built from the given leaves (and `.name` of `names_of`): it
    can be compared with the expected name; anything else (slices of split strings, unknown helpers) cannot."""

    def loc_ok(l: Term) -> bool:
        if l in leaves_ok:
            return True
        if l[0] in ("PARENT", "NOSUF", "ABS"):
            return loc_ok(l[1])
        if l[0] == "REL":
            return loc_ok(l[1]) and loc_ok(l[2])
        return False

    for kind, v in d:
        if kind == "parts":
            if not loc_ok(v):
                return False
        elif kind == "item":
            if not (v[0] == "attr" and v[2] in ("name", "stem", FIRST_PART) and (loc_ok(v[1]) or v[1] in names_of)):
                return False
        else:
            return False
    return True


def _root_tests(sx: SymX, fs, rel: Term, root: Term | None = None) -> dict[str, bool]:
    """Atoms of the formulas `fs` that test 'the path is the source root itself' -> polarity (True: atom true means root)."""
    out: dict[str, bool] = {}
    for key in sorted({a for f in fs for a in atoms_of(f)}):
        t = sx.atoms.get(key)
        if t is None:
            continue
        if t[0] == "cmp" and t[1] == "==":
            a, b = t[2], t[3]
            c, o = (a, b) if a[0] == "const" else (b, a)
            if is_const(c, ".") and loc(o) == rel:
                out[key] = True
            elif loc(a) == rel and loc(b) == ("const", ".") or loc(b) == rel and loc(a) == ("const", "."):
                out[key] = True
            elif {strip_abs(loc(a)), strip_abs(loc(b))} == {strip_abs(rel[1]), strip_abs(root if root is not None else rel[2])}:
                out[key] = True
        else:
            l = loc(t)
            if l in (("attr", rel, "parts"), ("attr", rel, "name"), ("attr", rel, "stem")):
                out[key] = False  # the empty relative path `.` has no parts and an empty name
            elif t[0] == "call" and t[1] == ("builtin", "len") and len(t[2]) == 1 and loc(t[2][0]) == ("attr", rel, "parts"):
                out[key] = False
    return out


def _name_counterexample(sx: SymX, info, reg):
    """A concrete (source root, path) on which the registered name is not `<root name>.<relative path without suffix, dotted>`."""
    if reg.path is None:
        return None
    init = info.parse.cls and next((m for c in [info.parse.cls] for m in [c.methods.get("__init__")] if m is not None), None)
    if init is None or len(init.param_names) < 3 or not info.ctor_heap:
        return None
    root_param = f"{info.parse.cls.name}.{init.param_names[2]}"
    try:
        return c04_eval.name_counterexample(reg.element, reg.path, root_param, sx)
    except (c04_eval.Unknown, RecursionError):
        return None


def _name_agrees_on_samples(sx: SymX, info, reg) -> int:
    """Number of sample (source root, path) pairs on all of which the registered name is the specified one (0: not all of them, or
    the name cannot be evaluated on one)."""
    if reg.path is None or not info.parse.cls or not info.ctor_heap:
        return 0
    init = info.parse.cls.methods.get("__init__")
    if init is None or len(init.param_names) < 3:
        return 0
    try:
        return c04_eval.name_agrees_on_all_samples(reg.element, reg.path, f"{info.parse.cls.name}.{init.param_names[2]}", sx)
    except Exception:  # noqa: BLE001
        return 0


def rule_r3(repo: Repo, res: Result) -> None:
    info = scan.analyse(repo)
    sx = info.sx
    done = 0
    for reg in info.regs:
        e = reg.event
        key = repo.key(e.fi, stmt_of(e.node))
        wh = where(e.fi, e.node)
        if reg.path is None:
            continue  # reported by R2
        el = reg.element
        # the relative location the name is built from
        rels = {l for x in subterms(el) for l in [loc(x)] if l[0] == "REL" and strip_abs(l[1]) == strip_abs(loc(reg.path))}
        if len(rels) != 1:
            done += 1
            cex = _name_counterexample(sx, info, reg)
            if cex is not None:
                res.add("C04.R3", key + " [naming shape]", False, f"for the source root {cex[0]!r} the path {cex[1]!r} is registered as {cex[2]!r} instead of {cex[3]!r}", wh, kind="structural")
                continue
            res.undecide("C04.R3", key + " [name relative to the source root]", f"cannot see how the registered name `{show(el, 120)}` is computed from the path relative to the source root", wh)
            continue
        rel = rels.pop()
        from_walk = rel[1][0] != "ABS"
        res.add("C04.R3", key + " [name of the visited path]", from_walk, "the name is computed from the path as it was found by the walk" if from_walk else f"the module name is computed from the resolved path `{show_loc(rel[1])}` instead of the path found by the walk: a symlinked file is registered under its target's name and a relative root_path makes relative_to fail", wh, kind="flow")
        init = repo.lookup_method(info.parse.cls, "__init__") if info.parse.cls else None
        root_param = f"{info.parse.cls.name}.{init.param_names[2]}" if init is not None and len(init.param_names) > 2 else None
        base_loc = rel[2]
        root = base_loc[1] if base_loc[0] == "PARENT" else base_loc  # `p.relative_to(root.parent)` starts with the root's name as well
        root = strip_abs(root)
        ok = root == ("param", root_param) if info.ctor_heap else root[0] == "attr" and root[1] == ("param", info.parse.param_names[0])
        if not ok and _has_lost_parts(root):
            res.undecide("C04.R3", key + " [relative to the source root]", f"cannot follow where `{show_loc(base_loc)}` comes from", wh)
            continue
        res.add("C04.R3", key + " [relative to the source root]", ok, "names are computed from the path relative to the scanner's source root" if ok else f"module names are computed relative to `{show_loc(base_loc)}`, not to the source root handed to the scanner", wh, kind="structural")
        alts = alternatives(el)
        want = canon([("parts", ("NOSUF", rel))] if base_loc[0] == "PARENT" else [("item", ("attr", root, "name")), ("parts", ("NOSUF", rel))])
        want_root = [("item", ("attr", root, "name"))]
        # the general form without suffix removal, used only when the path is the root (its relative path has no parts), is the root's name
        tests0 = _root_tests(sx, [g for g, _ in alts], rel, root)
        unsuffixed = [canon([("parts", rel)] if base_loc[0] == "PARENT" else [("item", ("attr", root, "name")), ("parts", rel)])]
        if base_loc[0] != "PARENT":
            # `[root.name, *rel.parts[:-1]]`, `[root.name, *rel.parent.parts]`: the empty relative path has no parts, and neither
            # has its parent (`Path('.').parent` is `Path('.')`); no suffix removal and no `.stem` / `.name` component (both would
            # fail on / append an empty component for the empty path)
            up = rel
            for _k in range(3):
                up = ("PARENT", up)
                unsuffixed.append(canon([("item", ("attr", root, "name")), ("parts", up)]))

        def names_root(g: Formula, v: Term) -> bool:
            d_ = dotted(v)
            if d_ == want_root:
                return True
            if d_ not in unsuffixed or not tests0 or g == TRUE:
                return False
            g_ = rename_atoms(g, lambda k: (atom("ROOT") if tests0[k] else f_not(atom("ROOT"))) if k in tests0 else None)
            return implies(g_, atom("ROOT"))

        general = [(g, v) for g, v in alts if not names_root(g, v)]
        rootcase = [(g, v) for g, v in alts if names_root(g, v)]
        done += 1
        # ---- general shape
        bad = [(g, v) for g, v in general if dotted(v) != want]
        readable = True
        if not general:
            res.add("C04.R3", key + " [naming shape]", False, "every path is named by the root directory's name alone", wh, kind="structural")
        elif bad:
            g, v = bad[0]
            d = dotted(v)
            cex = _name_counterexample(sx, info, reg) if d is None or not _path_vocabulary(d, (rel[1], root, strip_abs(rel[1])), (root,)) else None
            if cex is not None:
                readable = False
                res.add("C04.R3", key + " [naming shape]", False, f"for the source root {cex[0]!r} the path {cex[1]!r} is registered as {cex[2]!r} instead of {cex[3]!r}", wh, kind="structural")
            elif (d is None or not _path_vocabulary(d, (rel[1], root, strip_abs(rel[1])), (root,))) and (n_ok := _name_agrees_on_samples(sx, info, reg)):
                # no normal form, but a small pure computation: tabulated on sample paths (the root itself, nested packages, the root's
                # name and the suffix text occurring again inside the path)
                readable = False
                res.add("C04.R3", key + " [naming shape]", True, f"the name evaluated on {n_ok} sample paths is the root directory's name + '.' + the relative path without the file suffix each time (the spelling has no normal form here)", wh, kind="decision-table")
                res.add("C04.R3", key + " [root maps to its own name]", True, "on the sample where the path is the source root, the name is the root directory's name", wh, kind="decision-table")
            elif d is None:
                readable = False
                res.undecide("C04.R3", key + " [naming shape]", f"cannot read `{show(v, 160)}` as a dotted name", wh)
            elif not _path_vocabulary(d, (rel[1], root, strip_abs(rel[1])), (root,)):
                readable = False
                res.undecide("C04.R3", key + " [naming shape]", f"cannot compare the name `{show_dotted(d)}` with `{show_dotted(want)}`", wh)
            else:
                if any(k_ == "item" and v_[0] == "attr" and v_[2] == FIRST_PART for k_, v_ in d):
                    why = "cuts the file name at its first '.', which is not where the suffix starts (`a.b.py`)"
                elif not d or (d[0] != want[0] and not (d[0][0] == "parts" and want[0][0] == "parts" and d[0][1][0] == "REL" and want[0][1][0] == "REL" and d[0][1][2] == want[0][1][2])):
                    why = "does not start with the root directory's name"
                else:
                    why = "is not the path relative to the root with the suffix removed, one component per path part"
                res.add("C04.R3", key + " [naming shape]", False, f"the module name is `{show_dotted(d)}`: it {why} (expected `{show_dotted(want)}`)", wh, kind="structural")
        else:
            res.add("C04.R3", key + " [naming shape]", True, "name = root directory name + '.' + relative path without suffix, one component per path part", wh, kind="structural")
        # ---- the root itself
        tests = _root_tests(sx, [g for g, _ in alts], rel, root)

        def as_root(f: Formula) -> Formula:
            return rename_atoms(f, lambda k: (atom("ROOT") if tests[k] else f_not(atom("ROOT"))) if k in tests else None)

        if not readable:
            continue
        if not rootcase:
            ok = False
            detail = "the source root itself is not named by its own directory name (no case for it: the general form fails, appends an empty component or removes a suffix from the directory name)"
        else:
            g_root = as_root(f_or([g for g, _v in rootcase]))
            g_gen = as_root(f_or([g for g, _v in general])) if general else FALSE
            known = as_root(reg.known)
            ok = implies(f_and([known, atom("ROOT")]), g_root) and implies(f_and([known, g_root]), atom("ROOT")) and implies(f_and([known, g_gen]), f_not(atom("ROOT")))
            unread = sorted((atoms_of(g_root) | atoms_of(g_gen)) - atoms_of(known) - {"ROOT"})
            if not ok and (unread or not tests):
                res.undecide("C04.R3", key + " [root maps to its own name]", f"cannot read `{(unread or sorted(atoms_of(g_root)))[0][:140]}` as the test 'the path is the source root'", wh)
                continue
            detail = "the root directory itself is named by its directory name" if ok else f"the source root is not named by its own directory name exactly when the relative path is empty (root case under `{show_formula(g_root)[:120]}`)"
        res.add("C04.R3", key + " [root maps to its own name]", ok, detail, wh, kind="dominance")
    res.floor("C04.R3", 1, done)


# =========================================================================== R4


def _slice_of(t: Term):
    """(sequence, lower, upper) of `s[lo:hi]` with constant bounds (None when absent); (t, None, None) for a plain sequence."""
    if t[0] == "slice" and is_const(t[4], None) and all(x[0] == "const" and (x[1] is None or isinstance(x[1], int)) for x in (t[2], t[3])):
        return _mapped_source(t[1]), t[2][1], t[3][1]
    if t[0] == "call" and t[1] == ("lib", "itertools.islice") and len(t[2]) in (2, 3) and all(x[0] == "const" and (x[1] is None or isinstance(x[1], int)) for x in t[2][1:]):
        if len(t[2]) == 2:
            return _mapped_source(t[2][0]), None, t[2][1][1]
        return _mapped_source(t[2][0]), t[2][1][1], t[2][2][1]
    return _mapped_source(t), None, None


def _mapped_source(t: Term) -> Term:
    """`[f(x) for x in s]` (no filter) has one element per element of `s`, in the same order: positions in it are positions in s."""
    u = t
    while True:
        if u[0] == "box" and u[3][0] in ("call", "comp"):
            u = u[3]
        elif u[0] == "call" and u[1] in (("builtin", "list"), ("builtin", "tuple")) and len(u[2]) == 1:
            u = u[2][0]
        else:
            break
    if u[0] == "comp" and u[1] in ("list", "gen") and len(u[3]) == 1 and not [c for c in u[3][0][2] if c != TRUE]:
        return _mapped_source(u[3][0][1])
    if u[0] == "call" and u[1] == ("builtin", "map") and len(u[2]) == 2:
        return _mapped_source(u[2][1])
    if u[0] in ("binop", "list", "tuple"):
        # `[f(x) for x in p] + [f(y)]` is `[f(z) for z in p + [y]]`: positions in it are positions in `p + [y]`
        parts = seq(u)
        mapped = [c for k, x in parts if k == "many" and (c := _comp_of(x)) is not None and c[0] != c[1]]
        if len(parts) >= 2 and mapped:
            elt, tgt, _src = mapped[0]
            acc: Term | None = None
            for kind, x in parts:
                if kind == "many":
                    c = _comp_of(x)
                    if c is None or _match(elt, c[0], tgt) != c[1]:
                        return t
                    piece = _mapped_source(c[2])
                else:
                    y = _match(elt, x, tgt)
                    if y is None:
                        return t
                    piece = ("list", (y,))
                acc = piece if acc is None else ("binop", "+", acc, piece)
            assert acc is not None
            return acc
    return t


def _comp_of(t: Term):
    """(element, target, source) of an unfiltered comprehension with one generator (through list() / tuple() and containers)."""
    u = t
    while True:
        if u[0] == "box" and u[3][0] in ("call", "comp"):
            u = u[3]
        elif u[0] == "call" and u[1] in (("builtin", "list"), ("builtin", "tuple")) and len(u[2]) == 1:
            u = u[2][0]
        else:
            break
    if u[0] == "comp" and u[1] in ("list", "gen") and len(u[3]) == 1 and not [c for c in u[3][0][2] if c != TRUE]:
        return u[2], u[3][0][0], u[3][0][1]
    return None


def _match(pattern: Term, value: Term, var: Term):
    """The term that `var` must stand for to make `pattern` equal to `value` (None if there is none or `var` does not occur)."""
    found: list = []

    def go(p_, v_) -> bool:
        if p_ == var:
            found.append(v_)
            return True
        if isinstance(p_, tuple) and isinstance(v_, tuple) and len(p_) == len(v_):
            return all(go(a_, b_) for a_, b_ in zip(p_, v_))
        return p_ == v_

    if go(pattern, value) and found and all(f_ == found[0] for f_ in found):
        return found[0]
    return None


def _slice_len(lo, hi):
    """c such that len(s[lo:hi]) == len(s) + c for sequences that are long enough (lo >= 0, hi <= 0 or absent); None otherwise."""
    lo = lo or 0
    if lo < 0 or (hi is not None and hi > 0):
        return None
    return -lo + (hi or 0)


def _len_offset(t: Term, s: Term):
    """c if `t` is `len(s) + c` (also through `len(s[lo:hi])`), else None."""
    if t[0] == "binop" and t[1] in ("+", "-") and t[3][0] == "const" and isinstance(t[3][1], int):
        inner = _len_offset(t[2], s)
        return None if inner is None else inner + (t[3][1] if t[1] == "+" else -t[3][1])
    if t[0] == "call" and t[1] == ("builtin", "len") and len(t[2]) == 1:
        base, lo, hi = _slice_of(t[2][0])
        if base == s:
            return _slice_len(lo, hi)
        parts = seq(s)
        if len(parts) == 2 and parts[0] == ("many", base) and parts[1][0] == "one":
            # s = p + [x]: len(p) == len(s) - 1
            c = _slice_len(lo, hi)
            return None if c is None else c - 1
        if len(parts) == 2 and parts[0][0] == "one" and parts[1][0] == "many" and _slice_of(parts[1][1])[0] == base:
            # s = [x] + q: len(q) == len(s) - 1
            c = _slice_len(lo, hi)
            return None if c is None else c - 1
    return None


def _reversed_of(s: Term):
    """The sequence that `s` is the reverse of (`reversed(q)`, `q[::-1]`, `[x] + reversed(p)` = reversed(p + [x])), else None."""
    u = s
    while u[0] == "call" and u[1] in (("builtin", "list"), ("builtin", "tuple")) and len(u[2]) == 1:
        u = u[2][0]
    if u[0] == "call" and u[1] == ("builtin", "reversed") and len(u[2]) == 1:
        return _mapped_source(u[2][0])
    if u[0] == "slice" and is_const(u[2], None) and is_const(u[3], None) and is_const(u[4], -1):
        return _mapped_source(u[1])
    if u[0] == "binop":
        parts = seq(u)
        if len(parts) == 2 and parts[0][0] == "one" and parts[1][0] == "many":
            r = _reversed_of(parts[1][1])
            if r is not None:
                return ("binop", "+", r, ("list", (parts[0][1],)))
    return None


def _forward(pos):
    """A position in a reversed sequence as a position in the sequence itself: with the iterations counted from the last
    to the first, element j + off of reversed(s) is element j' - off - c of s (the same iterations, in the opposite order)."""
    if pos is None:
        return None
    s_, k, off, c = pos
    r = _reversed_of(s_)
    if r is None:
        return pos
    return (r, k, -off - c, c)


def _rebase(pos, s: Term):
    """The position expressed over the sequence `s` when it is written over the prefix p of s = p + [x] (element j of p is
    element j of s; p has one element less)."""
    if pos is None:
        return None
    if pos[0] == s:
        return pos
    parts = seq(s)
    if len(parts) == 2 and parts[0] == ("many", pos[0]) and parts[1][0] == "one":
        return (s, pos[1], pos[2], pos[3] - 1)
    return None


def _counter(i: Term):
    """(loop id, a, stop term or None, sequence whose length bounds the loop or None) if the integer `i` is `j + a` for the
    iteration counter j = 0, 1, ... of a loop."""
    off = 0
    while i[0] == "binop" and i[1] in ("+", "-") and i[3][0] == "const" and isinstance(i[3][1], int):
        off += i[3][1] if i[1] == "+" else -i[3][1]
        i = i[2]
    if i[0] == "elem" and i[1][0] == "call" and i[1][1] == ("builtin", "range") and not i[1][3]:
        args = i[1][2]
        if len(args) == 1:
            return i[2], off, ("const", 0), args[0]
        if len(args) == 2 and args[0][0] == "const" and isinstance(args[0][1], int):
            return i[2], off + args[0][1], args[0], args[1]
    return None


def _chain_pos(t: Term):
    return _forward(_chain_pos_raw(t))


def _chain_pos_raw(t: Term):
    """(sequence s, loop id, offset, c): `t` is s[j + offset] in iteration j = 0 .. len(s) + c - 1 of the loop; None if not of that form.

    Covers `for x in s[lo:hi]`, `zip(s[:-1], s[1:])`, `zip(s, s[1:])`, `zip(p, p[1:] + [x])`, `itertools.pairwise(s)`,
    `for i in range(..): s[i + k]` and `enumerate`."""
    if t[0] == "elem":
        src, k = t[1], t[2]
        if src[0] == "call" and src[1] in (("builtin", "zip"), ("builtin", "enumerate"), ("builtin", "range")):
            return None
        s_, lo, hi = _slice_of(src)
        c = _slice_len(lo, hi)
        if c is None:
            return None
        return s_, k, lo or 0, c
    if t[0] == "idx":
        base, i = t[1], t[2]
        if base[0] == "elem" and base[1][0] == "call" and i[0] == "const" and i[1] in (0, 1):
            it = base[1]
            if it[1] == ("builtin", "zip") and len(it[2]) == 2:
                a, b = _slice_of(it[2][0]), _slice_of(it[2][1])
                ca, cb = _slice_len(a[1], a[2]), _slice_len(b[1], b[2])
                if a[0] == b[0] and ca is not None and cb is not None:
                    mine = (a, b)[i[1]]
                    return mine[0], base[2], mine[1] or 0, min(ca, cb)
                # zip(p, p[1:] + [x]) walks the consecutive pairs of p + [x]
                tail = seq(it[2][1])
                if a[1:] == (None, None) and len(tail) == 2 and tail[0][0] == "many" and _slice_of(tail[0][1]) == (a[0], 1, None) and tail[1][0] == "one":
                    return ("binop", "+", a[0], ("list", (tail[1][1],))), base[2], i[1], -1
                return None
            if it[1][0] == "lib" and it[1][1].endswith("pairwise") and len(it[2]) == 1:
                return it[2][0], base[2], i[1], -1
            return None
        cnt = _counter(i)
        if cnt is not None:
            k, off, start, stop = cnt
            base = _mapped_source(base)
            c = _len_offset(stop, base)
            if c is None:
                return None
            return base, k, off, c - start[1]
    return None


def _index_span(pos):
    """(first index, last index relative to len(s)) visited by a position: e.g. (0, -2) = s[0] .. s[len-2]."""
    _s, _k, off, c = pos
    return (off, c + off - 1)


def _covers_all_pairs(parent, child) -> bool:
    """The loop visits (s[j], s[j+1]) for every j in 0 .. len(s) - 2."""
    if parent[0] != child[0] or parent[1] != child[1] or child[2] != parent[2] + 1:
        return False
    return parent[2] == 0 and parent[3] == -1 and child[3] == -1


MUTATING_LIST_METHODS = {"append", "extend", "insert", "pop", "remove", "clear", "sort", "reverse", "appendleft"}


class _Names:
    """Classification of the name symbols a node / edge end is made from."""

    def __init__(self, modules_param: str, imports_param: str) -> None:
        self.modules = ("param", modules_param)
        self.imports = ("param", imports_param)

    def _is_iter_of(self, t: Term, param: Term) -> bool:
        src = t
        while src[0] == "call" and src[1] in (("builtin", "list"), ("builtin", "tuple"), ("builtin", "sorted"), ("builtin", "iter")) and len(src[2]) == 1:
            src = src[2][0]
        return src == param

    def _is_element_of(self, t: Term, param: Term) -> bool:
        """`t` is an element of the parameter: the variable of a loop over it, or `param[i]` for an index running over all of it."""
        if t[0] == "elem":
            return self._is_iter_of(t[1], param)
        if t[0] == "idx" and self._is_iter_of(t[1], param):
            cnt = _counter(t[2])
            return cnt is not None and cnt[1] == 0 and is_const(cnt[2], 0) and _len_offset(cnt[3], t[1]) == 0
        return False

    def symbol(self, t: Term):
        """(kind, detail) for a term that *is* a name symbol, else None."""
        if t[0] == "elem" and self._is_iter_of(t[1], self.modules):
            return ("SCANNED", t)
        if t[0] == "idx" and self._is_iter_of(t[1], self.modules):
            cnt = _counter(t[2])
            if cnt is not None and cnt[1] == 0 and is_const(cnt[2], 0) and _len_offset(cnt[3], t[1]) == 0:
                return ("SCANNED", t)  # modules[i] for i in range(len(modules))
        if t[0] == "mcall" and t[2] in ("importer", "importee", "importer_parent_modules", "importee_parent_modules") and self._is_element_of(t[1], self.imports):
            return ("IMPORTEE" if t[2].startswith("importee") else "IMPORTER", t)
        pos = _chain_pos(t)
        if pos is not None:
            inner = self.sources(pos[0])
            kinds = {k for k, _ in inner}
            if kinds:
                kind = "IMPORTEE" if "IMPORTEE" in kinds else "IMPORTER" if "IMPORTER" in kinds else "SCANNED" if kinds == {"SCANNED"} else "OTHER"
                return (kind + "-CHAIN", t)
        return None

    def sources(self, t: Term) -> list:
        """Name symbols a value is derived from (outermost symbols only)."""
        out: list = []

        def visit(x: Term) -> None:
            s = self.symbol(x)
            if s is not None:
                if s not in out:
                    out.append(s)
                return
            if x[0] in ("elem", "loopvar") :
                s2 = ("OTHER", x)
                if s2 not in out:
                    out.append(s2)
                return
            from .c04_symx import map_children

            if x[0] == "slice":
                visit(x[1])  # `name[:n]`: the bounds of a slice are positions, they contribute no characters of a name
                return
            map_children(x, lambda y: (visit(y), y)[1])

        visit(t)
        return out


def _graph_state_atoms(sx: SymX, f: Formula, graph: Term, config: set[str], ends: tuple = ()) -> set[str]:
    """Atoms that only look at the graph built so far, at configuration parameters, or compare the two ends of an edge."""
    ok = set()
    for key in atoms_of(f):
        t = sx.atoms.get(key)
        if t is None:
            continue
        if t[0] == "cmp" and t[1] == "==" and len(ends) == 2 and {t[2], t[3]} == set(ends):
            ok.add(key)  # an edge from a node to itself is never created
            continue
        subs = list(subterms(t))
        if any(x[:2] == graph[:2] for x in subs):
            ok.add(key)
            continue
        params = {x[1] for x in subs if x[0] == "param"}
        if params and params <= config and not any(x[0] in ("elem", "loopvar", "mcall") for x in subs):
            ok.add(key)
    return ok


def _is_presence_test(t: Term | None, x: Term, graph: Term, exact: bool = False) -> bool:
    """`x in graph` / `graph.has_node(x)` (also on `graph.nodes`); unless `exact`, also such a test on one alternative of a chosen
    name (`raw if limit is None else flattened`), which the executor tests alternative by alternative."""
    if t is None:
        return False
    same = (x,) + (tuple(v for _g, v in x[1]) if x[0] == "phi" and not exact else ())
    if t[0] == "cmp" and t[1] == "in" and t[2] in same:
        return any(y[:2] == graph[:2] for y in subterms(t[3]))
    if t[0] == "mcall" and t[2] == "has_node" and len(t[3]) == 1 and t[3][0] in same:
        return t[1][:2] == graph[:2]
    return False


def _is_node_test(t: Term, graph: Term) -> bool:
    """`<name> in graph` / `graph.has_node(<name>)` for any name."""
    if t[0] == "cmp" and t[1] == "in":
        return t[3][:2] == graph[:2] or t[3][0] == "attr" and t[3][1][:2] == graph[:2]
    return t[0] == "mcall" and t[1][:2] == graph[:2] and t[2] == "has_node"


def _is_edge_test(t: Term, graph: Term) -> bool:
    """A test about an *edge* of the graph (has_edge / get_edge_data / the inherits flag of an existing edge)."""
    for y in subterms(t):
        if y[0] == "mcall" and y[1][:2] == graph[:2] and y[2] in ("has_edge", "get_edge_data", "has_successor", "has_predecessor"):
            return True
    return False


def _holds_whenever_state_allows(f: Formula, free: set[str]) -> bool:
    """True if for every valuation of the other atoms some valuation of the `free` atoms makes `f` true."""
    names = sorted(atoms_of(f))
    others = [n for n in names if n not in free]
    fr = [n for n in names if n in free]
    if len(names) > 14:
        return False
    for ov in itertools.product([False, True], repeat=len(others)):
        env = dict(zip(others, ov))
        if not any(evaluate(f, {**env, **dict(zip(fr, fv))}) for fv in itertools.product([False, True], repeat=len(fr))):
            return False
    return True


def _ancestors_function(repo: Repo, T) -> FuncInfo | None:
    """The function that computes all parent modules of a dotted name: by role, it is what the public `Import.importer_parent_modules()`
    returns for `Import(importer)`; falls back to the name it has today."""
    imp = repo.modules.get(TYPES)
    ci = imp.classes.get("Import") if imp is not None else None
    if ci is not None:
        init = ci.methods.get("__init__")
        acc = ci.methods.get("importer_parent_modules")
        if init is not None and acc is not None and len(init.param_names) >= 2:
            try:
                sx = SymX(repo, T, policy=lambda caller, callee: False)
                tr = sx.run(init)
                heap = tr.final.heap if tr.final is not None else {}
                sx2 = SymX(repo, T, policy=lambda caller, callee: False)
                tr2 = sx2.run(acc, heap=heap)
                vals = {t for _pc, t in tr2.returns}
                if len(vals) == 1:
                    v = vals.pop()
                    if v[0] == "call" and v[1][0] == "fn" and v[2] == (("param", init.param_names[1]),):
                        return repo.funcs.get(v[1][1])
            except AnalysisError:
                pass
    return repo.find_func(TYPES, "get_parent_modules")


def _accessor_hands_out_cached_list(repo: Repo, accessor: str, gpm: FuncInfo) -> bool:
    """Every implementation of the Import accessor returns, uncopied, a field that was assigned the result of the ancestors function."""
    imp = repo.modules.get(TYPES)
    base = imp.classes.get("Import") if imp is not None else None
    if base is None:
        return False
    impls = [f for f in repo.implementations(base, accessor) if not f.is_abstract]
    if not impls:
        return False
    for f in impls:
        rets = [n for n in ast.walk(f.node) if isinstance(n, ast.Return)]
        if len(rets) != 1 or not (isinstance(rets[0].value, ast.Attribute) and isinstance(rets[0].value.value, ast.Name) and rets[0].value.value.id == f.param_names[0]):
            return False
        field_ = rets[0].value.attr
        assigned = [n for c in repo.mro(f.cls) for m in c.methods.values() for n in ast.walk(m.node) if isinstance(n, ast.Assign) and any(isinstance(t, ast.Attribute) and t.attr == field_ for t in n.targets)]
        if not assigned or not all(isinstance(n.value, ast.Call) and isinstance(n.value.func, (ast.Name, ast.Attribute)) and (n.value.func.id if isinstance(n.value.func, ast.Name) else n.value.func.attr) == gpm.name for n in assigned):
            return False
    return True


CONSTRUCTION_TAGS = ("[node", "every scanned module becomes a node", "ancestors of every scanned module", "[edge end from imported name")


def rule_r4(repo: Repo, res: Result) -> None:
    """The symbolic reading of the construction; where it cannot read the shape (or reads a defect into a shape it only half
    understands), the construction is tabulated on model inputs (rules/c04_model.py)."""
    scratch = Result("C04")
    _rule_r4_symbolic(repo, scratch)
    und = [u for u in scratch.undecided if u["rule"] == "C04.R4"]
    bad = [o for o in scratch.obligations if not o.ok]
    bad_construction = [o for o in bad if any(t in o.construct for t in CONSTRUCTION_TAGS)]
    verdict = detail = None
    if und or bad_construction:
        from . import c04_model

        g = repo.cls(NXGRAPH, "NetworkxGraph")
        init = g.methods.get("__init__")
        p = init.param_names if init is not None else []
        if len(p) >= 3:
            verdict, detail = c04_model.hierarchy_on_models(repo, g, p[1], p[2], p[3] if len(p) > 3 else None)
    g_ = repo.cls(NXGRAPH, "NetworkxGraph")
    init_ = g_.methods.get("__init__")
    tag = f"{init_.relpath if init_ is not None else NXGRAPH}::NetworkxGraph::nodes, hierarchy edges and import edges on model inputs"
    wh = where(init_, init_.node) if init_ is not None else ""
    partial = bool(und) and bool(bad) and len(bad_construction) == len(bad) and verdict is True
    if und and (not bad or partial) and verdict is not None:
        # the shape could not be read (what the reading still claims about a construction it gave up on - 'no node is created
        # from ..' next to an unread `add_nodes_from` - is no evidence); the meaning on the model inputs decides
        res.obligations += [o for o in scratch.obligations if o.ok]
        res.floors.update({k: v for k, v in scratch.floors.items() if v[1] >= v[0]})
        res.undecided += [u for u in scratch.undecided if u["rule"] != "C04.R4"]
        res.add("C04.R4", tag, verdict, detail + (f" (symbolic reading gave up: {und[0]['detail'][:160]})" if verdict else ""), wh, kind="decision-table")
        return
    # claims of the form 'I do not see that ..' (a condition the reading cannot interpret, a chain it does not recognise, nothing found)
    # are not evidence of a defect; 'an imported name becomes a node', 'inherits=False', 'the edge is requested before ..' are
    WEAK = ("is not unconditional", "additionally depends on", "the linked chain is", "does not visit every consecutive", "no node is created", "no hierarchy (inherits=True) edge is created", "it does not happen for", "are not created for every scanned module")
    STRONG = ("*imported* name", "imported name without testing", "inherits=", "is requested before", "is not made a node before the edge", "can be left early")
    weak_only = bool(bad) and len(bad_construction) == len(bad) and all(any(w in o.detail for w in WEAK) and not any(x in o.detail for x in STRONG) for o in bad)
    if weak_only and verdict is True:
        # the reading does not understand the construction, and on every model input the built graph is the demanded one
        res.obligations += [o for o in scratch.obligations if o.ok]
        res.floors.update({k: v for k, v in scratch.floors.items() if v[1] >= v[0]})
        res.undecided += [u for u in scratch.undecided if u["rule"] != "C04.R4"]
        res.add("C04.R4", tag, True, detail + f" (the symbolic reading could not follow the construction: {bad[0].detail[:160]})", wh, kind="decision-table")
        return
    if bad_construction and len(bad_construction) == len(bad) and verdict is True:
        # a defect read into a construction whose result is right on every model input: the reading is not trusted
        res.obligations += [o for o in scratch.obligations if o.ok]
        res.floors.update({k: v for k, v in scratch.floors.items() if v[1] >= v[0]})
        res.undecided += scratch.undecided
        res.undecide("C04.R4", tag, f"the symbolic reading reports `{bad[0].detail[:200]}`, but {detail[:200]}: the two do not agree, no verdict", wh)
        return
    if verdict is False and und and len(bad_construction) == len(bad):
        # a reading that gave up on part of the construction: the counterexample of the model is the evidence, not its guesses
        res.obligations += [o for o in scratch.obligations if o.ok]
    else:
        res.obligations += scratch.obligations
    res.floors.update(scratch.floors)
    res.undecided += scratch.undecided
    res.observations += scratch.observations
    if verdict is False:
        res.add("C04.R4", tag, False, detail, wh, kind="decision-table")  # a concrete input on which the built graph is wrong
    elif und and not bad and detail is not None:
        res.undecide("C04.R4", tag, f"the construction could not be tabulated on model inputs either: {detail[:240]}", wh)


def _rule_r4_symbolic(repo: Repo, res: Result) -> None:
    T = types_of(repo)
    g = repo.cls(NXGRAPH, "NetworkxGraph")
    init = g.methods.get("__init__")
    if init is None:
        raise AnalysisError("NetworkxGraph.__init__ not found")
    gpm = _ancestors_function(repo, T)
    if gpm is None:
        raise AnalysisError("the function computing the parent modules of a module (get_parent_modules, used by Import.importer_parent_modules) was not found")
    p = init.param_names
    if len(p) < 3:
        raise AnalysisError("NetworkxGraph.__init__(all_modules, imports, level_limit): signature not recognised")
    sx = SymX(repo, T, keep=lambda f: f.fq == gpm.fq)
    tr = sx.run(init)
    tag = f"{init.relpath}::NetworkxGraph"
    graphs = {e.result for e in tr.events if e.kind == "call" and e.func[0] == "lib" and e.func[1] in ("networkx.DiGraph", "networkx.Graph", "networkx.MultiDiGraph")}
    if len(graphs) != 1:
        res.undecide("C04.R4", f"{tag}::graph object", f"{len(graphs)} networkx graph objects are created during construction", where(init, init.node))
        return
    graph = graphs.pop()
    names = _Names(p[1], p[2])
    config = {p[3]} if len(p) > 3 else set()
    node_events: list[tuple[Event, Term]] = []
    edge_events: list[tuple[Event, Term, Term, Term | None]] = []
    bulk_nodes: list[tuple[Event, Term]] = []
    for e in tr.events:
        if e.recv is None or e.recv[:2] != graph[:2] or e.kind not in ("call", "mut"):
            continue
        if e.name == "add_node" and e.args:
            node_events.append((e, e.args[0]))
        elif e.name == "add_edge" and len(e.args) >= 2:
            inh = next((v for k, v in e.kwargs if k == "inherits"), None)
            edge_events.append((e, e.args[0], e.args[1], inh))
        elif e.name == "add_nodes_from" and len(e.args) == 1 and not e.kwargs:
            bulk_nodes.append((e, _mapped_source(e.args[0])))  # every element of the sequence becomes a node
        elif e.name in ("add_nodes_from", "add_edges_from", "add_weighted_edges_from", "update", "add_path"):
            res.undecide("C04.R4", repo.key(e.fi, stmt_of(e.node)) + f" [{e.name}]", "bulk graph construction is not analysed", where(e.fi, e.node))

    for e in tr.events:
        if e.kind == "call" and e.func[0] == "lib" and e.func[1].startswith("networkx.") and e.func[1].rsplit(".", 1)[-1] in ("add_path", "add_star", "add_cycle", "compose", "relabel_nodes") and any(a[:2] == graph[:2] for a in e.args):
            res.undecide("C04.R4", repo.key(e.fi, stmt_of(e.node)) + f" [{e.func[1]}]", "bulk graph construction is not analysed", where(e.fi, e.node))
    api = {"importer", "importee", "importer_parent_modules", "importee_parent_modules"}
    opaque = tr.opaque_calls(lambda e: e.func == ("fn", gpm.fq) or e.name in api)
    lost = f"the construction calls `{norm(opaque[0].node, 70)}`, which the analysis cannot follow" if opaque else ""

    # the hierarchy is asked for through `parent_child_relationship`: two names related by *characters* are not parent and child
    pcr = g.methods.get("parent_child_relationship")
    if pcr is not None and len(pcr.param_names) == 3:
        try:
            sxq = SymX(repo, T, first_id=50_000)
            trq = sxq.run(pcr)
            a_, b_ = ("param", pcr.param_names[1]), ("param", pcr.param_names[2])
            seen_q = [x for _pc, t in trq.returns for x in subterms(t)] + [x for k_ in sxq.atoms for x in subterms(sxq.atoms[k_])]
            for x in seen_q:
                if x[0] == "mcall" and x[2] == "startswith" and len(x[3]) == 1 and {x[1], x[3][0]} == {a_, b_}:
                    res.add("C04.R4", f"{pcr.relpath}::{pcr.qualname}::hierarchy read from the edges", False, f"`{show(x, 80)}` decides whether one module is the parent of another: by characters `pkg.ab` lies below `pkg.a`; the relation is the `inherits` flag of the edge, which the construction sets along the directory tree", where(pcr, pcr.node), kind="structural")
                    break
        except AnalysisError:
            pass

    # a memoised ancestors function hands out the same list object again and again: the graph builder must not change it in place
    if any("lru_cache" in d or d.rsplit(".", 1)[-1] == "cache" for d in gpm.decorators):
        for e in tr.events:
            if e.kind != "mut" or e.recv is None or e.name not in MUTATING_LIST_METHODS:
                continue
            r = e.recv
            shared = r[0] == "call" and r[1] == ("fn", gpm.fq) or r[0] == "mcall" and r[2] in ("importer_parent_modules", "importee_parent_modules") and _accessor_hands_out_cached_list(repo, r[2], gpm)
            if shared:
                res.add("C04.R4", repo.key(e.fi, stmt_of(e.node)) + " [shared ancestor list modified]", False, f"`{norm(e.node, 60)}` changes the list returned by the memoised `{gpm.name}` in place: every later request for the ancestors of that name gets the modified list, so graphs built afterwards in the same process link the wrong modules", where(e.fi, e.node), kind="flow")

    def unconditional(e: Event) -> tuple[bool, str]:
        """The node / edge is created whenever the graph does not contain it yet (edges: and contains both ends)."""
        f = f_and(e.pc)
        free = _graph_state_atoms(sx, f, graph, config, tuple(e.args[:2]) if e.name == "add_edge" else ())
        if any(l.early_exit and not l.exits_only_when_exhausted() for l in e.loops):
            l = next(l for l in e.loops if l.early_exit and not l.exits_only_when_exhausted())
            return False, f"the enclosing loop `{norm(l.node, 60).split(':')[0]}` can be left early (break / return)"
        # the state in which the creation matters: the node is absent / both ends are present, differ, and are not linked yet
        fixed: dict[str, bool] = {}
        ends = tuple(e.args[:2]) if e.name == "add_edge" else tuple(e.args[:1])
        end_sources = [names.sources(x) for x in ends]

        def is_end(x: Term) -> bool:
            # the same name, depth-limited or not
            return x in ends or (names.sources(x) in end_sources and bool(names.sources(x)))

        for key in free:
            t = sx.atoms.get(key)
            if t is None:
                continue
            if t[0] == "cmp" and t[1] == "in" and t[3][:2] == graph[:2] and is_end(t[2]):
                fixed[key] = e.name == "add_edge"
            elif t[0] == "mcall" and t[1][:2] == graph[:2] and t[2] == "has_node" and len(t[3]) == 1 and is_end(t[3][0]):
                fixed[key] = e.name == "add_edge"
            elif t[0] == "mcall" and t[1][:2] == graph[:2] and t[2] == "has_edge" and tuple(t[3]) == ends:
                fixed[key] = False
            elif t[0] == "cmp" and t[1] == "is" and is_const(t[3], None) and t[2][0] == "mcall" and t[2][1][:2] == graph[:2] and t[2][2] == "get_edge_data" and tuple(t[2][3]) == ends:
                fixed[key] = True
            elif t[0] == "cmp" and t[1] == "==" and e.name == "add_edge" and {t[2], t[3]} == set(ends):
                fixed[key] = False
        # `if key not in done: done.add(key); <create>`: a memo local to the construction - the creation happens the first time a
        # key is met, and a key that was met before stands for the same names (the ends are made of the key)
        for key in sorted(atoms_of(f)):
            t = sx.atoms.get(key)
            if key in fixed or t is None or not (t[0] == "cmp" and t[1] == "in" and t[3][0] == "box" and t[3][:2] != graph[:2] and t[3][1] not in sx.persistent):
                continue
            init_ = sx.box_init.get(t[3][1], t[3][3])
            if not (init_[0] in ("set", "list", "dict", "tuple") and not init_[1] or init_[0] == "call" and not init_[2] and not init_[3]):
                continue
            if len(atoms_of(f)) > 14 or not implies(f, f_not(atom(key))):
                continue
            writes = [ev for ev in tr.events if ev.kind in ("mut", "setitem", "delitem") and ev.recv is not None and ev.recv[0] == "box" and ev.recv[1] == t[3][1]]
            if not writes or not all(ev.kind == "mut" and ev.name in ("add", "append") and len(ev.args) == 1 and ev.args[0] == t[2] and len(atoms_of(f_and(ev.pc))) <= 14 and implies(f_and(ev.pc), f_not(atom(key))) for ev in writes):
                continue
            key_sources = names.sources(t[2])
            if all(s_ in key_sources for x in ends for s_ in names.sources(x)) and all(names.sources(x) for x in ends):
                fixed[key] = False
        f2 = simplify(substitute(f, fixed)) if fixed else f
        if _holds_whenever_state_allows(f2, free - set(fixed)):
            return True, ""
        extra = sorted(a for a in atoms_of(f2) if a not in free)
        if not extra:
            return False, f"it does not happen for a {'module that is not a node yet' if e.name == 'add_node' else 'pair of existing, not yet linked nodes'} (condition: `{show_formula(f2)[:160]}`)"
        return False, f"it additionally depends on `{' , '.join(extra)[:200]}`"

    # ---- no node from imported names (every node creation)
    k = 0
    for e, a in node_events:
        src = names.sources(a)
        kinds = sorted({s[0] for s in src})
        k += 1
        ok = not any(kd.startswith("IMPORTEE") for kd in kinds)
        if ok and (not kinds or any(kd.startswith("OTHER") for kd in kinds)):
            res.undecide("C04.R4", repo.key(e.fi, stmt_of(e.node)) + " [node]", f"cannot tell which names `{show(a, 100)}` stands for (scanned modules, importers or imported names)", where(e.fi, e.node))
            continue
        res.add("C04.R4", repo.key(e.fi, stmt_of(e.node)) + f" [node from {kinds or ['?']}]", ok, "nodes are created from scanned modules / importers and their ancestors" if ok else f"`{norm(e.node, 60)}` creates a node from an *imported* name ({show(next(s[1] for s in src if s[0].startswith('IMPORTEE')), 100)}): names that are not files or directories of the scanned tree (relative import parts, functions, classes) become modules", where(e.fi, e.node), kind="flow")
    if not opaque and not any(u["rule"] == "C04.R4" for u in res.undecided):
        res.floor("C04.R4.nodes", 2, k)
    # networkx creates missing end nodes of an edge: an edge that involves an imported name must be guarded by 'both ends are nodes'
    for e, a, b, _inh in edge_events:
        ends = [x for x in (a, b) if any(s_[0].startswith("IMPORTEE") for s_ in names.sources(x))]
        if not ends:
            continue
        f = f_and(e.pc)
        missing = []
        too_big = False
        for x in ends:
            # `x in graph` / `graph.has_node(x)` / `x in graph.nodes`, evaluated alternative by alternative for a chosen name
            tests_ = [sx.truth(("cmp", "in", x, graph)), sx.truth(("mcall", graph, "has_node", (x,), ())), sx.truth(("cmp", "in", x, ("attr", graph, "nodes")))]
            if any(len(atoms_of(f) | atoms_of(t_)) > 16 for t_ in tests_):
                too_big = True
                continue
            if not any(implies(f, t_) for t_ in tests_):
                present = [key for key in atoms_of(f) if _is_presence_test(sx.atoms.get(key), x, graph, exact=True)]  # (a test of one alternative does not cover the others)
                if not any(implies(f, atom(key)) for key in present):
                    missing.append(x)
        ok = not missing
        kinds_ = sorted({s_[0] for x in ends for s_ in names.sources(x)})
        unread = [key for key in atoms_of(f) if (t_ := sx.atoms.get(key)) is not None and any(y[:2] == graph[:2] for y in subterms(t_)) and not _is_node_test(t_, graph) and not _is_edge_test(t_, graph)]
        if too_big or (not ok and unread):
            res.undecide("C04.R4", repo.key(e.fi, stmt_of(e.node)) + f" [edge end from imported name: {', '.join(kinds_)}]", "the condition of the edge creation is too large to decide whether both ends are tested to be nodes" if too_big else f"cannot tell whether `{unread[0][:120]}` tests that both ends are nodes", where(e.fi, e.node))
            continue
        res.add("C04.R4", repo.key(e.fi, stmt_of(e.node)) + f" [edge end from imported name: {', '.join(kinds_)}]", ok, "edges to imported names are only added between existing nodes" if ok else f"`{norm(e.node, 60)}` adds an edge whose end `{show(missing[0], 80)}` comes from an imported name without testing that it is a node: networkx creates the missing node, so functions / classes / unresolved names become modules", where(e.fi, e.node), kind="dominance")
    # ---- the hierarchy of every scanned module: get_parent_modules(module) + [module]
    def chain_of(pos):
        """(module symbol, 'full' | 'parents') if the position walks the ancestor chain of a scanned module."""
        parts = seq(pos[0])
        if len(parts) == 2 and parts[0][0] == "many" and parts[1][0] == "one":
            anc, mod = parts[0][1], parts[1][1]
            full = True
        elif len(parts) == 1 and parts[0][0] == "many":
            anc, mod, full = parts[0][1], None, False
        else:
            return None
        if not (anc[0] == "call" and anc[1] == ("fn", gpm.fq) and len(anc[2]) == 1):
            return None
        if mod is None:
            mod = anc[2][0]
        sym = names.symbol(mod)
        if anc[2] != (mod,) or sym is None or sym[0] != "SCANNED":
            return None
        return mod, "full" if full else "parents"

    # which members of the chain become nodes / which scanned modules become nodes directly
    direct = [(e, a) for e, a in node_events if [s_[0] for s_ in names.sources(a)] == ["SCANNED"]]
    child_ok, child_why = False, "no node is created from the elements of the module list"
    for e, _a in direct:
        okc, why = unconditional(e)
        if okc:
            child_ok = True
            break
        child_why = why
    for e, seq_ in bulk_nodes:
        if names._is_iter_of(seq_, names.modules) and unconditional(e)[0]:
            child_ok = True
    parents_ok, parents_why = False, "no node is created for the ancestors of a scanned module (packages without own files are missing)"
    # which elements of the ancestor chain (ancestors + [module], indices 0 .. -1) are made nodes, by whatever means
    spans: list[tuple[int, int]] = []  # (first index, last index relative to the end) in coordinates of the full chain
    creations: list[tuple[Event, Term]] = list(node_events)
    for e, a, b, _inh in edge_events:
        # networkx makes the ends of an edge nodes itself: an end that the edge creation does not test for presence is created by it
        tests_ = [t_ for k_ in atoms_of(f_and(e.pc)) if (t_ := sx.atoms.get(k_)) is not None and _is_node_test(t_, graph)]
        for x in (a, b):
            if not tests_ or (not any(_is_presence_test(t_, x, graph) for t_ in tests_) and all(any(_is_presence_test(t_, y, graph) for y in (a, b)) for t_ in tests_)):
                creations.append((e, x))
    for e, a in creations:
        pos = _sym_pos(names, a)
        single = None
        one = _const_element(a)
        if one is not None and chain_of((one[0], 0, 0, 0)) is not None:
            pos, single = (one[0], 0, 0, 0), one[1]  # `chain[0]`: one element of the chain
        if pos is None:
            continue
        ch = chain_of(pos)
        if ch is None:
            continue
        okc, why = unconditional(e)
        if not okc:
            if not parents_ok:
                parents_why = why
            continue
        shift = 0 if ch[1] == "full" else -1  # a position in the ancestors alone ends one element before the module
        if single is not None:
            spans.append((single, single) if single >= 0 else (single + shift, single + shift))
        else:
            f_, l_ = _index_span(pos)
            spans.append((f_, l_ + shift))
    for e, seq_ in bulk_nodes:
        ch = chain_of((seq_, 0, 0, 0))
        if ch is not None and unconditional(e)[0]:
            spans.append((0, -1 if ch[1] == "full" else -2))  # `add_nodes_from(chain)`
    covers_first = any(f_ == 0 for f_, _l in spans)
    covers_rest = any(f_ <= 1 and l_ <= -1 and l_ >= -2 for f_, l_ in spans)
    if covers_first and covers_rest:
        parents_ok, parents_why = True, ""
    if any(f_ == 0 and l_ == -1 for f_, l_ in spans):
        child_ok = True  # (a position that starts at the second element does not reach a module without ancestors)
    e0 = direct[0][0] if direct else None
    unknown_nodes = [e_ for e_, a_ in node_events if not names.sources(a_) or any(s_[0].startswith("OTHER") for s_ in names.sources(a_))]
    if not child_ok and not direct and unknown_nodes:
        res.undecide("C04.R4", f"{tag}::every scanned module becomes a node", f"cannot tell which names `{norm(unknown_nodes[0].node, 60)}` creates nodes for", where(unknown_nodes[0].fi, unknown_nodes[0].node))
        child_ok = None
    elif not child_ok and (opaque or "type(" in child_why or "isinstance(" in child_why):
        res.undecide("C04.R4", f"{tag}::every scanned module becomes a node", lost or f"cannot interpret the condition of the node creation ({child_why})", where(e0.fi, e0.node) if e0 else where(init, init.node))
        child_ok = None
    if child_ok is not None:
        res.add("C04.R4", f"{tag}::every scanned module becomes a node", child_ok, "every element of the module list becomes a node" if child_ok else f"not every scanned module becomes a node: {child_why}", where(e0.fi, e0.node) if e0 else where(init, init.node), kind="structural")
    # consecutive inherits edges
    order = {id(ev): i for i, ev in enumerate(tr.events)}
    inherit_edges = [(e, a, b, inh) for e, a, b, inh in edge_events if inh is not None and not is_const(inh, False)]
    best = None
    unreadable: list = []
    for e, a, b, inh in edge_events:
        pa, pb = _sym_pos(names, a), _sym_pos(names, b)
        if pa is not None and pb is not None and pa[0] != pb[0]:
            pa = _rebase(pa, pb[0])  # `for i, parent in enumerate(parents): ... chain[i + 1]` with chain = parents + [module]
        if pa is None or pb is None or pa[0] != pb[0]:
            continue
        if {s_[0] for s_ in names.sources(pa[0])} != {"SCANNED"}:
            continue
        problems = []
        ch = chain_of(pa)
        if ch is None or ch[1] != "full":
            if not any(x[0] == "call" and x[1] == ("fn", gpm.fq) for x in subterms(pa[0])):
                unreadable.append((e, pa[0]))
                continue
            problems.append(f"the linked chain is `{show(pa[0], 100)}`, not get_parent_modules(module) + [module] of the scanned module")
        if not _covers_all_pairs(pa, pb):
            problems.append("the loop does not visit every consecutive (parent, child) pair of the chain")
        if not (inh is not None and is_const(inh, True)):
            problems.append(f"the edge is created with inherits={show(inh, 30) if inh is not None else 'its default'}, not inherits=True")
        okc, why = unconditional(e)
        if not okc:
            problems.append(f"the edge creation is not unconditional: {why}")
        # the edge is only added between existing nodes: the parent's node must be created before, not after the edge is requested
        same_step = [ne for ne, na in node_events if (pn := _sym_pos(names, na)) is not None and _rebase(pn, pa[0]) is not None and _rebase(pn, pa[0])[:3] == pa[:3]]
        if same_step and all(order[id(ne)] > order[id(e)] for ne in same_step) and any(_is_node_test(t_, graph) for k_ in atoms_of(f_and(e.pc)) if (t_ := sx.atoms.get(k_)) is not None):
            problems.append("the hierarchy edge is requested before the parent's node is created: the edge is skipped because one of its ends is not a node yet")
        # _create_edge-style guards drop an edge whose ends are not both nodes: each tested end must have been made a node on the way
        unknown_end = None
        for x, px, role in ((a, pa, "parent"), (b, pb, "child")):
            cov = _end_is_node(sx, names, graph, e, x, px, node_events, bulk_nodes, order, chain_of)
            if cov is False and (opaque or unknown_nodes or any(u["rule"] == "C04.R4" for u in res.undecided)):
                cov = None
            if cov is False:
                problems.append(f"the {role} end `{show(x, 60)}` of the hierarchy edge is not made a node before the edge is requested (it is only tested with has_node): for the first module below a package chain the edge between two of its ancestors is silently dropped, and a scan that yields a single module two or more levels below the root never gets it")
            elif cov is None and unknown_end is None:
                unknown_end = f"cannot tell whether the {role} end `{show(x, 60)}` of the hierarchy edge `{norm(e.node, 60)}` is a node when the edge is requested"
        cand = (len(problems), e, problems, unknown_end)
        if best is None or cand[0] < best[0]:
            best = cand
    ctag = f"{tag}::ancestors of every scanned module: nodes and consecutive parent->child hierarchy edges"
    if best is None:
        rec = _recursive_hierarchy(sx, tr, names, gpm, graph, config, node_events, edge_events)
        if rec is not None:
            ok_r, detail_r, e_r = rec
            res.add("C04.R4", ctag, ok_r, detail_r, where(e_r.fi, e_r.node), kind="structural")
            return
    if best is None and unreadable:
        e, chain = unreadable[0]
        res.undecide("C04.R4", ctag, f"the ancestors linked by `{norm(e.node, 60)}` are `{show(chain, 100)}`: not computed by get_parent_modules, cannot tell whether they are all ancestors", where(e.fi, e.node))
        return
    if best is None:
        if inherit_edges:
            e = inherit_edges[0][0]
            res.undecide("C04.R4", ctag, f"cannot recognise how `{norm(e.node, 60)}` links a scanned module to its ancestors", where(e.fi, e.node))
        elif opaque:
            res.undecide("C04.R4", ctag, lost, where(opaque[0].fi, opaque[0].node))
        else:
            res.add("C04.R4", ctag, False, "no hierarchy (inherits=True) edge is created between a scanned module and its ancestors", where(init, init.node), kind="structural")
        return
    _n, e, problems, unknown_end = best
    if not parents_ok and opaque and parents_why.startswith("no node is created"):
        res.undecide("C04.R4", ctag, lost, where(opaque[0].fi, opaque[0].node))
        return
    if not problems and parents_ok and unknown_end is not None:
        res.undecide("C04.R4", ctag, unknown_end, where(e.fi, e.node))
        return
    if not parents_ok:
        problems = problems + [f"the ancestor nodes are not created for every scanned module: {parents_why}"]
    ok = not problems
    res.add("C04.R4", ctag, ok, "every scanned module is linked to all its ancestors: each consecutive (ancestor, descendant) pair gets a node and an inherits=True edge" if ok else "scanned modules are not linked to all their ancestors: " + "; ".join(problems), where(e.fi, e.node), kind="structural")


def _const_element(a: Term):
    """(sequence, index) if the name is made from `sequence[<constant index>]` and from nothing else that varies."""
    found = {(x[1], x[2][1]) for x in subterms(a) if x[0] == "idx" and x[2][0] == "const" and isinstance(x[2][1], int) and not isinstance(x[2][1], bool) and x[1][0] not in ("mcall", "elem", "idx")}
    if len(found) != 1:
        return None
    seq_, index = next(iter(found))
    return _mapped_source(seq_), index


def _end_is_node(sx: SymX, names: "_Names", graph: Term, e: Event, x: Term, px, node_events, bulk_nodes, order, chain_of):
    """True: the end `x` (at chain position `px`) of the edge event `e` has been made a node whenever the event is reached, or the
    event does not test it (networkx creates missing ends itself); False: it is tested but none of the node creations seen covers
    it; None: cannot tell."""
    f = f_and(e.pc)
    tests = [t_ for k_ in atoms_of(f) if (t_ := sx.atoms.get(k_)) is not None and _is_node_test(t_, graph)]
    if not tests:
        return True
    mine = [t_ for t_ in tests if _is_presence_test(t_, x, graph)]
    if not mine:
        # some node is tested, but not recognisably this end
        other = [t_ for t_ in tests if not any(_is_presence_test(t_, y, graph) for y in e.args[:2])]
        return None if other else True
    k = px[1]
    span = _index_span(px)
    ch = chain_of(px)
    src_x = names.sources(x)
    raw_x = _chain_pos_raw(src_x[0][1]) if len(src_x) == 1 else None
    backwards = raw_x is not None and _reversed_of(raw_x[0]) is not None  # the loop walks the chain from its end
    handed_over = False  # the element was made a node one iteration earlier (as the other end); the first iteration needs its own
    first_index = span[1] if backwards else span[0]

    def made_before_loop(index: int) -> bool:
        for ne2, na2 in node_events:
            if order[id(ne2)] > order[id(e)] or any(l.id == k for l in ne2.loops):
                continue
            if index == -1 and ch is not None and (na2 == ch[0] or [s_[1] for s_ in names.sources(na2)] == [ch[0]]):
                return True
            one = _const_element(na2)
            if one is not None and chain_of((one[0], 0, 0, 0)) is not None and one[1] == index and (one[0] == px[0] or index >= 0 and _rebase((one[0], k, 0, 0), px[0]) is not None):
                return True  # `chain[0]` / `chain[-1]` made a node by itself
            p2 = _sym_pos(names, na2)
            if p2 is not None:
                p2 = p2 if p2[0] == px[0] else _rebase(p2, px[0])
                if p2 is not None:
                    s2 = _index_span(p2)  # an earlier loop over (a part of) the chain
                    if (s2[0] <= index) if index >= 0 else (s2[1] >= index):
                        return True
        return False

    for ne, na in node_events:
        if order[id(ne)] > order[id(e)]:
            continue
        pn = _sym_pos(names, na)
        if pn is not None:
            pr = pn if pn[0] == px[0] else _rebase(pn, px[0])
            if pr is None:
                continue
            if pr[1] == k:
                if pr[2] == px[2]:
                    return True  # the same element, earlier in the same iteration
                if pr[2] == px[2] + (-1 if backwards else 1):
                    handed_over = True
            elif not any(l.id == k for l in ne.loops):
                sn = _index_span(pr)
                if sn[0] <= span[0] and sn[1] >= span[1]:
                    return True  # an earlier loop made all of them nodes
        elif ch is not None and span == (-1, -1) and na == ch[0]:
            return True  # the module itself, made a node before its hierarchy is linked
        elif ch is not None and span == (-1, -1) and [s_[1] for s_ in names.sources(na)] == [ch[0]]:
            return True
    for be, seq_ in bulk_nodes:
        if order[id(be)] > order[id(e)] or any(l.id == k for l in be.loops):
            continue
        if seq_ == px[0]:
            return True
        parts = seq(px[0])
        if len(parts) == 2 and parts[0] == ("many", seq_) and parts[1][0] == "one" and span[1] <= -2:
            return True
    if handed_over:
        # each element was made a node in the iteration before; the element of the first iteration must exist before the loop
        return True if made_before_loop(first_index) else None
    # not covered: definite only if every node creation was understood
    for ne, na in node_events:
        if _sym_pos(names, na) is None and not (len(names.sources(na)) == 1 and names.sources(na)[0][0] in ("SCANNED", "IMPORTER")):
            return None
    if bulk_nodes:
        return None
    return False


def _recursive_hierarchy(sx: SymX, tr: Trace, names: "_Names", gpm: FuncInfo, graph: Term, config: set[str], node_events, edge_events):
    """The hierarchy written as a structural recursion over the ancestors:

        def link(parents, child):
            if not parents: return
            *rest, parent = parents
            link(rest, parent); create_node(parent); create_edge(parent, child, inherits=True)

    By induction on len(parents) this creates a node for every ancestor and links every consecutive pair of parents + [child].
    Returns (verdict, detail, event) or None when the construction does not have this shape."""

    def last_parent(t: Term):
        for x in subterms(t):
            if x[0] == "idx" and is_const(x[2], -1) and x[1][0] == "call" and x[1][1] == ("fn", gpm.fq) and len(x[1][2]) == 1:
                return x[1], x[1][2][0]
        return None

    for e, a, b, inh in edge_events:
        lp = last_parent(a)
        if lp is None:
            continue
        parents, mod = lp
        sym = names.symbol(mod)
        if sym is None or sym[0] != "SCANNED" or [s_[1] for s_ in names.sources(b)] != [mod] or last_parent(b) is not None:
            continue
        rest = ("slice", parents, ("const", None), ("const", -1), ("const", None))
        calls = [r for r in tr.events if r.kind == "call" and r.func[0] == "fn" and r.func[1] in e.stack and rest in r.args and ("idx", parents, ("const", -1)) in r.args]
        if not calls:
            continue
        problems = []

        def only_needs_ancestors(ev: Event, what: str) -> None:
            f = f_and(ev.pc)
            free = _graph_state_atoms(sx, f, graph, config, tuple(ev.args[:2]) if ev.name == "add_edge" else ())
            free |= {k for k in atoms_of(f) if sx.atoms.get(k) == parents}  # `if parents:` - there is an ancestor at all
            fixed = {k: (ev.name == "add_edge") for k in free if (t_ := sx.atoms.get(k)) is not None and _is_node_test(t_, graph)}
            fixed.update({k: False for k in free if (t_ := sx.atoms.get(k)) is not None and (_is_edge_test(t_, graph) or t_[0] == "cmp" and t_[1] == "==")})
            f2 = simplify(substitute(f, {k: v for k, v in fixed.items() if not (sx.atoms[k][0] == "cmp" and sx.atoms[k][1] == "is")}))
            if not _holds_whenever_state_allows(f2, free - set(fixed)):
                problems.append(f"{what} additionally depends on `{' , '.join(sorted(x for x in atoms_of(f2) if x not in free))[:160]}`")

        only_needs_ancestors(e, "the hierarchy edge")
        only_needs_ancestors(calls[0], "the recursive step")
        if not (inh is not None and is_const(inh, True)):
            problems.append(f"the edge is created with inherits={show(inh, 30) if inh is not None else 'its default'}, not inherits=True")
        nodes = [ne for ne, na in node_events if last_parent(na) == lp]
        if not nodes:
            problems.append("no node is created for the direct parent in each step (ancestor packages without own files are missing)")
        else:
            only_needs_ancestors(nodes[0], "the creation of the ancestor's node")
        ok = not problems
        return ok, "every scanned module is linked to all its ancestors by a recursion over get_parent_modules(module): each step creates the last ancestor's node and links it to its child with inherits=True" if ok else "scanned modules are not linked to all their ancestors: " + "; ".join(problems), e
    return None


def _sym_pos(names: _Names, t: Term):
    """Chain position of the single name symbol a node / edge end is made from."""
    src = names.sources(t)
    if len(src) != 1:
        return None
    return _chain_pos(src[0][1])


# =========================================================================== R5


def _concretise(sx: SymX, t: Term, facts: dict, internal: Term, depth: int = 0):
    """Tuple of name components `t` evaluates to when membership of dotted names in `internal` is given by `facts`; None if unknown."""
    if depth > 12:
        return None
    t = unbox(t)
    if t[0] == "phi":
        chosen = []
        for g, v in t[1]:
            val = _eval_guard(sx, g, facts, internal, depth + 1)
            if val is None:
                return None
            if val:
                chosen.append(v)
        if len(chosen) != 1:
            return None
        return _concretise(sx, chosen[0], facts, internal, depth + 1)
    if t[0] == "const" and isinstance(t[1], str):
        return tuple(("c", p) for p in t[1].split(".")) if t[1] else ()
    if t[0] == "fstr" or (t[0] == "binop" and t[1] == "+"):

        def flat(x: Term) -> list:
            x = unbox(x)
            if x[0] == "fstr":
                return [z for y in x[1] for z in flat(y)]
            if x[0] == "binop" and x[1] == "+":
                return flat(x[2]) + flat(x[3])
            return [x]

        items = flat(t)
        out: list = []
        glue = False  # the previous piece did not end at a separator
        for x in items:
            if x[0] == "const" and isinstance(x[1], str):
                pieces = x[1].split(".")
                for i, pc_ in enumerate(pieces):
                    if i:
                        glue = False
                    if pc_:
                        if glue:
                            return None
                        out.append(("c", pc_))
                        glue = True
                continue
            sub = _concretise(sx, x, facts, internal, depth + 1)
            if sub is None or glue:
                return None
            out += list(sub)
            glue = True
        return tuple(out)
    if t[0] == "mcall" and t[2] == "join" and is_const(t[1], ".") and len(t[3]) == 1:
        out2: list = []
        for kind, x in seq(t[3][0]):
            if kind != "one":
                return None
            sub = _concretise(sx, x, facts, internal, depth + 1)
            if sub is None:
                return None
            out2 += list(sub)
        return tuple(out2)
    if t[0] in ("param", "attr", "elem", "idx", "mcall", "call", "loopvar"):
        return (("s", t),)
    return None


def _eval_guard(sx: SymX, g: Formula, facts: dict, internal: Term, depth: int):
    env = {}
    for key in atoms_of(g):
        t = sx.atoms.get(key)
        if t is not None and ("truth", t) in facts:
            env[key] = facts[("truth", t)]
            continue
        if t is None or not (t[0] == "cmp" and t[1] == "in" and t[3] == internal):
            # not a membership test: decided by the path condition of the constructor call, or unknown
            known = facts.get("known", TRUE)
            if len(atoms_of(known)) <= 12 and implies(known, atom(key)):
                env[key] = True
                continue
            if len(atoms_of(known)) <= 12 and implies(known, f_not(atom(key))):
                env[key] = False
                continue
            return None
        name = _concretise(sx, t[2], facts, internal, depth + 1)
        if name is None or name not in facts:
            return None
        env[key] = facts[name]
    return evaluate(g, env)


def _name_symbols(sx: SymX, t: Term, internal: Term, depth: int = 0, known: Formula = TRUE) -> list[Term]:
    """Opaque pieces (in order of first occurrence) a dotted name and the names tested for membership in `internal` are made of;
    alternatives that `known` rules out are not looked at."""
    out: list[Term] = []

    def add(xs) -> None:
        for x in xs:
            if x not in out:
                out.append(x)

    if depth > 12:
        return out
    t = unbox(t)
    if t[0] == "phi":
        for g, v in t[1]:
            if known != TRUE and len(atoms_of(g) | atoms_of(known)) <= 14 and implies(known, f_not(g)):
                continue
            for key in sorted(atoms_of(g)):
                a = sx.atoms.get(key)
                if a is not None and a[0] == "cmp" and a[1] == "in" and a[3] == internal:
                    add(_name_symbols(sx, a[2], internal, depth + 1, known))
            add(_name_symbols(sx, v, internal, depth + 1, known))
    elif t[0] == "fstr":
        for x in t[1]:
            add(_name_symbols(sx, x, internal, depth + 1, known))
    elif t[0] == "binop" and t[1] == "+":
        add(_name_symbols(sx, t[2], internal, depth + 1, known))
        add(_name_symbols(sx, t[3], internal, depth + 1, known))
    elif t[0] == "mcall" and t[2] == "join" and is_const(t[1], ".") and len(t[3]) == 1 and all(k == "one" for k, _x in seq(t[3][0])):
        for _k, x in seq(t[3][0]):
            add(_name_symbols(sx, x, internal, depth + 1, known))
    elif t[0] != "const":
        out.append(t)
    return out


def _prefix_tested(sx: SymX, name: Term, P: Term, internal: Term) -> bool:
    """Some membership test inside the name is made on a name that contains the prefix."""
    for key in _all_guard_atoms(sx, name, internal):
        t = sx.atoms.get(key)
        if t is not None and t[0] == "cmp" and t[1] == "in" and t[3] == internal and P in leaves(t[2], ("param",)):
            return True
    return False


def _all_guard_atoms(sx: SymX, t: Term, internal: Term, depth: int = 0) -> set[str]:
    """Atoms of all guards inside a name, including those inside the names tested for membership."""
    out: set[str] = set()
    if depth > 8:
        return out
    for key in _guard_atoms(t):
        out.add(key)
        a = sx.atoms.get(key)
        if a is not None and a[0] == "cmp" and a[1] == "in" and a[3] == internal:
            out |= _all_guard_atoms(sx, a[2], internal, depth + 1)
    return out


def _joins_parts(t: Term) -> bool:
    """`".".join(p.parts)`: empty for the empty relative path (the text of that path, also split and joined again, is ".")."""
    u = unbox(t)
    if not (u[0] == "mcall" and u[2] == "join" and len(u[3]) == 1):
        return False
    l = loc(u[3][0])
    return l[0] == "attr" and l[2] == "parts"


def _same_tests(sx: SymX, keys, M: Term, R: Term) -> dict[str, bool]:
    """Atoms that test 'root_path equals module_path' -> polarity (True: the atom holds exactly when they are equal)."""
    rel_mr = ("REL", M, R)
    want = canon([("parts", ("REL", ("PARENT", M), ("PARENT", R)))])
    tests: dict[str, bool] = {}
    for k_ in sorted(keys):
        t = sx.atoms.get(k_)
        if t is None:
            continue
        if t[0] == "cmp" and t[1] == "==":
            a, b2 = t[2], t[3]
            c, o = (a, b2) if a[0] == "const" else (b2, a)
            joined = _joins_parts(o)  # ".".join(()) is "", not "."
            if is_const(c, ".") and not joined and (dotted(o) == [("parts", rel_mr)] or loc(o) == rel_mr):
                tests[k_] = True
            elif is_const(c, "") and joined and dotted(o) == [("parts", rel_mr)]:
                tests[k_] = True
            elif {strip_abs(loc(a)), strip_abs(loc(b2))} == {M, R}:
                tests[k_] = True
        elif loc(t) == ("attr", rel_mr, "parts"):
            tests[k_] = False
        elif dotted(t) == want or loc(t) == ("attr", want[0][1], "parts"):
            tests[k_] = False  # the absolute-import prefix itself is empty exactly when both paths coincide
        elif _joins_parts(t) and dotted(t) == [("parts", rel_mr)]:
            tests[k_] = False  # the joined parts of the relative path are empty exactly when both paths coincide
    return tests


def _counterexample(sx: SymX, term: Term, expected, normalise=lambda v: v):
    """(root, module, got, wanted) of a concrete pair of paths on which the term has the wrong value, else None."""
    try:
        return c04_eval.counterexample(term, sx, expected, normalise)
    except c04_eval.Unknown:
        return None
    except RecursionError:
        return None


def _internal_prefix_counterexample(sx: SymX, res: Result, key: str, what: str, e: Event, arg: Term) -> bool:
    cex = _counterexample(sx, arg, c04_eval.expected_internal_prefix, lambda v: v.rstrip("."))
    if cex is None:
        return False
    res.add("C04.R5", key, False, f"for root_path={cex[0]!r} and module_path={cex[1]!r} the {what} treats {cex[2]!r} as the internal prefix instead of {cex[3]!r}: modules outside the scanned sub-tree count as internal (or the sub-tree itself as external)", where(e.fi, e.node), kind="structural")
    return True


def _check_internal_prefix(sx: SymX, res: Result, tag: str, what: str, e: Event, arg: Term | None, M: Term, R: Term) -> None:
    """The prefix that separates internal from external modules is the dotted name of module_path, starting with the root
    directory's name: `root.name + "." + <module_path relative to root_path>` (a trailing '.' does not matter)."""
    key = f"{tag}::internal module prefix of the {what}"
    if arg is None:
        res.undecide("C04.R5", key, "no prefix argument", where(e.fi, e.node))
        return
    arg = restrict(arg, e.guard)
    tests = _same_tests(sx, _guard_atoms(arg), M, R)
    for same in (False, True):
        known = f_and([(atom(k) if pol == same else f_not(atom(k))) for k, pol in tests.items()])
        v = restrict(arg, known)
        if v[0] == "phi":
            if _internal_prefix_counterexample(sx, res, key, what, e, arg):
                return
            res.undecide("C04.R5", key, f"cannot tell which of the alternatives of `{show(v, 120)}` is used when root_path {'equals' if same else 'differs from'} module_path", where(e.fi, e.node))
            return
        d = dotted(v, trailing_dot=True)
        want = [("item", ("attr", R, "name"))] if same else canon([("item", ("attr", R, "name")), ("parts", ("REL", M, R))])
        accepted = [want, canon([("item", ("attr", R, "name")), ("parts", ("REL", M, R))])] if same else [want]
        if d is None or (d not in accepted and not _path_vocabulary(d, (M, R), (R,))):
            if _internal_prefix_counterexample(sx, res, key, what, e, arg):
                return
            res.undecide("C04.R5", key, f"cannot read the prefix `{show(v, 120)}` as a dotted module name", where(e.fi, e.node))
            return
        if d not in accepted:
            res.add("C04.R5", key, False, f"when root_path {'equals' if same else 'differs from'} module_path the {what} treats `{show_dotted(d)}` as the internal prefix instead of `{show_dotted(want)}`: modules outside the scanned sub-tree count as internal (or the sub-tree itself as external)", where(e.fi, e.node), kind="structural")
            return
    res.add("C04.R5", key, True, "internal modules are those below the dotted name of module_path (root directory name + path from root_path to module_path)", where(e.fi, e.node), kind="structural")


def _guard_atoms(t: Term) -> set[str]:
    """Atom keys of the guards of all guarded choices inside a term (including choices inside tested names)."""
    out: set[str] = set()
    for x in subterms(t):
        if x[0] == "phi":
            for g, _v in x[1]:
                out |= atoms_of(g)
    return out


def _show_name(n) -> str:
    return ".".join(p[1] if p[0] == "c" else show(p[1], 40) for p in n)


def rule_r5(repo: Repo, res: Result) -> None:
    T = types_of(repo)
    # ---- strip-family calls with a multi-character / computed argument remove a character *set*, not a prefix or suffix
    from core.fold import fold

    for f in repo.all_functions():
        for c in calls_in(f.node):
            if isinstance(c.func, ast.Attribute) and c.func.attr in ("strip", "lstrip", "rstrip") and c.args:
                a = c.args[0]
                single = isinstance(a, ast.Constant) and isinstance(a.value, str) and len(a.value) == 1
                if not single:
                    try:
                        v = fold(repo, f.module, a, f)
                    except Exception:  # noqa: BLE001
                        v = None
                    single = v is not None and len(v) == 1
                res.add("C04.R5", repo.key(f, stmt_of(c)) + f" [{norm(c, 50)}]", single, "strips a single character" if single else f"`{norm(c, 70)}` removes any run of the *characters* of its argument, not that suffix/prefix: path components spelled with those letters are eaten as well", where(f, c), kind="structural")
    # ---- the prefix handed to the converter by the path entry point
    ge = repo.func(ENTRY, "get_evaluable_architecture")
    sx, tr = _run_entry(repo, T, ge)
    tag = f"{ge.relpath}::{ge.qualname}"
    conv_cls = repo.cls(CONVERTER, "ImportConverter")
    convert = conv_cls.methods.get("convert")
    if convert is None:
        raise AnalysisError("ImportConverter.convert (public entry point of the import conversion) not found")
    cp = convert.param_names[1:]
    if len(cp) != 3:
        raise AnalysisError("ImportConverter.convert(asts, absolute_import_prefix, internal_modules): signature not recognised")
    calls = [e for e in tr.events if e.kind == "call" and e.func == ("fn", convert.fq)]
    if len(calls) != 1:
        res.undecide("C04.R5", f"{tag}::absolute-import prefix", f"{len(calls)} calls of ImportConverter.convert reached from the path entry point", where(ge, ge.node))
    else:
        e = calls[0]
        b = _bind_args(convert, e)
        prefix = b.get(cp[1])
        internal = b.get(cp[2])
        from_names = internal is not None and any(x[0] == "idx" and is_const(x[2], 0) and x[1][0] == "mcall" and x[1][2] == "parse" for x in subterms(internal))
        from_files = internal is not None and any(x[0] == "idx" and is_const(x[2], 1) and x[1][0] == "mcall" and x[1][2] == "parse" for x in subterms(internal))
        from_scan = internal is not None and any(x[0] == "mcall" and x[2] == "parse" for x in subterms(internal))
        ikey = f"{tag}::internal modules <- scan result"
        if from_names:
            res.add("C04.R5", ikey, True, "the set of internal modules handed to the import conversion is computed from the scanned module names", where(e.fi, e.node), kind="flow")
        elif from_files:
            res.add("C04.R5", ikey, False, "the internal-module set of the import conversion is computed from the parsed *files* only: package directories are missing, so imports of packages (`from pkg import sub_package`, names relative to module_path's parent) do not resolve", where(e.fi, e.node), kind="flow")
        elif from_scan or _has_lost_parts(internal) or internal is not None and internal[0] == "box" and internal[3][0] in ("unk", "loopvar"):
            res.undecide("C04.R5", ikey, f"cannot tell which part of the scan result `{show(internal, 80)}` is", where(e.fi, e.node))
        else:
            res.add("C04.R5", ikey, False, f"the internal-module set of the import conversion is `{show(internal, 80) if internal is not None else '?'}`: not computed from the scanned modules, so no prefixed name can ever be recognised", where(e.fi, e.node), kind="flow")
        M, R = ("param", "module_path"), ("param", "root_path")
        ext = [x for x in tr.events if x.kind == "call" and x.name == "ExternalImportFilter" and x.func[0] == "cls"]
        if len(ext) == 1:
            _check_internal_prefix(sx, res, tag, "external-import filter", ext[0], ext[0].arg(1, "root_module_name"), M, R)
        want = canon([("parts", ("REL", ("PARENT", M), ("PARENT", R)))])
        if prefix is None:
            res.undecide("C04.R5", f"{tag}::absolute-import prefix", "no prefix argument", where(e.fi, e.node))
        else:
            prefix = restrict(prefix, e.guard)
            alts = alternatives(prefix)
            # `name or "."`: the name when it is not empty, else the constant
            expanded = []
            for g, v in alts:
                if v[0] == "boolop" and v[1] == "or" and len(v[2]) == 2 and v[2][1][0] == "const":
                    tr_ = sx.truth(v[2][0])
                    expanded += [(f_and([g, tr_]), v[2][0]), (f_and([g, f_not(tr_)]), v[2][1])]
                else:
                    expanded.append((g, v))
            alts = [(g, v) for g, v in expanded if g != FALSE]
            main = [(g, v) for g, v in alts if not (is_const(v, "") or is_const(v, "."))]  # '.name' / '..name' are never modules
            ds = [dotted(v) for _g, v in main]
            key = f"{tag}::absolute-import prefix"
            if not main:
                res.add("C04.R5", key + " [source]", False, "the absolute-import prefix is always empty: imports written relative to module_path's parent never resolve", where(e.fi, e.node), kind="structural")
            elif any(d is None for d in ds) or any(d != want and not _path_vocabulary(d, (M, R)) for d in ds):
                # no normal form: a concrete pair of paths on which the value is wrong still decides it
                cex = _counterexample(sx, prefix, c04_eval.expected_absolute_prefix)
                if cex is not None:
                    res.add("C04.R5", key + " [source]", False, f"for root_path={cex[0]!r} and module_path={cex[1]!r} the absolute-import prefix is {cex[2]!r} instead of {cex[3]!r} (module_path.parent relative to root_path.parent): absolute imports written relative to module_path's parent do not resolve", where(e.fi, e.node), kind="structural")
                elif any(d is None for d in ds):
                    v = main[ds.index(None)][1]
                    res.undecide("C04.R5", key + " [source]", f"cannot read the prefix `{show(v, 160)}` as a dotted path", where(e.fi, e.node))
                else:
                    d = next(d for d in ds if d != want and not _path_vocabulary(d, (M, R)))
                    res.undecide("C04.R5", key + " [source]", f"cannot compare the prefix `{show_dotted(d)}` with module_path.parent relative to root_path.parent", where(e.fi, e.node))
            elif any(d != want for d in ds):
                d = next(d for d in ds if d != want)
                res.add("C04.R5", key + " [source]", False, f"the absolute-import prefix is `{show_dotted(d)}`: not module_path.parent relative to root_path.parent in dotted notation", where(e.fi, e.node), kind="structural")
            else:
                res.add("C04.R5", key + " [source]", True, "absolute-import prefix = module_path.parent relative to root_path.parent, dotted", where(e.fi, e.node), kind="structural")
            # tests of 'root_path equals module_path' in the guards of the alternatives
            tests = _same_tests(sx, {a_ for g, _ in alts for a_ in atoms_of(g)}, M, R)
            def as_same(f: Formula) -> Formula:
                return rename_atoms(f, lambda k_: (atom("SAME") if tests[k_] else f_not(atom("SAME"))) if k_ in tests else None)

            if main:
                g_main = as_same(f_or([g for g, _ in main]))
                ok = implies(f_not(atom("SAME")), g_main)
                if not ok and atoms_of(g_main) - {"SAME"}:
                    res.undecide("C04.R5", key + " [used whenever the paths differ]", f"cannot read `{show_formula(g_main)[:160]}` as a test on 'root_path equals module_path'", where(e.fi, e.node))
                else:
                    res.add("C04.R5", key + " [used whenever the paths differ]", ok, "the prefix is used whenever module_path differs from root_path" if ok else f"the prefix is only used under `{show_formula(g_main)[:120]}`: not whenever module_path differs from root_path", where(e.fi, e.node), kind="dominance")
    # ---- the converter: absolute importees are adjusted, relative ones are not
    sx2 = SymX(repo, T)
    tr2 = sx2.run(convert)
    P, I = ("param", cp[1]), ("param", cp[2])
    k2 = 0
    for e in tr2.events:
        if e.kind != "call" or e.func[0] != "cls":
            continue
        cname = e.func[1].rsplit(".", 1)[-1]
        key = repo.key(e.fi, stmt_of(e.node))
        if cname == "AbsoluteImport" and len(e.args) >= 2:
            k2 += 1
            name = restrict(e.args[1], e.guard)
            carried = [x for x in subterms(name) if x[0] == "loopvar"]
            if carried:
                # only a value carried around the loop over the imported names (`for alias in node.names`) mixes up importees
                loop = next((l for l in e.loops if l.id == carried[0][2]), None)
                over_names = loop is not None and loop.iter is not None and any(x[0] == "attr" and x[2] == "names" for x in subterms(loop.iter))
                if over_names:
                    res.add("C04.R5", key + " [absolute importee adjusted]", False, f"the importee of one imported name depends on the previous one: `{carried[0][1]}` is carried over from an earlier iteration of the loop over the imported names", where(e.fi, e.node), kind="flow")
                else:
                    res.undecide("C04.R5", key + " [absolute importee adjusted]", f"cannot tell what `{carried[0][1]}`, which changes from one iteration of a loop to the next, contributes to the importee name", where(e.fi, e.node))
                continue
            memo = [x for x in subterms(name) if x[0] == "idx" and x[1][0] == "box" and x[1][1] in sx2.persistent]
            if memo:
                # the name is looked up in a container that outlives the call (a class-level memo): what was stored there?
                box_id, key_t = memo[0][1][1], memo[0][2]
                stores = [ev for ev in tr2.events if ev.kind == "setitem" and ev.recv is not None and ev.recv[0] == "box" and ev.recv[1] == box_id and len(ev.args) == 2]
                stale = [ev for ev in stores if (I in subterms(ev.args[1]) or _all_guard_atoms(sx2, ev.args[1], I)) and I not in subterms(ev.args[0])]
                if stale:
                    res.add("C04.R5", key + " [absolute importee adjusted]", False, f"the adjusted name is remembered in a class-level table under `{show(key_t, 60)}`, which does not contain the set of internal modules it was computed for: a name worked out during one scan is reused by the next one (other module_path, other internal modules)", where(e.fi, e.node), kind="flow")
                else:
                    res.undecide("C04.R5", key + " [absolute importee adjusted]", f"the importee is read from the class-level table `{show(memo[0][1], 40)}`: cannot tell what it holds", where(e.fi, e.node))
                continue
            verdict, detail = _check_adjusted_by_cases(sx2, name, P, I, e.guard)
            if verdict is None:
                res.undecide("C04.R5", key + " [absolute importee adjusted]", detail, where(e.fi, e.node))
            else:
                res.add("C04.R5", key + " [absolute importee adjusted]", verdict, detail, where(e.fi, e.node), kind="decision-table")
        elif cname == "RelativeImport":
            k2 += 1
            bad = [a for a in e.args if P in leaves(a, ("param",))]
            res.add("C04.R5", key + " [relative importee not adjusted]", not bad, "relative imports are resolved against the importer only" if not bad else "a relative import receives a root-prefix-adjusted name", where(e.fi, e.node), kind="flow")
    # vacuity: both kinds of import objects must have been seen (their number depends on how the branches are written)
    kinds = {e.func[1].rsplit(".", 1)[-1] for e in tr2.events if e.kind == "call" and e.func[0] == "cls"}
    for cname in ("AbsoluteImport", "RelativeImport"):
        if cname not in kinds:
            res.undecide("C04.R5", f"{convert.relpath}::{convert.qualname}::{cname}", f"no {cname} is constructed on any path of the conversion", where(convert, convert.node))
    res.floor("C04.R5.imports", 2, k2)


def _check_adjusted_by_cases(sx: SymX, name: Term, P: Term, I: Term, guard: Formula):
    """`_check_adjusted` for every case of the tests inside the name that distinguish the kind of the import statement
    (`isinstance(node, ast.ImportFrom)`): one constructor call may serve `import x` and `from x import y`."""
    cases = []
    for key in sorted(_all_guard_atoms(sx, name, I)):
        t = sx.atoms.get(key)
        if t is not None and t[0] == "call" and t[1] == ("builtin", "isinstance"):
            cases.append(key)
    if not cases or len(cases) > 3:
        return _check_adjusted(sx, name, P, I, guard)
    verdicts = []
    for values in itertools.product([False, True], repeat=len(cases)):
        known = f_and([guard, *[(atom(k) if v else f_not(atom(k))) for k, v in zip(cases, values)]])
        if len(atoms_of(known)) <= 12 and not implies(TRUE, f_not(known)) is False and simplify(known) == FALSE:
            continue
        verdicts.append(_check_adjusted(sx, restrict(name, known), P, I, known))
    bad = [v for v in verdicts if v[0] is False]
    if bad:
        return bad[0]
    unknown = [v for v in verdicts if v[0] is None]
    if unknown:
        return unknown[0]
    return verdicts[0] if verdicts else (None, "no feasible case of the import statement kinds")


_TEXT_METHODS = {"startswith", "endswith", "partition", "rpartition", "split", "rsplit", "removeprefix", "removesuffix", "find", "rfind", "index", "count"}


def _textual_test(t: Term, raw: set, I: Term) -> bool:
    """A test on the *characters* of an imported name (`x.startswith(prefix + ".")`, `x.partition(".")[0] == prefix.partition(".")[0]`,
    `x.split(".")[0] in (...)`, `x[:len(p)] == p`): it says nothing about which names were scanned, so in the decision table it is a
    free variable next to the membership facts.  Tests for None / emptiness of the name are not textual (they select the statement
    form), neither are membership tests in the internal-module set."""

    def derived(x: Term) -> bool:
        # a piece of text cut out of a raw name
        for y in subterms(x):
            if y[0] == "mcall" and y[1] in raw and y[2] in _TEXT_METHODS:
                return True
            if y[0] == "slice" and y[1] in raw:
                return True
        return False

    if t[0] == "mcall" and t[1] in raw and t[2] in ("startswith", "endswith"):
        return True
    if t[0] == "cmp" and t[1] in ("==", "!=", "in", "not in") and t[3] != I:
        return derived(t[2]) or derived(t[3]) or (t[1] in ("in", "not in") and t[3] in raw and not is_const(t[2], "")) or (t[1] in ("==", "!=") and (t[2] in raw or t[3] in raw) and not any(o[0] == "const" and o[1] in (None, "") for o in (t[2], t[3])))
    return False


def _check_adjusted(sx: SymX, name: Term, P: Term, I: Term, guard: Formula = TRUE):
    """Decision table of an absolute importee over membership of the candidate names in the internal-module set.

    Expected: x = `prefix.n` if that is internal else `n`; for `from n import a`: `x.a` if that is internal else x."""
    # the raw symbols the name is made of (module / alias names of the ast node), in values and in the guards of choices
    syms = [x for x in _name_symbols(sx, name, I, 0, guard) if x != P]
    for key in sorted(atoms_of(guard)):
        # names tested for membership on the way to this constructor call (`if sub_module in internal: ... else: ...`)
        t_ = sx.atoms.get(key)
        if t_ is not None and t_[0] == "cmp" and t_[1] == "in" and t_[3] == I:
            syms += [x for x in _name_symbols(sx, t_[2], I, 0, guard) if x != P and x not in syms]
    if any(not (x[0] == "attr" and x[2] in ("name", "module")) for x in syms):
        odd = next(x for x in syms if not (x[0] == "attr" and x[2] in ("name", "module")))
        return None, f"cannot tell what `{show(odd, 80)}` contributes to the importee name"
    mods = [s for s in syms if s[2] == "module"]
    aliases = [s for s in syms if s[2] == "name"]
    if len(mods) > 1 or len(aliases) > 1 or not syms:
        return None, f"cannot tell which names `{show(name, 120)}` is built from"
    p = ("s", P)
    if mods:
        n = ("s", mods[0])
        # `from n import y` whose importee never looks at y: y stands for any imported name (it may be a sub module of n)
        a = ("s", aliases[0]) if aliases else ("s", ("attr", ("unk", "<imported name>", 0), "name"))
    else:
        n = ("s", aliases[0])
        a = None
    universe = [(p, n), (n,)]
    if a is not None:
        universe += [(p, n, a), (n, a)]
    # an empty prefix may be tested for explicitly: no internal module starts with '.'
    tests_prefix = any(sx.atoms.get(k) == P for k in _all_guard_atoms(sx, name, I))
    if tests_prefix:
        universe = universe + [("truth", P)]
    # textual tests on the raw names (`x.startswith(prefix + ".")`) say nothing about what was scanned: free variables
    raw = {n[1]} | ({a[1]} if a is not None else set())
    textual = []
    for k in sorted(_all_guard_atoms(sx, name, I) | atoms_of(guard)):
        t = sx.atoms.get(k)
        if t is not None and _textual_test(t, raw, I) and ("truth", t) not in universe:
            textual.append(t)
            universe = universe + [("truth", t)]
    labels = {P: "prefix", n[1]: "x"}
    if a is not None:
        labels[a[1]] = "y"
    stmt = "from x import y" if a is not None else "import x"

    def text(nm) -> str:
        if nm and nm[0] == "truth":
            out_ = show(nm[1], 160)
            for sym_, label_ in sorted(labels.items(), key=lambda kv: -len(show(kv[0]))):
                out_ = out_.replace(show(sym_), label_)
            return out_
        return ".".join(q[1] if q[0] == "c" else labels.get(q[1], show(q[1], 40)) for q in nm)

    mismatches = []
    for values in itertools.product([False, True], repeat=len(universe)):
        facts = dict(zip(universe, values))
        facts["known"] = guard
        # (a scanned module's package need not be in the set: packages above module_path are not, their sub-packages are)
        if tests_prefix and not facts[("truth", P)] and (facts[(p, n)] or a is not None and facts[(p, n, a)]):
            continue  # with an empty prefix `prefix.name` starts with '.', which no module name does
        x = (p, n) if facts[(p, n)] else (n,)
        expected = x
        if a is not None:
            xa = x + (a,)
            expected = xa if facts.get(xa, False) else x
        # scenarios in which this constructor call is not reached do not count
        env = {}
        for key in atoms_of(guard):
            t = sx.atoms.get(key)
            if t is not None and t[0] == "cmp" and t[1] == "in" and t[3] == I:
                nm = _concretise(sx, t[2], facts, I)
                if nm is not None and nm in facts:
                    env[key] = facts[nm]
        if env and simplify(substitute(guard, env)) == FALSE:
            continue
        got = _concretise(sx, name, facts, I)
        if got is None:
            return None, f"cannot evaluate `{show(name, 140)}` for a given set of internal modules"
        if got != expected:
            inside = [k for k, v in facts.items() if k != "known" and v and (k[0] != "truth" or k[1] in textual)]
            mismatches.append((sum(1 for k in inside if k[0] != p), len(inside), inside, got, expected))
    if mismatches:
        # report the most natural witness: internal modules are fully qualified names
        _r, _n, inside, got, expected = min(mismatches, key=lambda m: (m[0], m[1]))
        tested = _prefix_tested(sx, name, P, I) or any(
            (t_ := sx.atoms.get(k_)) is not None and t_[0] == "cmp" and t_[1] == "in" and t_[3] == I and _prefix_tested(sx, t_[2], P, I) for k_ in atoms_of(guard)
        )
        if any(k[0] == "truth" for k in inside):
            why = "whether the name is adjusted depends on how the imported name is *spelled*, not only on which names were scanned - e.g. root `shop`, module_path `shop/shop`: `import shop.x` written relative to module_path's parent (`shop.shop.x` is scanned, `shop.x` is not) is mistaken for a fully qualified name and no longer resolves"
        elif all(p not in m[3] for m in mismatches) and not tested:
            why = "its name never passes the root-prefix adjustment: imports written relative to module_path's parent no longer resolve when a sub-directory is scanned"
        elif a is not None and len(got) < len(expected):
            why = "the sub-module test is skipped or made on another name than the adjusted one: the importee is the package instead of the sub module"
        else:
            why = "the name is not `prefix.x` exactly when that is a scanned module"
        mods_ = [text(k) for k in inside if k[0] != "truth"]
        cond_ = [text(k) for k in inside if k[0] == "truth"]
        return False, f"`{stmt}` with internal modules {{{', '.join(mods_)}}}" + (f" and `{' and '.join(cond_)}`" if cond_ else "") + f" yields the importee `{text(got)}` instead of `{text(expected)}`: {why}"
    return True, "the absolute importee is `prefix.name` exactly when that is a scanned module" + (" (sub-module test on the adjusted name)" if a is not None else "")
