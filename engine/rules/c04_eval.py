"""C04 - concrete evaluation of *terms* of the symbolic executor (rules/c04_symx.py) on sample values.

Used only to turn an undecided comparison into a VIOLATION: when a prefix / name term cannot be brought into a normal form, it
is evaluated on a handful of concrete (root_path, module_path) pairs with the semantics of the *library* operations it is made of
(str methods, PurePosixPath, posixpath).  A pair on which the value differs from the specified one is a counterexample, i.e. a
definite violation; agreement on all samples proves nothing and leaves the construct undecided.

Nothing of the analysed repository is executed here: the interpreter only understands terms whose operations are builtins /
pathlib / os.path / str methods; anything else raises `Unknown`.
"""

from __future__ import annotations

import posixpath
from pathlib import PurePosixPath

from .c04_norm import ident
from .c04_symx import SymX, Term


class Unknown(Exception):
    """The term contains an operation this interpreter does not model."""


_STR_METHODS = {
    "replace", "partition", "rpartition", "split", "rsplit", "join", "startswith", "endswith", "strip", "lstrip", "rstrip",
    "removeprefix", "removesuffix", "lower", "upper", "count", "find", "rfind", "index", "rindex", "format", "splitlines", "title",
}
_PATH_METHODS = {"relative_to", "with_suffix", "with_name", "as_posix", "joinpath", "is_absolute", "__str__", "__fspath__", "is_relative_to"}
_PATH_ATTRS = {"name", "parent", "parts", "stem", "suffix", "suffixes", "parents", "anchor"}
_LIB_CONSTS = {"os.sep": "/", "os.path.sep": "/", "os.extsep": ".", "os.curdir": ".", "os.pardir": "..", "os.altsep": None}
_OS_PATH = {"dirname", "basename", "join", "split", "splitext", "relpath", "normpath", "commonpath", "isabs"}
_BUILTINS = {"str": str, "len": len, "list": list, "tuple": tuple, "bool": bool, "int": int, "repr": repr, "reversed": lambda x: list(reversed(x)), "sorted": sorted, "format": format, "any": any, "all": all, "min": min, "max": max, "ord": ord}


def concrete(t: Term, env: dict, sx: SymX, depth: int = 0):
    """Value of the term for the parameter values in `env`."""
    if depth > 60:
        raise Unknown("too deep")
    ev = lambda x: concrete(x, env, sx, depth + 1)  # noqa: E731
    bound = env.get("<terms>")
    if bound:
        key = ident(t)
        if key in bound:
            return bound[key]
    tag = t[0]
    if tag == "param":
        if t[1] in env:
            return env[t[1]]
        raise Unknown(f"parameter {t[1]}")
    if tag == "const":
        return t[1]
    if tag == "lib":
        if t[1] in _LIB_CONSTS:
            return _LIB_CONSTS[t[1]]
        raise Unknown(t[1])
    if tag == "box":
        return ev(t[3])
    if tag in ("tuple", "list"):
        out: list = []
        for x in t[1]:
            if x[0] == "star":
                out.extend(list(ev(x[1])))
            else:
                out.append(ev(x))
        return tuple(out) if tag == "tuple" else out
    if tag == "fstr":
        pieces = []
        for x in t[1]:
            if x[0] == "call" and x[1] == ("builtin", "format") and len(x[2]) == 1:
                pieces.append(format(ev(x[2][0])))
            else:
                v = ev(x)
                pieces.append(v if isinstance(v, str) else format(v))
        return "".join(pieces)
    if tag == "binop":
        a, b = ev(t[2]), ev(t[3])
        try:
            if t[1] == "+":
                return a + b
            if t[1] == "-":
                return a - b
            if t[1] == "*":
                return a * b
            if t[1] == "/":
                return a / b  # Path / str
            if t[1] == "%":
                return a % b
        except TypeError as e:
            raise Unknown(str(e)) from None
        raise Unknown(f"operator {t[1]}")
    if tag == "unop":
        v = ev(t[2])
        if t[1] == "not":
            return not v
        if t[1] == "-":
            return -v
        raise Unknown(f"operator {t[1]}")
    if tag == "boolop":
        v = None
        for x in t[2]:
            v = ev(x)
            if (t[1] == "and") != bool(v):
                return v
        return v
    if tag == "cmp":
        a, b = ev(t[2]), ev(t[3])
        op = t[1]
        try:
            return {"==": lambda: a == b, "!=": lambda: a != b, "<": lambda: a < b, "<=": lambda: a <= b, ">": lambda: a > b, ">=": lambda: a >= b,
                    "in": lambda: a in b, "not in": lambda: a not in b, "is": lambda: a is b or (a is None and b is None), "is not": lambda: not (a is b)}[op]()
        except (KeyError, TypeError) as e:
            raise Unknown(str(e)) from None
    if tag == "attr":
        base = ev(t[1])
        if isinstance(base, PurePosixPath) and t[2] in _PATH_ATTRS:
            v = getattr(base, t[2])
            return list(v) if t[2] == "parents" else v
        raise Unknown(f"attribute {t[2]}")
    if tag == "idx":
        base, i = ev(t[1]), ev(t[2])
        try:
            return base[i]
        except (IndexError, KeyError, TypeError) as e:
            raise Unknown(str(e)) from None
    if tag == "slice":
        base = ev(t[1])
        lo, hi, step = ev(t[2]), ev(t[3]), ev(t[4])
        try:
            return base[lo:hi:step]
        except TypeError as e:
            raise Unknown(str(e)) from None
    if tag == "call":
        f = t[1]
        if t[3]:
            raise Unknown("keyword arguments")
        args = [ev(a) for a in t[2]]
        if f[0] == "builtin" and f[1] in _BUILTINS:
            try:
                return _BUILTINS[f[1]](*args)
            except (TypeError, ValueError) as e:
                raise Unknown(str(e)) from None
        if f[0] == "lib" and f[1] in ("pathlib.Path", "pathlib.PurePath", "pathlib.PurePosixPath", "pathlib.PosixPath"):
            return PurePosixPath(*args)
        if f[0] == "lib" and f[1] in ("os.fspath", "os.fsdecode"):
            return str(args[0])
        if f[0] == "lib" and f[1].startswith("os.path.") and f[1][8:] in _OS_PATH:
            try:
                return getattr(posixpath, f[1][8:])(*[str(a) if isinstance(a, PurePosixPath) else a for a in args])
            except (TypeError, ValueError) as e:
                raise Unknown(str(e)) from None
        if f[0] == "lib" and f[1] in ("os.path.abspath", "os.path.realpath") and args and str(args[0]).startswith("/"):
            return posixpath.normpath(str(args[0]))
        raise Unknown(f"call of {f}")
    if tag == "mcall":
        recv = ev(t[1])
        if t[4]:
            raise Unknown("keyword arguments")
        args = [ev(a) for a in t[3]]
        name = t[2]
        try:
            if isinstance(recv, str) and name in _STR_METHODS:
                return getattr(recv, name)(*args)
            if isinstance(recv, PurePosixPath) and name in _PATH_METHODS:
                v = getattr(recv, name)(*args)
                return v
            if isinstance(recv, PurePosixPath) and name in ("resolve", "absolute", "expanduser") and recv.is_absolute() and ".." not in recv.parts:
                return recv  # sample paths are absolute, normalised and free of links
            if isinstance(recv, (list, tuple)) and name in ("index", "count"):
                return getattr(recv, name)(*args)
        except (TypeError, ValueError, AttributeError) as e:
            raise Unknown(f"{name}: {e}") from None
        raise Unknown(f"method {name}")
    if tag == "phi":
        for g, v in t[1]:
            if holds(g, env, sx, depth + 1):
                return ev(v)
        raise Unknown("no alternative applies")
    raise Unknown(f"term {tag}")


def holds(f, env: dict, sx: SymX, depth: int = 0) -> bool:
    tag = f[0]
    if tag == "const":
        return bool(f[1])
    if tag == "atom":
        t = sx.atoms.get(f[1])
        if t is None:
            raise Unknown(f"atom {f[1]}")
        return bool(concrete(t, env, sx, depth + 1))
    if tag == "not":
        return not holds(f[1], env, sx, depth + 1)
    if tag == "and":
        return all(holds(g, env, sx, depth + 1) for g in f[1])
    if tag == "or":
        return any(holds(g, env, sx, depth + 1) for g in f[1])
    raise Unknown(f"formula {tag}")


# (root_path, module_path) samples: module_path at or below root_path; ancestors whose names extend / repeat the module directory's name
SAMPLE_PATHS = [
    ("/w/proj", "/w/proj"),
    ("/w/proj", "/w/proj/app"),
    ("/w/proj", "/w/proj/pkg/app"),
    ("/w/proj", "/w/proj/apps/app"),
    ("/w/proj", "/w/proj/app/app"),
    ("/w/proj", "/w/proj/core_utils/core"),
    ("/w/proj", "/w/proj/a/b/c"),
    ("/w/app", "/w/app/app"),
    ("/w/apps", "/w/apps/app"),
    ("/w/app", "/w/app/x/app"),
    ("/w/proj/proj", "/w/proj/proj/proj"),
]


def expected_absolute_prefix(root: str, module: str) -> str:
    r, m = PurePosixPath(root), PurePosixPath(module)
    return "" if r == m else str(m.parent.relative_to(r.parent)).replace("/", ".")


def expected_internal_prefix(root: str, module: str) -> str:
    r, m = PurePosixPath(root), PurePosixPath(module)
    return r.name if r == m else r.name + "." + str(m.relative_to(r)).replace("/", ".")


def counterexample(term: Term, sx: SymX, expected, normalise=lambda v: v, params=("root_path", "module_path")):
    """(root, module, got, wanted) for the first sample pair on which the term evaluates to something else than `expected(root,
    module)`; None if it agrees on all pairs that could be evaluated; raises Unknown if no pair could be evaluated."""
    evaluated = 0
    for root, module in SAMPLE_PATHS:
        try:
            got = concrete(term, {params[0]: root, params[1]: module}, sx)
        except Unknown:
            continue
        evaluated += 1
        if not isinstance(got, str):
            continue
        want = expected(root, module)
        if normalise(got) != normalise(want):
            return root, module, got, want
    if not evaluated:
        raise Unknown("the term could not be evaluated on any sample")
    return None


# (source root, visited path, expected module name): directories and files, a root whose name occurs again further down
SAMPLE_NAMES = [
    ("/w/proj", "/w/proj", "proj"),
    ("/w/proj", "/w/proj/pkg", "proj.pkg"),
    ("/w/proj", "/w/proj/pkg/mod.py", "proj.pkg.mod"),
    ("/w/proj", "/w/proj/mod.py", "proj.mod"),
    ("/w/proj", "/w/proj/proj/mod.py", "proj.proj.mod"),
    ("/w/proj", "/w/proj/a/proj/b.py", "proj.a.proj.b"),
    ("/w/proj", "/w/proj/pkg/pkg/pkg.py", "proj.pkg.pkg.pkg"),
    ("/w/proj/proj", "/w/proj/proj/x/y.py", "proj.x.y"),
    # the suffix text inside the name: a component that starts with "py" after a separator (`.replace(".py", "")` on the dotted
    # name eats the boundary), letters of the suffix at the end of a stem (`rstrip(".py")`), a stem that is the suffix's letters
    ("/w/proj", "/w/proj/lib/pytools/helper.py", "proj.lib.pytools.helper"),
    ("/w/proj", "/w/proj/lib/pytools", "proj.lib.pytools"),
    ("/w/proj", "/w/proj/copy/happy.py", "proj.copy.happy"),
    ("/w/proj", "/w/proj/pyproj/py.py", "proj.pyproj.py"),
    ("/w/proj", "/w/proj/gen.pyi/mod.py", "proj.gen.pyi.mod"),
]


def name_agrees_on_all_samples(name: Term, path: Term, root_param: str, sx: SymX) -> int:
    """Number of samples if the registered name could be evaluated on *every* sample and is the specified one each time, else 0."""
    for root, p, want in SAMPLE_NAMES:
        env = {root_param: PurePosixPath(root), "<terms>": {ident(path): PurePosixPath(p)}}
        try:
            got = concrete(name, env, sx)
        except (Unknown, ValueError, IndexError, KeyError, RecursionError):
            return 0
        if not isinstance(got, str) or got != want:
            return 0
    return len(SAMPLE_NAMES)


def name_counterexample(name: Term, path: Term, root_param: str, sx: SymX):
    """(root, path, got, wanted) for the first sample on which the registered name is not the specified one; None if all evaluated
    samples agree; raises Unknown if none could be evaluated."""
    evaluated = 0
    for root, p, want in SAMPLE_NAMES:
        env = {root_param: PurePosixPath(root), "<terms>": {ident(path): PurePosixPath(p)}}
        try:
            got = concrete(name, env, sx)
        except Unknown:
            continue
        except (ValueError, IndexError, KeyError):
            continue
        evaluated += 1
        if isinstance(got, str) and got != want:
            return root, p, got, want
    if not evaluated:
        raise Unknown("the name could not be evaluated on any sample")
    return None
