"""C04.R4 decided on finite models, for graph constructions whose *shape* the symbolic rule cannot read.

The symbolic rule (rules/c04.py, rule_r4) reads the construction as events `add_node` / `add_edge` with terms it can attribute to the
scanned modules, their ancestor chains and the imports.  A construction that computes the hierarchy by another algorithm (climbing
with `rpartition` and a memo of linked modules, ledgers that are turned into the graph at the end, ...) has no such reading.  Its
*meaning* is still a small pure computation: (module names, imports) -> (nodes, edges).  Like rules/c09.py (R6) this module tabulates
it: the constructor of the graph class is interpreted by the checker's own finite-domain evaluator (rules/c09_eval.py: whitelisted
total operations on str / int / list / dict / set values; nothing of pytestarch is imported or run) on a model of `networkx.DiGraph`,
for a fixed family of model inputs, and the result is compared with what the property demands:

    nodes             = the given modules and all their dotted ancestors, nothing else (no node from an imported name)
    inherits edges    = (parent, child) for every node that has a dotted parent, flagged `inherits=True`, and no other

The inputs exercise what the seeded defects of this rule were about: a single module deep below the root (D20), modules given
child-first and parent-first, siblings whose names are character prefixes of each other, imports of functions / classes (an
importee below a module), of unscanned and of external names, the same chain walked by several modules (memoisation), module lists
given as list and as tuple.  A wrong result on one input is a counterexample (VIOLATION); equal results on all inputs discharge the
rule *on the model* (said so in the obligation); anything the evaluator cannot determine leaves the rule undecided.
"""

from __future__ import annotations

from core.loader import ClassInfo, Repo

TYPES = "pytestarch.eval_structure.types"
IMPORT_TYPES = "pytestarch.eval_structure_generation.file_import.import_types"


def _prefixes(name: str) -> list[str]:
    parts = name.split(".")
    return [".".join(parts[:i]) for i in range(1, len(parts))]


MODELS: list[tuple[str, list[str], list[tuple]]] = [
    ("one module three levels below the root", ["proj.a.b.c"], []),
    ("modules listed child-first", ["proj.a.b.c", "proj.a.b", "proj.a", "proj"], []),
    (
        "sibling names that are character prefixes, imports of a function, an unscanned and an external name",
        ["proj", "proj.a", "proj.a.m", "proj.ab", "proj.ab.x", "proj.b.c.d", "proj.b.c.e"],
        [("proj.a.m", "proj.ab.x"), ("proj.a.m", "proj.ab.x.func"), ("proj.ab.x", "os.path"), ("proj.a.m", "proj.zz.q"), ("proj.b.c.d", "proj.b.c.e"), ("proj.b.c.e", "proj.a"),
         # relative imports: (importer, relative module name, level, the module it resolves to)
         ("proj.ab.x", "b.c.d", 2, "proj.b.c.d"), ("proj.b.c.d", "e", 1, "proj.b.c.e")],
    ),
    (
        "two packages that share ancestors, second one first",
        ["proj.pkg.sub.deep.mod", "proj.pkg.sub.other", "proj.pkg.side.x", "proj.top"],
        [("proj.pkg.sub.deep.mod", "proj.pkg.side.x"), ("proj.pkg.side.x", "proj.pkg.sub.deep.mod.Class"), ("proj.top", "proj.pkg")],
    ),
    ("several top-level packages, one that imports nothing", ["proj.a.x", "lib.b.y", "lib.b", "lone.z"], [("proj.a.x", "lib.b.y"), ("lib.b.y", "proj.a")]),
    ("a single module without a parent", ["solo"], [("solo", "solo.helper")]),
    ("no module at all", [], []),
]


def _evaluator_class(E):
    """The finite-domain evaluator of rules/c09_eval.py with two additions this rule needs (kept here: that module is not ours):
    `del x` / `del o.a` / `del d[k]`, and generator functions that change nothing, whose values are collected into a list."""
    if hasattr(E, "EvalGen"):
        # the evaluator runs generators itself (lazily, interleaved with their consumer) and knows `del`: nothing to add - and
        # collecting eagerly on top of that would silently lose every yielded value
        return E.Evaluator

    import ast

    from core.loader import own_nodes

    quiet = {"copy", "index", "count", "get", "keys", "values", "items", "union", "intersection", "difference", "issubset", "issuperset", "isdisjoint"}
    mutators = (set(E.LIST_METHODS) | set(E.SET_METHODS) | set(E.DICT_METHODS)) - quiet

    class Ev(E.Evaluator):
        def __init__(self, *a, **k) -> None:
            super().__init__(*a, **k)
            self._yields: list[list] = []

        def stmt(self, s, fr) -> None:
            if isinstance(s, ast.Delete):
                self._tick()
                for t in s.targets:
                    if isinstance(t, ast.Name):
                        env = fr.env
                        while env is not None and t.id not in env.vars:
                            env = env.outer
                        if env is None:
                            raise E.Raised("NameError")
                        del env.vars[t.id]
                    elif isinstance(t, ast.Attribute):
                        o = self._guarded(t.value, fr)
                        if isinstance(o, E.Obj):
                            if t.attr not in o.attrs:
                                raise E.Raised("AttributeError")
                            del o.attrs[t.attr]
                        elif o is not E.POISON:
                            raise E.Unknown(f"attribute deletion on {type(o).__name__}")
                    elif isinstance(t, ast.Subscript):
                        o = self._guarded(t.value, fr)
                        k = self._guarded(t.slice, fr) if not isinstance(t.slice, ast.Slice) else self._slice(t.slice, fr)
                        if o is E.POISON or k is E.POISON:
                            raise E.Unknown("deletion of an undetermined item")
                        if not isinstance(o, (list, dict)):
                            raise E.Unknown(f"item deletion on {type(o).__name__}")
                        try:
                            del o[k]
                        except Exception as exc:  # noqa: BLE001
                            raise E.Raised(type(exc).__name__, exc) from None
                    else:
                        raise E.Unknown(f"deletion target {type(t).__name__}")
                return
            super().stmt(s, fr)

        def ev(self, e, fr):
            if isinstance(e, ast.Yield) and self._yields:
                self._yields[-1].append(self.ev(e.value, fr) if e.value is not None else None)
                return None
            if isinstance(e, ast.YieldFrom) and self._yields:
                v = self.ev(e.value, fr)
                if v is E.POISON:
                    raise E.Unknown("yield from an undetermined value")
                self._yields[-1].extend(list(self._iterate(v)))
                return None
            return super().ev(e, fr)

        def call_function(self, fi, args, kwargs=None, self_val=None, closure_env=None):
            node = fi.node
            is_gen = not isinstance(node, ast.Lambda) and any(isinstance(n, (ast.Yield, ast.YieldFrom)) for n in own_nodes(node))
            if not is_gen:
                return super().call_function(fi, args, kwargs, self_val, closure_env)
            # the values are collected eagerly: only exact for a generator that changes nothing while it runs
            for n in own_nodes(node):
                changes = (
                    isinstance(n, (ast.Global, ast.Nonlocal, ast.Delete))
                    or (isinstance(n, (ast.Attribute, ast.Subscript)) and isinstance(n.ctx, (ast.Store, ast.Del)))
                    or (isinstance(n, ast.Call) and isinstance(n.func, ast.Attribute) and n.func.attr in mutators)
                )
                if changes:
                    raise E.Unknown(f"generator {fi.qualname} changes something while it runs (its interleaving with the consumer is not modelled)")
            self._yields.append([])
            try:
                r = super().call_function(fi, args, kwargs, self_val, closure_env)
                if r is E.POISON:
                    raise E.Unknown(f"the values of generator {fi.qualname} cannot be determined")
                return list(self._yields[-1])
            finally:
                self._yields.pop()

    return Ev


class _Graph:
    """Model of `networkx.DiGraph`: nodes and edges with attribute dicts, insertion-ordered; networkx creates missing end nodes."""

    def __init__(self, ev_mod) -> None:
        self.nodes: dict = {}
        self.edges: dict = {}
        self.unreliable: str | None = None
        self._m = ev_mod
        POISON, NativeObj, Unknown = ev_mod.POISON, ev_mod.NativeObj, ev_mod.Unknown
        self.POISON = POISON

        def no_options(what: str, result):
            def call(*a: object, **k: object):
                if a or k:
                    raise Unknown(f"{what}(...) with arguments is not modelled")
                return result()

            return call

        m = {
            "add_node": self.add_node, "add_nodes_from": self.add_nodes_from, "add_edge": self.add_edge, "add_edges_from": self.add_edges_from,
            "has_node": self.has_node, "has_edge": self.has_edge, "get_edge_data": self.get_edge_data, "__contains__": self.has_node,
            "__getitem__": self.adj, "__iter__": lambda: list(self.nodes), "__len__": lambda: len(self.nodes), "number_of_nodes": lambda: len(self.nodes), "number_of_edges": lambda: len(self.edges),
            "successors": lambda n=POISON: self._neigh(n, 0), "predecessors": lambda n=POISON: self._neigh(n, 1), "has_successor": self.has_edge, "has_predecessor": lambda u=POISON, v=POISON: self.has_edge(v, u),
        }
        views = {
            "nodes": NativeObj("<nodes view>", {"__contains__": self.has_node, "__iter__": lambda: list(self.nodes), "__getitem__": self.node_attrs, "__len__": lambda: len(self.nodes), "__call__": no_options("nodes", lambda: list(self.nodes))}, {}, poison_ok=True),
            "edges": NativeObj("<edges view>", {"__contains__": self.has_edge_pair, "__iter__": lambda: list(self.edges), "__getitem__": self.edge_attrs, "__len__": lambda: len(self.edges), "__call__": no_options("edges", lambda: list(self.edges))}, {}, poison_ok=True),
        }
        self.native = NativeObj("<model of networkx.DiGraph>", m, views, poison_ok=True)

    def _ok(self, *names: object) -> bool:
        for n in names:
            if not isinstance(n, str):
                self.unreliable = self.unreliable or f"a node that is not a determined name ({n!r}) reaches the graph"
                return False
        return True

    def _neigh(self, n, side):
        if not self._ok(n):
            return self.POISON
        return [e[1 - side] for e in self.edges if e[side] == n]

    def node_attrs(self, n=None):
        if not self._ok(n):
            return self.POISON
        if n not in self.nodes:
            raise self._m.Raised("KeyError")
        return self.nodes[n]

    def has_edge_pair(self, e=None):
        if not isinstance(e, tuple) or len(e) != 2:
            self.unreliable = self.unreliable or "membership of something that is not a pair in the edges of the graph"
            return self.POISON
        return self.has_edge(*e)

    def edge_attrs(self, e=None):
        if not isinstance(e, tuple) or len(e) != 2 or not self._ok(*e):
            self.unreliable = self.unreliable or "subscript of the edges of the graph with something that is not a pair of names"
            return self.POISON
        if e not in self.edges:
            raise self._m.Raised("KeyError")
        return self.edges[e]

    def add_node(self, n=None, **attr):
        if n is None:
            n = self.POISON
        if self._ok(n):
            self.nodes.setdefault(n, {}).update(attr)

    def add_nodes_from(self, it=None, **attr):
        if it is None or it is self.POISON or isinstance(it, (str, self._m.NativeObj, self._m.Obj)):
            self.unreliable = self.unreliable or "add_nodes_from on an undetermined collection"
            return
        for n in list(it):
            if isinstance(n, tuple) and len(n) == 2 and isinstance(n[1], dict):
                self.add_node(n[0], **{**attr, **n[1]})
            else:
                self.add_node(n, **attr)

    def add_edge(self, u=None, v=None, **attr):
        if self._ok(u, v):
            if any(x is self.POISON for x in attr.values()):
                self.unreliable = self.unreliable or "an undetermined edge attribute"
            self.nodes.setdefault(u, {})
            self.nodes.setdefault(v, {})
            self.edges.setdefault((u, v), {}).update(attr)

    def add_edges_from(self, it=None, **attr):
        if it is None or it is self.POISON or isinstance(it, (str, self._m.NativeObj, self._m.Obj)):
            self.unreliable = self.unreliable or "add_edges_from on an undetermined collection"
            return
        for e in list(it):
            if not isinstance(e, (tuple, list)) or len(e) not in (2, 3) or (len(e) == 3 and not isinstance(e[2], dict)):
                self.unreliable = self.unreliable or "add_edges_from: an element that is not an edge"
                return
            self.add_edge(e[0], e[1], **{**attr, **(e[2] if len(e) == 3 else {})})

    def has_node(self, n=None):
        return self.POISON if not self._ok(n) else n in self.nodes

    def has_edge(self, u=None, v=None):
        return self.POISON if not self._ok(u, v) else (u, v) in self.edges

    def get_edge_data(self, u=None, v=None, default=None):
        return self.POISON if not self._ok(u, v) else self.edges.get((u, v), default)

    def adj(self, n=None):
        if not self._ok(n):
            return self.POISON
        if n not in self.nodes:
            raise self._m.Raised("KeyError")
        return {v: a for (u, v), a in self.edges.items() if u == n}


def _imports(ev, ev_mod, repo: Repo, pairs: list[tuple[str, str]]) -> list:
    """The imports of a model input as objects of the repository's own `AbsoluteImport` class (so that whatever computes the parent
    modules of a name is interpreted as well); idealised records when that class cannot be constructed."""
    ci = None
    mod = repo.modules.get(IMPORT_TYPES)
    if mod is not None:
        ci = mod.classes.get("AbsoluteImport")
    rel = mod.classes.get("RelativeImport") if mod is not None else None
    out = []
    for pair in pairs:
        if len(pair) == 4:
            importer, name, level, target = pair
            obj = None
            if rel is not None:
                try:
                    obj = ev._construct(rel, [importer, name, None, level], {})
                    if ev.apply(ev.getattr(obj, "importee", None), [], {}) != target:
                        obj = None
                except Exception:  # noqa: BLE001
                    obj = None
            if obj is None:
                # idealised record of a relative import: the parents are those of the *relative* name
                obj = ev_mod.NativeObj(
                    f"<RelativeImport {importer} -> {target}>",
                    {"importer": lambda importer=importer: importer, "importee": lambda target=target: target, "importer_parent_modules": lambda importer=importer: _prefixes(importer), "importee_parent_modules": lambda name=name: _prefixes(name)},
                )
            out.append(obj)
            continue
        importer, importee = pair
        obj = None
        if ci is not None:
            try:
                obj = ev._construct(ci, [importer, importee], {})
            except (ev_mod.Unknown, ev_mod.Raised):
                obj = None
        if obj is None:
            obj = ev_mod.NativeObj(
                f"<Import {importer} -> {importee}>",
                {"importer": lambda importer=importer: importer, "importee": lambda importee=importee: importee, "importer_parent_modules": lambda importer=importer: _prefixes(importer), "importee_parent_modules": lambda importee=importee: _prefixes(importee)},
            )
        out.append(obj)
    return out


def hierarchy_on_models(repo: Repo, graph_cls: ClassInfo, modules_param: str, imports_param: str, limit_param: "str | None"):
    """(verdict, detail): True - nodes and hierarchy edges are as demanded on every model input; False - a counterexample; None -
    the construction cannot be tabulated (with the reason)."""
    try:
        from . import c09_eval as E
    except Exception as exc:  # noqa: BLE001
        return None, f"the finite-domain evaluator is not available ({exc})"
    done = 0
    runs = [(label, modules, pairs, as_tuple, None) for label, modules, pairs in MODELS for as_tuple in (False, True)]
    if limit_param is not None:
        # with a level limit the graph is the same one over truncated names (what the truncation is, is C09's rule)
        runs += [(label, modules, pairs, False, lim) for label, modules, pairs in MODELS[2:5] for lim in (0, 1, 2)]
    for label, modules, pairs, as_tuple, lim in runs:
        if True:
            created: list[_Graph] = []

            def factory(args: list, kwargs: dict, created=created):
                g = _Graph(E)
                if args or kwargs:
                    g.unreliable = "the networkx graph is created from existing data"
                created.append(g)
                return g.native

            def flatten(args: list, kwargs: dict):
                # itertools.chain.from_iterable: lazily, one inner iterable after the other
                if len(args) != 1 or kwargs or args[0] is E.POISON:
                    raise E.Unknown("itertools.chain.from_iterable on an undetermined value")
                import itertools

                return itertools.chain.from_iterable(args[0])

            models = {"networkx.DiGraph": factory, "networkx.classes.digraph.DiGraph": factory, "networkx.freeze": lambda args, kwargs: args[0] if args else E.POISON, "itertools.chain.from_iterable": flatten}
            ev = _evaluator_class(E)(repo, tolerant=True, lib_models=models)
            try:
                imports = _imports(ev, E, repo, pairs)
                kwargs = {modules_param: tuple(modules) if as_tuple else list(modules), imports_param: list(imports)}
                if limit_param is not None:
                    kwargs[limit_param] = lim
                before = ev.uncertain_exits
                ev._construct(graph_cls, [], kwargs)
            except (E.Unknown, E.Raised) as exc:
                return None, f"the constructor cannot be evaluated on the model input '{label}': {exc}"
            except RecursionError:
                return None, f"the evaluation of the constructor on the model input '{label}' does not end"
            except Exception as exc:  # noqa: BLE001 - an evaluator that trips over a construct decides nothing
                return None, f"the constructor cannot be evaluated on the model input '{label}' ({type(exc).__name__}: {exc})"
            if ev.uncertain_exits != before:
                return None, "a condition of the construction cannot be evaluated" + (f" ({'; '.join(ev.notes[-2:])})" if ev.notes else "")
            graphs = [g for g in created if g.nodes or g.edges] or created[-1:]
            if len(graphs) != 1:
                return None, f"{len(graphs)} networkx graphs are filled during construction"
            g = graphs[0]
            if g.unreliable:
                return None, g.unreliable
            if len(modules) + sum(len(_prefixes(m)) for m in modules) >= 2 and not g.nodes and not g.edges:
                return None, f"nothing reaches the model of the graph for the model input '{label}': the evaluator lost the construction on the way"
            want_nodes = set(modules)
            for m in modules:
                want_nodes |= set(_prefixes(m))
            want_edges = {(n.rpartition(".")[0], n) for n in want_nodes if "." in n}
            if lim is not None:
                cut = lambda n, lim=lim: ".".join(n.split(".")[: lim + 1])  # noqa: E731
                want_nodes = {cut(n) for n in want_nodes}
                want_edges = {(cut(a), cut(b)) for a, b in want_edges if cut(a) != cut(b)}
            got_nodes = set(g.nodes)
            inherits = {e for e, a in g.edges.items() if a.get("inherits") is True}
            ends = [(p_[0], p_[-1]) for p_ in pairs]
            given = (f"level_limit={lim}, " if lim is not None else "") + f"modules {list(modules)}" + (f" and imports {[f'{a} -> {b}' for a, b in ends]}" if pairs else "")
            if got_nodes - want_nodes:
                extra = sorted(got_nodes - want_nodes)
                return False, f"for {given} the graph gets the node(s) {extra[:3]}: not a scanned module nor an ancestor of one (names that are not files or directories of the scanned tree become modules)"
            if want_nodes - got_nodes:
                missing = sorted(want_nodes - got_nodes)
                return False, f"for {given} the node(s) {missing[:3]} are missing: every scanned module and every ancestor package is a module"
            if want_edges - inherits:
                missing_e = sorted(want_edges - inherits)
                flagged = [e for e in missing_e if e in g.edges]
                return False, f"for {given} the hierarchy edge(s) {missing_e[:3]} are missing" + (f" ({flagged[0]} exists but is not flagged inherits=True)" if flagged else "") + ": every module is linked to its parent package"
            if inherits - want_edges:
                extra_e = sorted(inherits - want_edges)
                return False, f"for {given} the graph gets the hierarchy edge(s) {extra_e[:3]}, which do not link a module to its direct parent"
            # the imports between modules of the graph ("the same modules and imports"): one edge per import whose two ends are modules
            cut_ = (lambda n: n) if lim is None else (lambda n, lim=lim: ".".join(n.split(".")[: lim + 1]))
            want_imports = {(cut_(a), cut_(b)) for a, b in ends if cut_(a) in want_nodes and cut_(b) in want_nodes and cut_(a) != cut_(b)} - want_edges
            got_imports = {e for e in g.edges if e not in inherits}
            if want_imports - got_imports:
                lost = sorted(want_imports - got_imports)
                return False, f"for {given} the import edge(s) {lost[:3]} between two modules of the graph are missing"
            if got_imports - want_imports:
                odd = sorted(got_imports - want_imports)
                return False, f"for {given} the graph gets the edge(s) {odd[:3]} that no import between two of its modules accounts for"
            done += 1
    return True, f"the constructor evaluated on {done} model inputs (a module deep below the root alone, child-first order, prefix-named siblings, imports of functions / unscanned / external names, shared ancestors, list and tuple, level limits None / 0 / 1 / 2): nodes = modules and their ancestors, inherits edges = every (parent, child) pair, import edges = imports between two modules"
