"""Normal forms over the terms of rules/c04_symx.py: locations (pathlib / os.path algebra), dotted names, sequences.

`str(p.with_suffix("")).replace(os.sep, ".")`, `".".join(p.with_suffix("").parts)` and `".".join([*p.parent.parts, p.stem])` denote the
same dotted name; `Path(os.path.dirname(f))`, `Path(f).parent` and `os.path.dirname(f)` the same location.  The rules compare normal
forms, never spellings.
"""

from __future__ import annotations

from typing import Callable

from .c04_symx import FALSE, TRUE, Formula, Term, atoms_of, f_and, f_not, f_or, implies, is_const, phi, rewrite, show, simplify, substitute, subterms

PATH_CTORS = {"pathlib.Path", "pathlib.PurePath", "pathlib.PosixPath", "pathlib.PurePosixPath", "os.fspath", "os.path.normpath"}
ABS_FUNCS = {"os.path.abspath", "os.path.realpath"}


def unbox(t: Term) -> Term:
    """A container display seen as a value (callers make sure it is never mutated where that matters)."""
    while t[0] == "box":
        t = t[3]
    return t


FIRST_PART = "name.split('.')[0]"


def loc(t: Term) -> Term:
    """Location normal form: PARENT / REL / NOSUF / ABS over leaves; str() / Path() wrappers vanish."""
    t = unbox(t)
    tag = t[0]
    if tag == "call":
        f, args = t[1], t[2]
        if f[0] == "lib" and f[1] in PATH_CTORS and len(args) == 1:
            return loc(args[0])
        if f[0] == "lib" and f[1] in PATH_CTORS and not args and not t[3]:
            return ("const", ".")  # Path() is the empty relative path
        if f == ("builtin", "str") and len(args) == 1:
            return loc(args[0])
        if f[0] == "lib" and f[1] == "os.path.dirname" and len(args) == 1:
            return ("PARENT", loc(args[0]))
        if f[0] == "lib" and f[1] in ABS_FUNCS and len(args) == 1:
            return ("ABS", loc(args[0]))
        if f[0] == "lib" and f[1] == "os.path.relpath" and len(args) == 2:
            return ("REL", loc(args[0]), loc(args[1]))
        if f[0] == "lib" and f[1] == "os.path.split" and len(args) == 1:
            return ("SPLIT", loc(args[0]))
        if f[0] == "lib" and f[1] == "os.path.splitext" and len(args) == 1:
            return ("SPLITEXT", loc(args[0]))
    if tag == "idx" and is_const(t[2], 0) and t[1][0] == "mcall" and t[1][2] in ("split", "partition") and t[1][3] and (is_const(t[1][3][0], ".") or t[1][3][0] == ("lib", "os.extsep")):
        # the part of a file name before its FIRST dot: not the stem (`a.b.py`)
        b = loc(t[1][1])
        if b[0] == "attr" and b[2] == "name":
            return ("attr", b[1], FIRST_PART)
    if tag == "idx" and t[2][0] == "const":
        b = loc(t[1])
        if b[0] == "attr" and b[2] == "parts" and t[2][1] == -1:
            return ("attr", b[1], "name")
        if b[0] == "SPLIT" and t[2][1] == 0:
            return ("PARENT", b[1])
        if b[0] == "SPLITEXT" and t[2][1] == 0:
            return ("NOSUF", b[1])
        if b[0] == "attr" and b[2] == "parents" and t[2][1] == 0:
            return ("PARENT", loc(b[1]))
    if tag == "slice" and is_const(t[4], None) and is_const(t[2], None) and is_const(t[3], -1):
        b = loc(t[1])
        if b[0] == "attr" and b[2] == "parts":
            return ("attr", ("PARENT", b[1]), "parts")
    if tag == "slice" and is_const(t[4], None) and is_const(t[2], None) and t[3][0] == "binop" and t[3][1] == "-":
        # `text[: len(text) - len(p.suffix)]` where text is the text of p (or of p relative to something): p without its suffix
        whole, cut = t[3][2], t[3][3]
        if all(x[0] == "call" and x[1] == ("builtin", "len") and len(x[2]) == 1 for x in (whole, cut)):
            b = loc(t[1])
            if loc(whole[2][0]) == b and _is_suffix_of(loc(cut[2][0]), b):
                return ("NOSUF", b)
    if tag == "mcall" and t[2] == "removesuffix" and len(t[3]) == 1:
        b = loc(t[1])
        if _is_suffix_of(loc(t[3][0]), b):
            return ("NOSUF", b)
    if tag == "attr":
        if t[2] == "parent":
            return ("PARENT", loc(t[1]))
        if t[2] in ("name", "stem", "suffix", "parts", "parents"):
            b = loc(t[1])
            if b[0] == "attr" and b[2] == "name" and t[2] in ("stem", "suffix", "name"):
                return ("attr", b[1], t[2])  # Path(p.name).stem == p.stem
            return ("attr", b, t[2])
        return t
    if tag == "mcall":
        recv, name, args = t[1], t[2], t[3]
        if name == "relative_to" and len(args) == 1:
            return ("REL", loc(recv), loc(args[0]))
        if name == "with_suffix" and len(args) == 1 and is_const(args[0], ""):
            return ("NOSUF", loc(recv))
        if name in ("resolve", "absolute", "expanduser") and not args:
            return ("ABS", loc(recv))
        if name in ("as_posix", "__str__", "__fspath__") and not args:
            return loc(recv)
    if tag == "phi":
        alts = {loc(a) for _g, a in t[1]}
        if len(alts) == 1:
            return alts.pop()
    return t


def _is_suffix_of(suffix: Term, l: Term) -> bool:
    """`suffix` is `.suffix` of the location `l` or of the path `l` is relative to something (same last component)."""
    if suffix[0] != "attr" or suffix[2] != "suffix":
        return False
    owner = suffix[1]
    while True:
        if strip_abs(owner) == strip_abs(l):
            return True
        if l[0] == "REL":
            l = l[1]
        else:
            return False


def strip_abs(l: Term) -> Term:
    while l[0] == "ABS":
        l = l[1]
    return ident(l)


def ident(t: Term) -> Term:
    """The term with every container reduced to its identity: what a container holds at the moment a term is built must not decide
    whether two terms denote the same value."""
    if not any(x[0] == "box" for x in subterms(t)):
        return t
    return rewrite(t, lambda x: ("box", x[1], x[2], ("unk", "", 0)) if x[0] == "box" else None)


def show_loc(l: Term) -> str:
    tag = l[0]
    if tag == "PARENT":
        return f"{show_loc(l[1])}.parent"
    if tag == "REL":
        return f"{show_loc(l[1])}.relative_to({show_loc(l[2])})"
    if tag == "NOSUF":
        return f"{show_loc(l[1])}.with_suffix('')"
    if tag == "ABS":
        return f"{show_loc(l[1])}.resolve()"
    if tag == "attr":
        return f"{show_loc(l[1])}.{l[2]}"
    return show(l)


# --------------------------------------------------------------------------- sequences


def seq(t: Term) -> list[tuple[str, Term]]:
    """Sequence normal form: [("one", element) | ("many", iterable)] for tuples, lists, concatenations and list()/tuple() wrappers."""
    t = unbox(t)
    tag = t[0]
    if tag in ("tuple", "list"):
        out: list[tuple[str, Term]] = []
        for x in t[1]:
            if x[0] == "star":
                out += seq(x[1])
            else:
                out.append(("one", x))
        return out
    if tag == "binop" and t[1] == "+":
        return seq(t[2]) + seq(t[3])
    if tag == "call" and t[1] in (("builtin", "list"), ("builtin", "tuple")) and len(t[2]) == 1:
        return seq(t[2][0])
    if tag == "call" and t[1][0] == "lib" and t[1][1] in ("itertools.chain",):
        out = []
        for x in t[2]:
            out += seq(x)
        return out
    return [("many", t)]


# --------------------------------------------------------------------------- dotted names


def dotted(t: Term, trailing_dot: bool = False) -> "list[tuple[str, Term]] | None":
    """Dotted-name normal form: components joined by '.', each ("item", term) or ("parts", location) (all path components).

    None when the term is not recognisably a '.'-joined name. `trailing_dot`: one '.' at the end is ignored ('pkg.' names the
    same module prefix as 'pkg')."""
    toks = _tokens(t)
    if toks is None:
        return None
    if trailing_dot and toks and toks[-1][0] == "sep":
        toks = toks[:-1]
    # tokens alternate between pieces and separators; a piece may be empty only through an explicit empty constant
    out: list[tuple[str, Term]] = []
    expect_piece = True
    for kind, v in toks:
        if kind == "sep":
            if expect_piece:
                return None
            expect_piece = True
        else:
            if not expect_piece:
                return None
            out.append((kind, v))
            expect_piece = False
    if expect_piece and out:
        return None
    return _canon(out)


def _tokens(t: Term) -> "list[tuple[str, Term]] | None":
    t = unbox(t)
    tag = t[0]
    if tag == "const" and isinstance(t[1], str):
        out: list[tuple[str, Term]] = []
        pieces = t[1].split(".")
        for i, p in enumerate(pieces):
            if i:
                out.append(("sep", t))
            if p:
                out.append(("item", ("const", p)))
        return out
    if tag == "fstr":
        out = []
        for x in t[1]:
            sub = _tokens(x)
            if sub is None:
                return None
            out += sub
        return out
    if tag == "binop" and t[1] == "+":
        a, b = _tokens(t[2]), _tokens(t[3])
        return None if a is None or b is None else a + b
    if tag == "mcall" and t[2] == "join" and is_const(t[1], ".") and len(t[3]) == 1:
        return _joined(t[3][0], t)
    if tag == "idx" and is_const(t[2], 0) and t[1][0] == "mcall" and (t[1][2] == "rsplit" and len(t[1][3]) == 2 and is_const(t[1][3][0], ".") and is_const(t[1][3][1], 1) or t[1][2] == "rpartition" and len(t[1][3]) == 1 and is_const(t[1][3][0], ".")):
        # everything before the last '.': the name without its last component (for names with at least two components)
        inner = _tokens(t[1][1])
        return None if inner is None else _drop_last(inner)
    if _separators_to_dots(t):
        inner = t[1]
        if inner[0] == "call" and inner[1] == ("builtin", "str") and len(inner[2]) == 1 or inner[0] == "mcall" and inner[2] == "as_posix" or inner[0] == "call" and inner[1][0] == "lib" and inner[1][1] in ("os.fspath", "os.path.relpath", "os.path.dirname", "os.path.splitext"):
            return [("parts", loc(inner))]
        l = loc(inner)
        if l[0] in ("REL", "PARENT", "NOSUF"):
            return [("parts", l)]
        return None
    if tag == "boolop" and t[1] == "or" and len(t[2]) == 2 and is_const(t[2][1], "."):
        # `".".join(p.parts) or "."`: the text of the path p in dotted notation (the empty path is ".")
        first = unbox(t[2][0])
        inner = _tokens(first) if first[0] == "mcall" and first[2] == "join" else None
        if inner is not None and len(inner) == 1 and inner[0][0] == "parts":
            return inner
        return None
    if tag == "phi":
        return None
    l = loc(t)
    if l[0] == "attr" and l[2] in ("name", "stem", FIRST_PART):
        return [("item", l)]
    if tag in ("param", "attr", "call", "mcall", "elem", "idx", "loopvar"):
        return [("item", t)]
    return None


_SEP = (("lib", "os.sep"), ("lib", "os.path.sep"))


def _separators_to_dots(t: Term) -> bool:
    """`text.replace(os.sep, ".")` and `text.translate(str.maketrans(os.sep, "."))`."""
    if t[0] != "mcall":
        return False
    if t[2] == "replace" and len(t[3]) == 2 and is_const(t[3][1], ".") and (t[3][0] in _SEP or is_const(t[3][0], "/")):
        return True
    if t[2] == "translate" and len(t[3]) == 1:
        table = unbox(t[3][0])
        if table[0] == "mcall" and table[2] == "maketrans" and table[1] == ("builtin", "str") and len(table[3]) == 2 and is_const(table[3][1], ".") and (table[3][0] in _SEP or is_const(table[3][0], "/")):
            return True
        if table[0] == "dict" and len(table[1]) == 1:
            k, v = table[1][0]
            if is_const(v, ".") and k[0] == "call" and k[1] == ("builtin", "ord") and len(k[2]) == 1 and (k[2][0] in _SEP or is_const(k[2][0], "/")):
                return True
    return False


def _joined(arg: Term, sep_owner: Term) -> "list[tuple[str, Term]] | None":
    """Tokens of `".".join(arg)`."""
    a = unbox(arg)
    if a[0] == "slice" and is_const(a[4], None) and is_const(a[2], None) and is_const(a[3], -1):
        inner = _joined(a[1], sep_owner)
        return None if inner is None else _drop_last(inner)
    out: list[tuple[str, Term]] = []
    for i, (kind, x) in enumerate(seq(arg)):
        if i:
            out.append(("sep", sep_owner))
        if kind == "one":
            sub = _tokens(x)
            if sub is None:
                return None
            out += sub
            continue
        l = loc(x)
        if l[0] == "attr" and l[2] == "parts":
            out.append(("parts", l[1]))
        elif x[0] == "mcall" and x[2] == "split" and len(x[3]) == 1 and x[3][0] in (("lib", "os.sep"), ("lib", "os.path.sep")) and (x[1][0] == "call" and x[1][1] == ("builtin", "str") or x[1][0] == "mcall" and x[1][2] == "as_posix"):
            out.append(("parts", loc(x[1])))  # the text of a path split at the separator: its parts
        elif x[0] == "mcall" and x[2] == "split" and len(x[3]) == 1 and is_const(x[3][0], "."):
            sub = _tokens(x[1])  # the components of a dotted name
            if sub is None:
                return None
            out += sub
        elif x[0] == "slice" and is_const(x[4], None) and is_const(x[2], None) and is_const(x[3], -1):
            sub = _joined(x, sep_owner)
            if sub is None:
                return None
            out += sub
        else:
            out.append(("items", x))
    return out


def _drop_last(toks: list[tuple[str, Term]]) -> "list[tuple[str, Term]] | None":
    """Tokens of a dotted name without its last component."""
    if not toks:
        return None
    kind, v = toks[-1]
    if kind == "sep":
        return toks[:-1]  # `"a.b."`: the last component is empty
    if kind == "item":
        rest = toks[:-1]
        if rest and rest[-1][0] == "sep":
            rest = rest[:-1]
        return rest
    if kind == "parts":
        return toks[:-1] + [("parts", ("PARENT", v))]
    return None


def canon(segs: list[tuple[str, Term]]) -> list[tuple[str, Term]]:
    """Canonical dotted name: `[*p.parent.parts, p.stem]` is `p.with_suffix("").parts`; parents and suffix removal act on the
    first argument of a relative location; `root.name` followed by a location relative to `root` is that location relative to
    `root.parent` (all for paths strictly below the root)."""
    out: list[tuple[str, Term]] = []
    for kind, v in segs:
        if kind == "item" and out and out[-1][0] == "parts" and v[0] == "attr" and v[2] in ("stem", "name"):
            base = out[-1][1]
            if base == ("PARENT", v[1]):
                out[-1] = ("parts", ("NOSUF", v[1]) if v[2] == "stem" else v[1])
                continue
        out.append((kind, v))
    out = [(k, _push_in(v) if k == "parts" else v) for k, v in out]
    merged: list[tuple[str, Term]] = []
    for kind, v in out:
        if kind == "parts" and v[0] == "REL" and merged and merged[-1] == ("item", ("attr", v[2], "name")):
            merged[-1] = ("parts", ("REL", v[1], ("PARENT", v[2])))
            continue
        merged.append((kind, v))
    return merged


_canon = canon


def _push_in(l: Term) -> Term:
    """PARENT(REL(a, b)) -> REL(PARENT(a), b); NOSUF(REL(a, b)) -> REL(NOSUF(a), b)."""
    if l[0] in ("PARENT", "NOSUF"):
        inner = _push_in(l[1])
        if inner[0] == "REL":
            return ("REL", _push_in((l[0], inner[1])), inner[2])
        return (l[0], inner)
    if l[0] == "REL":
        return ("REL", _push_in(l[1]), l[2])
    return l


def show_dotted(segs: "list[tuple[str, Term]] | None") -> str:
    if segs is None:
        return "<not a dotted name>"
    return " . ".join(show_loc(v) if k == "item" else f"*{show_loc(v)}.parts" if k == "parts" else f"*{show(v)}" for k, v in segs)


def alternatives(t: Term, limit: int = 8) -> list[tuple[Formula, Term]]:
    """The guarded alternatives of a value, with choices nested in concatenations lifted to the top:
    `a + <x if g | y if not g>` has the alternatives `a + x` (g) and `a + y` (not g)."""
    t = unbox(t) if t[0] == "box" and t[3][0] in ("fstr", "binop") else t
    if t[0] == "phi":
        out: list[tuple[Formula, Term]] = []
        for g, v in t[1]:
            for g2, v2 in alternatives(v, limit):
                h = f_and([g, g2])
                if h != FALSE:
                    out.append((h, v2))
        return out if len(out) <= limit else [(g, v) for g, v in t[1]]
    if t[0] == "mcall" and t[2] == "join" and len(t[3]) == 1 and unbox(t[3][0])[0] == "yields":
        # joining what a generator yields: every yield contributes its value when its condition holds
        ys = unbox(t[3][0])[1]
        names = sorted({a for g, _v in ys for a in atoms_of(g)})
        if len(names) <= 3:
            import itertools

            from .c04_symx import evaluate

            out2: list[tuple[Formula, Term]] = []
            for vals in itertools.product([True, False], repeat=len(names)):
                env = dict(zip(names, vals))
                pieces = tuple(v for g, v in ys if evaluate(g, env))
                guard = f_and([("atom", n) if b else f_not(("atom", n)) for n, b in env.items()])
                out2.append((guard, ("mcall", t[1], "join", (("tuple", pieces),), ())))
            return out2
    if t[0] == "idx" and t[2][0] == "const" and t[1][0] == "mcall" and t[1][2] in ("rpartition", "partition", "rsplit", "split") or t[0] == "mcall" and t[2] in ("replace", "removeprefix", "removesuffix", "strip", "rstrip", "lstrip", "rpartition", "partition", "rsplit", "split"):
        # a choice inside the text a string operation works on: the operation applied to every alternative
        inner = alternatives(t[1], limit)
        if len(inner) > 1:
            return [(g, (t[0], v, *t[2:])) for g, v in inner]
        return [(TRUE, t)]
    if t[0] == "mcall" and t[2] == "join" and len(t[3]) == 1 and unbox(t[3][0])[0] == "phi":
        # the joined sequence is one of several (a list extended on some paths only)
        out3: list[tuple[Formula, Term]] = []
        for g, v in unbox(t[3][0])[1]:
            for g2, v2 in alternatives(("mcall", t[1], "join", (v,), t[4]), limit):
                h = f_and([g, g2])
                if h != FALSE:
                    out3.append((h, v2))
        return out3 if 1 < len(out3) <= limit else [(TRUE, t)]
    if t[0] == "mcall" and t[2] == "join" and len(t[3]) == 1 and unbox(t[3][0])[0] in ("tuple", "list"):
        # choices among the joined pieces (also inside spliced parts): one alternative per combination
        disp = unbox(t[3][0])
        combos_: list[tuple[Formula, list[Term]]] = [(TRUE, [])]
        for piece in disp[1]:
            starred = piece[0] == "star"
            alts_ = alternatives(piece[1] if starred else piece, limit)
            new_ = []
            for g, acc in combos_:
                for g2, v2 in alts_:
                    h = f_and([g, g2])
                    if h != FALSE:
                        new_.append((h, acc + [("star", v2) if starred else v2]))
            combos_ = new_
            if len(combos_) > limit:
                return [(TRUE, t)]
        if len(combos_) > 1:
            return [(g, ("mcall", t[1], "join", ((disp[0], tuple(acc)),), t[4])) for g, acc in combos_]
        return [(TRUE, t)]
    if t[0] == "fstr" or (t[0] == "binop" and t[1] == "+"):
        parts = list(t[1]) if t[0] == "fstr" else [t[2], t[3]]
        combos: list[tuple[Formula, list[Term]]] = [(TRUE, [])]
        for p in parts:
            alts = alternatives(p, limit)
            new = []
            for g, acc in combos:
                for g2, v2 in alts:
                    h = f_and([g, g2])
                    if h != FALSE:
                        new.append((h, acc + [v2]))
            combos = new
            if len(combos) > limit:
                return [(TRUE, t)]
        if len(combos) == 1:
            return [(TRUE, t)]
        return [(g, ("fstr", tuple(acc)) if t[0] == "fstr" else ("binop", "+", acc[0], acc[1])) for g, acc in combos]
    return [(TRUE, t)]


# --------------------------------------------------------------------------- guards


def restrict(t: Term, known: Formula) -> Term:
    """The term with every guarded choice simplified under the facts `known` (alternatives that cannot occur are dropped)."""

    def fix(x: Term):
        if x[0] != "phi":
            return None
        alts = []
        for g, a in x[1]:
            g2 = restrict_formula(g, known)
            if g2 != FALSE:
                alts.append((g2, a))
        return phi(alts) if alts else x

    return rewrite(t, fix)


def restrict_formula(g: Formula, known: Formula) -> Formula:
    if len(atoms_of(g) | atoms_of(known)) > 14:
        return g
    env = {}
    for a in atoms_of(g):
        if implies(known, ("atom", a)):
            env[a] = True
        elif implies(known, ("not", ("atom", a))):
            env[a] = False
    g2 = simplify(substitute(g, env)) if env else g
    if g2 not in (TRUE, FALSE) and not _sat(f_and([known, g2])):
        return FALSE
    return g2


def _sat(f: Formula) -> bool:
    from .c04_symx import satisfiable

    return satisfiable(f)


def rename_atoms(f: Formula, mapping: Callable[[str], "Formula | None"]) -> Formula:
    if f[0] == "atom":
        r = mapping(f[1])
        return f if r is None else r
    if f[0] == "const":
        return f
    if f[0] == "not":
        return f_not(rename_atoms(f[1], mapping))
    parts = [rename_atoms(g, mapping) for g in f[1]]
    return f_and(parts) if f[0] == "and" else f_or(parts)


def leaves(t: Term, kinds: tuple = ("param", "elem", "loopvar")) -> set:
    return {x for x in subterms(t) if x[0] in kinds}
