"""Symbolic execution of repository functions over *terms* (used by the C04 rules and by rules/scan.py).

The rules of C04 ask questions such as "under which condition is a name added to the returned module list, and which value is it",
"which value reaches Parser(...) as source root", "which pairs get a hierarchy edge".  Answering them on the syntax of one function
breaks as soon as a helper is extracted / inlined, a loop becomes a generator, locals are renamed or an early return replaces a
nested `if`.  This module therefore *executes* an entry point symbolically:

  * every local is replaced by the value (term) it holds - names of locals never appear in a term;
  * calls of repo helpers are executed in place (own frame, arguments bound to the argument terms), depth-bounded, never recursively;
    which callees are entered is decided by a `policy` (default: private helpers, module-level functions, methods of the entry's class);
  * a `for x in helper(...)` over a repo *generator* runs the loop body at every `yield` (lazy interleaving, as Python does);
  * `if` forks and joins: a variable holding different values after the branches becomes a guarded choice ("phi");
  * `if c: return/continue/raise` makes the rest of the block run under `not c`;
  * loops are executed once with every loop-carried variable / field replaced by an opaque value;
  * every call that is *not* entered (library calls, constructors, public methods, unresolved calls) is recorded as an Event together
    with the path condition (a propositional formula over canonical atom texts), the enclosing loops and the argument terms.

Nothing of the analysed repository is imported or run.  Terms are nested tuples:

  ("param", name) ("const", v) ("lib", dotted) ("builtin", name) ("fn", fq) ("cls", fq) ("attr", base, name)
  ("call", func, args, kwargs) ("mcall", recv, name, args, kwargs) ("new", class fq, args, kwargs, id)
  ("box", id, kind, init)            a mutable container created at one evaluation of a display / constructor
  ("elem", source, id)               an element obtained by iterating / popping `source`
  ("idx", base, index) ("slice", base, lo, hi, step) ("binop", op, l, r) ("unop", op, x) ("cmp", op, l, r) ("boolop", op, items)
  ("fstr", items) ("tuple", items) ("list", items) ("set", items) ("dict", pairs) ("star", x)
  ("comp", kind, elt, gens, id)      gens = ((target term, iter term, (cond formulas...)), ...)
  ("phi", ((guard formula, term), ...)) ("loopvar", name, loop id) ("lambda", fq) ("partial", fn, args, kwargs) ("unk", text, id)
"""

from __future__ import annotations

import ast
import builtins as _builtins
import itertools
from dataclasses import dataclass, field
from typing import Callable, Iterable

from core.guards import FALSE, TRUE, Formula, atoms_of, evaluate
from core.loader import AnalysisError, ClassInfo, FuncInfo, Repo, own_nodes
from core.types import Types, members

Term = tuple

MAX_DEPTH = 9
MAX_ATOMS = 12
BUILTINS = {
    "len", "isinstance", "hasattr", "getattr", "setattr", "str", "int", "bool", "list", "set", "dict", "tuple", "frozenset", "sorted", "map", "filter",
    "zip", "any", "all", "next", "iter", "open", "print", "min", "max", "sum", "range", "enumerate", "reversed", "super", "type", "repr", "cast", "id",
    "callable", "issubclass", "float", "bytes", "object", "abs", "divmod", "round", "hash", "vars", "dir",
}
_PURE_METHODS = {
    "join", "split", "rsplit", "startswith", "endswith", "replace", "strip", "lstrip", "rstrip", "format", "lower", "upper", "count", "index", "find",
    "rfind", "get", "keys", "values", "items", "copy", "union", "intersection", "difference", "issubset", "issuperset", "isdisjoint", "is_dir",
    "is_file", "exists", "relative_to", "with_suffix", "resolve", "absolute", "iterdir", "read", "read_text", "match", "search", "fullmatch",
    "group", "has_node", "has_edge", "get_edge_data", "successors", "predecessors", "number_of_nodes", "number_of_edges", "removeprefix", "removesuffix",
    "partition", "rpartition", "isidentifier", "encode", "decode", "splitlines", "title", "zfill", "center", "ljust", "rjust",
}
MUTATORS = {"append", "extend", "add", "update", "insert", "appendleft", "extendleft", "setdefault", "remove", "discard", "clear", "sort", "reverse"}
POPPERS = {"pop", "popleft", "popitem"}


# --------------------------------------------------------------------------- formulas (hashable variants of core.guards)


def f_not(f: Formula) -> Formula:
    if f[0] == "const":
        return ("const", not f[1])
    if f[0] == "not":
        return f[1]
    return ("not", f)


def f_and(fs: Iterable[Formula]) -> Formula:
    out: list[Formula] = []
    for f in fs:
        if f == TRUE:
            continue
        if f == FALSE:
            return FALSE
        if f[0] == "and":
            for g in f[1]:
                if g not in out:
                    out.append(g)
        elif f not in out:
            out.append(f)
    for f in out:
        if f_not(f) in out:
            return FALSE
    if not out:
        return TRUE
    return out[0] if len(out) == 1 else ("and", tuple(out))


def f_or(fs: Iterable[Formula]) -> Formula:
    out: list[Formula] = []
    for f in fs:
        if f == FALSE:
            continue
        if f == TRUE:
            return TRUE
        if f[0] == "or":
            for g in f[1]:
                if g not in out:
                    out.append(g)
        elif f not in out:
            out.append(f)
    for f in out:
        if f_not(f) in out:
            return TRUE
    if not out:
        return FALSE
    return out[0] if len(out) == 1 else ("or", tuple(out))


def atom(key: str) -> Formula:
    return ("atom", key)


EXHAUSTED: Formula = ("atom", "<the work list is exhausted>")
FILLED = ("lib", "<elements added in a loop>")


def _assignments(names: list[str]):
    for values in itertools.product([False, True], repeat=len(names)):
        yield dict(zip(names, values))


def implies(premise: Formula, conclusion: Formula, constraints: Formula = TRUE) -> bool:
    names = sorted(atoms_of(premise) | atoms_of(conclusion) | atoms_of(constraints))
    if len(names) > 16:
        raise AnalysisError(f"formula over {len(names)} atoms exceeds the enumeration bound")
    for env in _assignments(names):
        if evaluate(constraints, env) and evaluate(premise, env) and not evaluate(conclusion, env):
            return False
    return True


def equivalent(a: Formula, b: Formula, constraints: Formula = TRUE) -> bool:
    return implies(a, b, constraints) and implies(b, a, constraints)


def satisfiable(f: Formula) -> bool:
    names = sorted(atoms_of(f))
    if len(names) > MAX_ATOMS:
        return True
    return any(evaluate(f, env) for env in _assignments(names))


def simplify(f: Formula) -> Formula:
    """Constant if the formula is a tautology / contradiction over few atoms, else unchanged."""
    if f[0] in ("const", "atom"):
        return f
    names = sorted(atoms_of(f))
    if len(names) > 8:
        return f
    vals = {evaluate(f, env) for env in _assignments(names)}
    if vals == {True}:
        return TRUE
    if vals == {False}:
        return FALSE
    if len(names) == 1:
        # a formula over one atom that is not constant is the atom or its negation
        return atom(names[0]) if evaluate(f, {names[0]: True}) else f_not(atom(names[0]))
    return f


def substitute(f: Formula, env: dict[str, bool]) -> Formula:
    """Formula with some atoms fixed to truth values."""
    if f[0] == "atom":
        return ("const", env[f[1]]) if f[1] in env else f
    if f[0] == "const":
        return f
    if f[0] == "not":
        return f_not(substitute(f[1], env))
    parts = [substitute(g, env) for g in f[1]]
    return f_and(parts) if f[0] == "and" else f_or(parts)


def show_formula(f: Formula) -> str:
    if f[0] == "const":
        return str(f[1])
    if f[0] == "atom":
        return f[1]
    if f[0] == "not":
        return f"not {show_formula(f[1])}" if f[1][0] in ("atom", "const") else f"not ({show_formula(f[1])})"
    sep = " and " if f[0] == "and" else " or "
    return "(" + sep.join(show_formula(g) for g in f[1]) + ")"


# --------------------------------------------------------------------------- terms


def const(v) -> Term:
    return ("const", v)


NONE_T = const(None)


def is_const(t: Term, v=...) -> bool:
    return t[0] == "const" and (v is ... or (t[1] == v and type(t[1]) is type(v)))


LEAF_TAGS = ("const", "param", "lib", "builtin", "fn", "cls", "loopvar", "lambda", "unk", "method")


def map_children(t: Term, fn: Callable[[Term], Term]) -> Term:
    """The term with `fn` applied to every direct sub-term."""
    tag = t[0]
    if tag in LEAF_TAGS:
        return t
    if tag == "phi":
        return ("phi", tuple((g, fn(a)) for g, a in t[1]))
    if tag == "comp":
        return ("comp", t[1], fn(t[2]), tuple((fn(tg), fn(it), c) for tg, it, c in t[3]), t[4])
    if tag == "box":
        return ("box", t[1], t[2], fn(t[3]))
    if tag == "new":
        return ("new", t[1], tuple(fn(x) for x in t[2]), tuple((k, fn(v)) for k, v in t[3]), t[4])
    if tag == "call":
        return ("call", fn(t[1]), tuple(fn(x) for x in t[2]), tuple((k, fn(v)) for k, v in t[3]))
    if tag == "mcall":
        return ("mcall", fn(t[1]), t[2], tuple(fn(x) for x in t[3]), tuple((k, fn(v)) for k, v in t[4]))
    if tag == "partial":
        return ("partial", fn(t[1]), tuple(fn(x) for x in t[2]), tuple((k, fn(v)) for k, v in t[3]))
    if tag == "attr":
        return ("attr", fn(t[1]), t[2])
    if tag in ("binop", "cmp"):
        return (tag, t[1], fn(t[2]), fn(t[3]))
    if tag == "unop":
        return ("unop", t[1], fn(t[2]))
    if tag == "boolop":
        return ("boolop", t[1], tuple(fn(x) for x in t[2]))
    if tag in ("fstr", "tuple", "list", "set"):
        return (tag, tuple(fn(x) for x in t[1]))
    if tag == "dict":
        return ("dict", tuple((fn(k), fn(v)) for k, v in t[1]))
    if tag == "star":
        return ("star", fn(t[1]))
    if tag == "yields":
        return ("yields", tuple((g, fn(a)) for g, a in t[1]), t[2])
    if tag == "elem":
        return ("elem", fn(t[1]), t[2])
    if tag == "idx":
        return ("idx", fn(t[1]), fn(t[2]))
    if tag == "slice":
        return ("slice", fn(t[1]), fn(t[2]), fn(t[3]), fn(t[4]))
    if tag == "bound":
        return ("bound", fn(t[1]), t[2])
    return t


def subterms(t: Term) -> list[Term]:
    """All sub-terms in pre-order (guards of choices are formulas, not terms, and are not visited)."""
    out: list[Term] = []

    def visit(x: Term) -> Term:
        out.append(x)
        map_children(x, visit)
        return x

    visit(t)
    return out


def rewrite(t: Term, fn: Callable[[Term], "Term | None"]) -> Term:
    """Bottom-up rewriting; `fn` returns a replacement or None."""
    new = map_children(t, lambda x: rewrite(x, fn))
    r = fn(new)
    return new if r is None else r


def show(t, limit: int = 0) -> str:
    s = _show(t)
    return s if not limit or len(s) <= limit else s[: limit - 3] + "..."


def _show(t) -> str:
    if not isinstance(t, tuple) or not t:
        return repr(t)
    tag = t[0]
    if tag == "const":
        return repr(t[1])
    if tag == "param":
        return t[1]
    if tag in ("lib", "builtin"):
        return t[1]
    if tag in ("fn", "cls"):
        return t[1].rsplit(".", 1)[-1].replace("::", ".")
    if tag == "attr":
        return f"{_show(t[1])}.{t[2]}"
    if tag == "call":
        args = [_show(a) for a in t[2]] + [f"{k}={_show(v)}" for k, v in t[3]]
        return f"{_show(t[1])}({', '.join(args)})"
    if tag == "mcall":
        args = [_show(a) for a in t[3]] + [f"{k}={_show(v)}" for k, v in t[4]]
        return f"{_show(t[1])}.{t[2]}({', '.join(args)})"
    if tag == "new":
        args = [_show(a) for a in t[2]] + [f"{k}={_show(v)}" for k, v in t[3]]
        return f"{t[1].rsplit('.', 1)[-1]}({', '.join(args)})"
    if tag == "box":
        return f"<{t[2]}#{t[1]}>"
    if tag == "elem":
        return f"<item#{t[2]} of {_show(t[1])}>"
    if tag == "idx":
        return f"{_show(t[1])}[{_show(t[2])}]"
    if tag == "slice":
        lo, hi, st = (("" if is_const(x, None) else _show(x)) for x in t[2:5])
        return f"{_show(t[1])}[{lo}:{hi}{':' + st if st else ''}]"
    if tag == "binop":
        return f"({_show(t[2])} {t[1]} {_show(t[3])})"
    if tag == "cmp":
        return f"({_show(t[2])} {t[1]} {_show(t[3])})"
    if tag == "unop":
        return f"({t[1]} {_show(t[2])})"
    if tag == "boolop":
        return "(" + f" {t[1]} ".join(_show(x) for x in t[2]) + ")"
    if tag == "fstr":
        return "f'" + "".join(x[1] if x[0] == "const" and isinstance(x[1], str) else "{" + _show(x) + "}" for x in t[1]) + "'"
    if tag == "tuple":
        return "(" + ", ".join(_show(x) for x in t[1]) + ("," if len(t[1]) == 1 else "") + ")"
    if tag == "list":
        return "[" + ", ".join(_show(x) for x in t[1]) + "]"
    if tag == "set":
        return "{" + ", ".join(_show(x) for x in t[1]) + "}"
    if tag == "dict":
        return "{" + ", ".join(f"{_show(k)}: {_show(v)}" for k, v in t[1]) + "}"
    if tag == "star":
        return "*" + _show(t[1])
    if tag == "comp":
        gens = " ".join(f"for {_show(tg)} in {_show(it)}" + "".join(f" if {show_formula(c)}" for c in cs) for tg, it, cs in t[3])
        l, r = {"list": "[]", "set": "{}", "gen": "()", "dict": "{}"}.get(t[1], "[]")
        return f"{l}{_show(t[2])} {gens}{r}"
    if tag == "phi":
        return "<" + " | ".join(f"{_show(a)} if {show_formula(g)}" for g, a in t[1]) + ">"
    if tag == "yields":
        return "<yields " + " | ".join(f"{_show(a)} if {show_formula(g)}" for g, a in t[1]) + ">"
    if tag == "loopvar":
        return f"<{t[1]}@loop{t[2]}>"
    if tag == "lambda":
        return f"<lambda {t[1]}>"
    if tag == "partial":
        args = [_show(a) for a in t[2]] + [f"{k}={_show(v)}" for k, v in t[3]]
        return f"partial({', '.join([_show(t[1])] + args)})"
    if tag == "unk":
        return f"<{t[1]}>"
    return repr(t)


def phi(alts: list[tuple[Formula, Term]]) -> Term:
    """Guarded choice; nested choices are flattened, equal values merged."""
    flat: list[tuple[Formula, Term]] = []
    for g, a in alts:
        if g == FALSE:
            continue
        if a[0] == "phi":
            for g2, a2 in a[1]:
                h = f_and([g, g2])
                if h != FALSE:
                    flat.append((h, a2))
        else:
            flat.append((g, a))
    merged: list[tuple[Formula, Term]] = []
    for g, a in flat:
        for i, (g0, a0) in enumerate(merged):
            if a0 == a:
                merged[i] = (simplify(f_or([g0, g])), a)
                break
        else:
            merged.append((g, a))
    if not merged:
        return ("unk", "no value", 0)
    if len(merged) == 1:
        return merged[0][1]
    return ("phi", tuple(merged))


# --------------------------------------------------------------------------- execution records


@dataclass
class Loop:
    id: int
    kind: str  # for | while | comp | gen
    iter: Term | None
    target: Term | None
    fi: FuncInfo
    node: ast.AST
    early_exit: bool = False  # the body contains break / return: later iterations may be skipped
    cond: Formula = TRUE  # loop test of a while loop
    exit_guards: list = field(default_factory=list)  # path conditions of the executed break / return statements of this loop

    def exits_only_when_exhausted(self) -> bool:
        """Every break / return of the loop happens under 'a work list is empty' (`while True: if not todo: break`)."""
        if not self.exit_guards:
            return False
        for g in self.exit_guards:
            if g == EXHAUSTED:
                continue
            work = [a for a in atoms_of(g) if a.startswith("bool(<")]
            if not any(implies(g, f_not(atom(a))) for a in work):
                return False
        return True


@dataclass
class Event:
    kind: str  # call | mut | yield | setitem | setattr
    func: Term  # ("lib", fq) | ("builtin", n) | ("fn", fq) | ("cls", fq) | ("method", name) | other term being called
    recv: Term | None
    name: str  # method / function / class short name
    args: tuple
    kwargs: tuple
    pc: tuple  # conjunction of formulas
    loops: tuple
    fi: FuncInfo
    node: ast.AST
    result: Term | None = None
    stack: tuple = ()

    @property
    def guard(self) -> Formula:
        return f_and(self.pc)

    def arg(self, index: int, name: str | None = None) -> Term | None:
        if index < len(self.args) and not any(a[0] == "star" for a in self.args[: index + 1]):
            return self.args[index]
        if name is not None:
            for k, v in self.kwargs:
                if k == name:
                    return v
        return None


class State:
    __slots__ = ("envs", "heap", "pc", "alive")

    def __init__(self, envs: list[dict], heap: dict, pc: tuple, alive: bool = True) -> None:
        self.envs = envs
        self.heap = heap
        self.pc = pc
        self.alive = alive

    def copy(self) -> "State":
        return State([dict(e) for e in self.envs], dict(self.heap), self.pc, self.alive)

    @property
    def env(self) -> dict:
        return self.envs[-1]


@dataclass
class Frame:
    fi: FuncInfo
    self_term: Term | None
    returns: list = field(default_factory=list)  # (pc, term, heap)
    on_yield: "Callable | None" = None
    base_pc: int = 0
    end_states: list = field(default_factory=list)
    partial: bool = False  # some path of the call does not return normally (raise / failed assert / a callee that does not return)


class Trace:
    def __init__(self, sx: "SymX", fi: FuncInfo, events: list[Event], returns: list, final: State | None) -> None:
        self.sx = sx
        self.fi = fi
        self.events = events
        self.returns = returns  # [(pc tuple, term)]
        self.final = final

    def calls(self, name: str | None = None, pred: Callable[[Event], bool] | None = None) -> list[Event]:
        return [e for e in self.events if e.kind in ("call", "mut") and (name is None or e.name == name) and (pred is None or pred(e))]

    def result(self) -> Term:
        return phi([(f_and(pc), t) for pc, t in self.returns])

    def opaque_calls(self, known: Callable[[Event], bool] | None = None) -> list[Event]:
        """Calls the executor could not follow although they run code of the repository (functions it did not enter, callables it
        could not identify): whatever such a call does is invisible in the trace, so the *absence* of an event proves nothing."""
        out = []
        for e in self.events:
            if e.kind != "call" or (known is not None and known(e)):
                continue
            tag = e.func[0]
            if tag == "fn":
                out.append(e)
            elif tag in ("attr", "idx", "mcall", "param", "unk", "elem", "loopvar", "call", "phi", "yields", "lambda", "partial"):
                out.append(e)
            elif tag == "method" and e.name in self.sx.repo_method_names and e.name not in _PURE_METHODS and e.name not in MUTATORS and e.name not in POPPERS:
                out.append(e)  # a method that some class of the repository defines, on a receiver the executor could not resolve
            elif tag == "method" and e.recv is not None and self.sx.is_repo_object(e.recv, self.fi) and not e.name.startswith("__") and e.name not in ("_replace", "_asdict", "_make"):
                out.append(e)  # whatever an object of the repository does when called is code of the repository
            elif tag == "lib" and e.func[1] in ("functools.reduce", "itertools.starmap", "itertools.accumulate") and e.args and e.args[0][0] in ("attr", "fn", "lambda", "partial", "param"):
                out.append(e)  # library functions that call back into the repository
            elif tag == "builtin" and e.name == "map" and e.result in self.sx.expanded:
                continue  # the mapped function was applied to every element where the result was consumed
            elif tag == "builtin" and e.name in ("map", "filter", "sorted", "min", "max") and any(a[0] in ("attr", "fn", "lambda", "partial") for a in [*e.args, *[v for _k, v in e.kwargs]]):
                out.append(e)
        return out

    def atom_term(self, key: str) -> Term | None:
        return self.sx.atoms.get(key)


# --------------------------------------------------------------------------- the executor


class SymX:
    def __init__(
        self,
        repo: Repo,
        types: Types,
        policy: Callable[[FuncInfo, FuncInfo], bool] | None = None,
        keep: Callable[[FuncInfo], bool] | None = None,
        enter_ctor: Callable[[ClassInfo], bool] | None = None,
        max_depth: int = MAX_DEPTH,
        first_id: int = 1,
    ) -> None:
        self.first_id = first_id
        self.repo = repo
        self.T = types
        self.policy = policy
        self.keep = keep
        self.enter_ctor = enter_ctor
        self.max_depth = max_depth
        self.events: list[Event] = []
        self.loops: list[Loop] = []
        self.frames: list[Frame] = []
        self.atoms: dict[str, Term] = {}
        self._ids = itertools.count(first_id)
        self.entry: FuncInfo | None = None
        self.notes: list[str] = []  # constructs that were approximated (diagnostics)
        self.repo_method_names = {n for c in repo.classes.values() for n in c.methods} | {f.name for f in repo.funcs.values() if f.cls is None and f.outer is None}
        self.box_site: dict[int, int] = {}  # box id -> id of the AST node that created it
        self.box_loops: dict[int, tuple] = {}  # box id -> ids of the loops that were running when it was created
        self.gen_calls: dict[int, tuple] = {}  # id of a collected generator run -> (callee, call, receiver, args, kwargs, pure)
        self.box_init: dict[int, Term] = {}  # box id -> contents at creation
        self._iter_loops: dict[Term, tuple] = {}  # iterator term -> loops running when it was created
        self.mutable_sites: set[int] | None = None  # creation sites whose containers are mutated / escape (known after a first pass)
        self._site: ast.AST | None = None
        self._loop_end: State | None = None
        self._class_consts: dict = {}
        self.persistent: set[int] = set()  # ids of containers created in class bodies (state shared by all calls)
        self.expanded: set = set()  # `map(f, ...)` terms whose function was applied to every element where the result was consumed

    # ------------------------------------------------------------------ entry
    def run(self, fi: FuncInfo, args: dict[str, Term] | None = None, self_term: Term | None = None, heap: dict | None = None) -> Trace:
        """Two passes: the first finds out which container displays are ever mutated (or handed to code that is not executed
        here); in the second the emptiness of all other containers is a constant."""
        self.mutable_sites = None
        self._run(fi, args, self_term, heap)
        sites: set[int] = set()
        for e in self.events:
            cands = []
            if e.kind == "mut" and e.recv is not None:
                cands.append(e.recv)
            if e.kind in ("call", "setitem") and (e.func[0] in ("fn", "method", "cls") or e.kind == "setitem"):
                cands += [x for x in ([e.recv] if e.recv is not None and e.kind == "setitem" else [])]
                if e.func[0] in ("fn", "cls") or (e.func[0] == "method" and e.name not in _PURE_METHODS):
                    cands += list(e.args) + [v for _k, v in e.kwargs] + ([e.recv] if e.recv is not None else [])
            for c in cands:
                for x in _direct_boxes(c):
                    if x[1] in self.box_site:
                        sites.add(self.box_site[x[1]])
        self.events = []
        self.loops = []
        self.frames = []
        self.atoms = {}
        self.box_site = {}
        self.box_loops = {}
        self.gen_calls = {}
        self.box_init = {}
        self._iter_loops = {}
        self._class_consts = {}
        self.expanded = set()
        self.persistent = set()
        self._ids = itertools.count(self.first_id)
        self.notes = []
        self.mutable_sites = sites
        return self._run(fi, args, self_term, heap)

    def _run(self, fi: FuncInfo, args: dict[str, Term] | None = None, self_term: Term | None = None, heap: dict | None = None) -> Trace:
        self.entry = fi
        env: dict[str, Term] = {}
        params = fi.param_names
        for i, p in enumerate(params):
            if i == 0 and fi.cls is not None and fi.outer is None and not fi.is_staticmethod:
                env[p] = self_term if self_term is not None else (("cls", fi.cls.fq) if fi.is_classmethod else ("param", p))
            else:
                env[p] = (args or {}).get(p, ("param", p))
        st = State([env], dict(heap or {}), ())
        frame = Frame(fi, env.get(params[0]) if params and fi.cls is not None and not fi.is_staticmethod else None)
        self.frames.append(frame)
        try:
            end = self._block(fi.body, st)
        finally:
            self.frames.pop()
        if end.alive:
            frame.returns.append((end.pc, NONE_T, end.heap))
        return Trace(self, fi, self.events, [(pc, t) for pc, t, _h in frame.returns], end)

    def fresh(self) -> int:
        return next(self._ids)

    def _box(self, kind: str, init: Term, node: ast.AST | None) -> Term:
        bid = self.fresh()
        if node is not None:
            self.box_site[bid] = id(node)
        self.box_loops[bid] = tuple(l.id for l in self.loops)
        self.box_init[bid] = init
        return ("box", bid, kind, init)

    def loops_since_creation(self, it: Term) -> bool:
        """An iterator created outside the loops that are running now may have been advanced by earlier iterations."""
        created = self._iter_loops.get(it)
        return created is None or created != tuple(l.id for l in self.loops)

    @staticmethod
    def _snap(t: Term, st: State) -> Term:
        """A container as it is *now*: its display is replaced by the contents accumulated by the mutations executed so far.
        A copy made by `itertools.tee(s)` is `s` without the elements consumed from it by `next(...)` so far."""
        src = _iterator_source(t)
        if src is not None:
            adv = st.heap.get(("#adv", t), 0)
            if adv < 0:
                return ("unk", "iterator advanced a path-dependent number of times", 0)
            return src if adv == 0 else ("slice", src, const(adv), NONE_T, NONE_T)
        if t[0] == "box":
            cur = st.heap.get(("#box", t[1]))
            if cur is not None and cur != t[3]:
                return ("box", t[1], t[2], cur)
        return t

    def _mutate(self, recv: Term, name: str, args: tuple, st: State) -> None:
        if recv[0] != "box":
            return
        key = ("#box", recv[1])
        cur = st.heap.get(key, recv[3])
        inside = [l.id for l in self.loops if l.id not in self.box_loops.get(recv[1], ())]
        new: Term
        if inside or cur[0] in ("unk", "loopvar") or cur[0] == "call" and cur[1] == FILLED:
            # filled in a loop: order and number of the elements are unknown, but not what they are made of
            old = cur[2] if cur[0] == "call" and cur[1] == FILLED else ((cur,) if cur[0] not in ("unk", "loopvar") and not (cur[0] in ("list", "set", "dict", "tuple") and not cur[1]) else ())
            new = ("call", FILLED, tuple(old) + tuple(a for a in args if a not in old), ())
        elif name in ("append", "add") and len(args) == 1:
            new = ("binop", "+", cur, ("list", (args[0],)))
        elif name in ("extend", "update") and len(args) == 1:
            new = ("binop", "+", cur, args[0])
        elif name == "appendleft" and len(args) == 1 or name == "insert" and len(args) == 2 and is_const(args[0], 0):
            new = ("binop", "+", ("list", (args[-1],)), cur)
        else:
            new = ("unk", f"contents of {recv[2]}#{recv[1]} after {name}", self.fresh())
        st.heap[key] = new

    @property
    def frame(self) -> Frame:
        return self.frames[-1]

    @property
    def fi(self) -> FuncInfo:
        return self.frames[-1].fi

    # ------------------------------------------------------------------ truthiness
    def truth(self, t: Term) -> Formula:
        tag = t[0]
        if tag == "const":
            return ("const", bool(t[1]))
        if tag == "unop" and t[1] == "not":
            return f_not(self.truth(t[2]))
        if tag == "boolop":
            parts = [self.truth(x) for x in t[2]]
            return f_and(parts) if t[1] == "and" else f_or(parts)
        if tag == "phi":
            return simplify(f_or([f_and([g, self.truth(a)]) for g, a in t[1]]))
        if tag == "new":
            ci = self.repo.classes.get(t[1])
            if ci is not None and self.repo.lookup_method(ci, "__bool__") is None and self.repo.lookup_method(ci, "__len__") is None:
                return TRUE
        if tag in ("fn", "cls", "lambda", "lib", "builtin", "partial"):
            return TRUE
        if tag in ("tuple", "list", "set") and not any(x[0] == "star" for x in t[1]):
            return ("const", bool(t[1]))
        if tag == "dict":
            return ("const", bool(t[1]))
        if tag == "fstr":
            if any(x[0] == "const" and x[1] for x in t[1]):
                return TRUE
        if tag == "box":
            site = self.box_site.get(t[1])
            if self.mutable_sites is not None and site is not None and site not in self.mutable_sites:
                init = t[3]
                if init[0] in ("list", "set", "tuple") and not any(x[0] == "star" for x in init[1]):
                    return ("const", bool(init[1]))
                if init[0] == "dict":
                    return ("const", bool(init[1]))
                if init[0] == "call" and len(init[2]) == 1 and not init[3]:
                    return self.truth(init[2][0])
                if init[0] == "call" and not init[2] and not init[3]:
                    return FALSE
            # a mutable container: its truthiness is a fact about one moment only
            key = f"bool({show(t)})@{self.fresh()}"
            return self._atom(("unk", key, 0), key)
        if tag == "mcall" and t[2] in ("split", "rsplit"):
            return TRUE  # str.split never returns an empty list
        if _nonempty_str(t):
            return TRUE
        if tag == "call" and t[1] == ("builtin", "isinstance") and len(t[2]) == 2 and not t[3]:
            # the class of an object constructed on the way is known (records dispatched by the consumer of a generator)
            obj, klass = t[2]
            if obj[0] == "phi":
                return simplify(f_or([f_and([g, self.truth(("call", t[1], (x, klass), ()))]) for g, x in obj[1]]))
            wanted = [klass] if klass[0] == "cls" else list(klass[1]) if klass[0] == "tuple" else []
            if obj[0] == "new" and wanted and all(w[0] == "cls" for w in wanted):
                ci = self.repo.classes.get(obj[1])
                mine = {c.fq for c in self.repo.mro(ci)} if ci is not None else {obj[1]}
                if ci is None or all(w[1] in self.repo.classes for w in wanted):
                    return ("const", any(w[1] in mine for w in wanted))
        if tag == "call" and t[1] == ("builtin", "bool") and len(t[2]) == 1:
            return self.truth(t[2][0])
        if tag == "call" and t[1] == ("builtin", "len") and len(t[2]) == 1:
            return self.truth(t[2][0])
        if tag == "call" and t[1] in (("builtin", "list"), ("builtin", "tuple"), ("builtin", "set"), ("builtin", "sorted")) and len(t[2]) == 1:
            return self.truth(t[2][0])
        if tag == "cmp":
            op, l, r = t[1], t[2], t[3]
            if op in ("==", "!=") and l[0] == "const" and r[0] == "const":
                return ("const", (l[1] == r[1]) == (op == "=="))
            if op in ("==", "!=", "is", "is not"):
                # the class of a freshly constructed object is known
                a_, b_ = (l, r) if l[0] == "cls" else (r, l)
                if a_[0] == "cls" and b_[0] == "call" and b_[1] == ("builtin", "type") and len(b_[2]) == 1 and b_[2][0][0] == "new":
                    return ("const", (a_[1] == b_[2][0][1]) == (op in ("==", "is")))
            if op in ("is", "is not") and (l[0] == "const" or r[0] == "const"):
                a, b = (l, r) if r[0] == "const" else (r, l)
                if a[0] == "const":
                    return ("const", (a[1] is b[1]) == (op == "is"))
                if a[0] == "phi":
                    return simplify(f_or([f_and([g, self.truth(("cmp", op, x, b))]) for g, x in a[1]]))
                if a[0] in ("new", "box", "tuple", "list", "fstr", "fn", "cls", "lambda") and b[1] is None:
                    return ("const", op == "is not")
                if b[1] is None and _never_none(a):
                    return ("const", op == "is not")
            if (l[0] == "phi") != (r[0] == "phi") and op in ("==", "!=", "in", "not in"):
                p_, other, left = (l, r, True) if l[0] == "phi" else (r, l, False)
                return simplify(f_or([f_and([g, self.truth(("cmp", op, x, other) if left else ("cmp", op, other, x))]) for g, x in p_[1]]))
            # len(x) compared with 0 / 1 -> truthiness of x
            if l[0] == "call" and l[1] == ("builtin", "len") and len(l[2]) == 1 and r[0] == "const" and isinstance(r[1], int):
                x = self.truth(l[2][0])
                if (op, r[1]) in ((">", 0), (">=", 1), ("!=", 0)):
                    return x
                if (op, r[1]) in (("==", 0), ("<", 1), ("<=", 0)):
                    return f_not(x)
            if op in ("==", "!="):
                c_, o_ = (l, r) if l[0] == "const" else (r, l)
                if is_const(c_, ".") and o_[0] == "mcall" and o_[2] == "join" and is_const(o_[1], ".") and len(o_[3]) == 1 and _is_path_parts(o_[3][0]):
                    return ("const", op == "!=")  # the parts of a path are never empty or ".": joined with "." they are never "."
                if r[0] == "const" and r[1] is True:
                    return self.truth(l) if op == "==" else f_not(self.truth(l))
                if r[0] == "const" and r[1] is False:
                    return f_not(self.truth(l)) if op == "==" else self.truth(l)
                if r[0] in ("list", "tuple") and not r[1]:
                    return f_not(self.truth(l)) if op == "==" else self.truth(l)
                a, b = sorted([l, r], key=show)
                f = self._atom(("cmp", "==", a, b))
                return f if op == "==" else f_not(f)
            if op in ("in", "not in"):
                f = self._atom(("cmp", "in", l, r))
                return f if op == "in" else f_not(f)
            if op in ("is", "is not"):
                f = self._atom(("cmp", "is", l, r))
                return f if op == "is" else f_not(f)
            if op in ("<", ">=") :
                f = self._atom(("cmp", "<", l, r))
                return f if op == "<" else f_not(f)
            if op in (">", "<="):
                f = self._atom(("cmp", "<", r, l))
                return f if op == ">" else f_not(f)
            return self._atom(t)
        return self._atom(t)

    def _atom(self, t: Term, key: str | None = None) -> Formula:
        key = key or show(t)
        self.atoms.setdefault(key, t)
        return atom(key)

    # ------------------------------------------------------------------ statements
    def _block(self, stmts: list[ast.stmt], st: State) -> State:
        for s in stmts:
            if not st.alive:
                break
            st = self._stmt(s, st)
        return st

    def _stmt(self, s: ast.stmt, st: State) -> State:
        if isinstance(s, ast.Expr):
            if isinstance(s.value, (ast.Yield, ast.YieldFrom)):
                return self._yield(s.value, st)
            self.eval(s.value, st)
            return st
        if isinstance(s, ast.Assign):
            v = self.eval(s.value, st)
            for t in s.targets:
                self._assign(t, v, st, s.value)
            return st
        if isinstance(s, ast.AnnAssign):
            if s.value is not None:
                self._assign(s.target, self.eval(s.value, st), st, s.value)
            return st
        if isinstance(s, ast.AugAssign):
            return self._augassign(s, st)
        if isinstance(s, ast.Return):
            v = self.eval(s.value, st) if s.value is not None else NONE_T
            if st.alive:
                self.frame.returns.append((st.pc, v, dict(st.heap)))
                self.frame.end_states.append(st.copy())
                self._note_exit(s, st)
            st.alive = False
            return st
        if isinstance(s, ast.Raise):
            if s.exc is not None:
                self.eval(s.exc, st)
            if st.alive:
                self.frame.partial = True
            st.alive = False
            return st
        if isinstance(s, (ast.Continue, ast.Break)):
            if isinstance(s, ast.Break) and st.alive:
                self._note_exit(s, st)
            st.alive = False
            return st
        if isinstance(s, ast.If):
            return self._if(s, st)
        if isinstance(s, ast.Match):
            return self._match_cases(self.eval(s.subject, st), list(s.cases), st, s)
        if isinstance(s, (ast.For, ast.AsyncFor)):
            return self._for(s, st)
        if isinstance(s, ast.While):
            return self._while(s, st)
        if isinstance(s, (ast.With, ast.AsyncWith)):
            for it in s.items:
                v = self.eval(it.context_expr, st)
                if it.optional_vars is not None:
                    self._assign(it.optional_vars, v, st, it.context_expr)
            return self._block(s.body, st)
        if isinstance(s, ast.Try):
            pre = st.copy()
            body = self._block(s.body, st)
            if s.orelse and body.alive:
                body = self._block(s.orelse, body)
            outs = [body]
            for h in s.handlers:
                hs = pre.copy()
                for name in _assigned_names(s.body):
                    if name in hs.env:
                        hs.env[name] = ("unk", f"{name} after exception", self.fresh())
                if h.name:
                    hs.env[h.name] = ("unk", "exception", self.fresh())
                outs.append(self._block(h.body, hs))
            out = outs[0]
            for o in outs[1:]:
                out = self._merge(out, o, len(pre.pc))
            if s.finalbody and out.alive:
                out = self._block(s.finalbody, out)
            return out
        if isinstance(s, ast.Assert):
            f = self.truth(self.eval(s.test, st))
            if f != TRUE:
                self.frame.partial = True
            st.pc = st.pc + (f,) if f != TRUE else st.pc
            return st
        if isinstance(s, ast.Delete):
            for t in s.targets:
                if isinstance(t, ast.Subscript):
                    # `del xs[i]` / `del xs[:]`: recorded like the other in-place updates of a container (the key is read off the node)
                    base = self.eval(t.value, st)
                    self._record("delitem", ("builtin", "delitem"), base, "__delitem__", (self.eval(t.slice, st),), (), st, t, None)
                    self._mutate(base, "__delitem__", (), st)
            return st
        if isinstance(s, (ast.Pass, ast.Import, ast.ImportFrom, ast.Global, ast.Nonlocal)):
            return st
        if isinstance(s, (ast.FunctionDef, ast.AsyncFunctionDef)):
            nf = getattr(s, "_func", None)
            st.env[s.name] = ("fn", nf.fq) if nf is not None else ("unk", f"def {s.name}", self.fresh())
            return st
        if isinstance(s, ast.ClassDef):
            st.env[s.name] = ("unk", f"class {s.name}", self.fresh())
            return st
        if isinstance(s, ast.Match):
            subj = self.eval(s.subject, st)
            outs = []
            for i, case in enumerate(s.cases):
                cs = st.copy()
                cs.pc = cs.pc + (self._atom(("unk", f"match {show(subj)} case {i}", 0), f"match({show(subj)})=={i}"),)
                outs.append(self._block(case.body, cs))
            out = st
            for o in outs:
                out = self._merge(out, o, len(st.pc))
            return out
        self.notes.append(f"statement {type(s).__name__} ignored")
        return st

    def _note_exit(self, s: ast.stmt, st: State) -> None:
        """Records the path condition of a break / return at the loops it leaves (the loops it is written in)."""
        from core.loader import ancestors

        enclosing = [a for a in ancestors(s) if isinstance(a, (ast.For, ast.AsyncFor, ast.While))]
        if isinstance(s, ast.Break):
            enclosing = enclosing[:1]
        # `try: x = todo.pop() / next(it)  except IndexError / StopIteration: break` leaves the loop when the work is exhausted
        handler = next((a for a in ancestors(s) if isinstance(a, ast.ExceptHandler)), None)
        exhausted = handler is not None and handler.type is not None and any(
            isinstance(n, ast.Name) and n.id in ("IndexError", "KeyError", "StopIteration", "LookupError", "Empty") or isinstance(n, ast.Attribute) and n.attr in ("Empty",)
            for n in ast.walk(handler.type)
        )
        for l in self.loops:
            if any(l.node is a for a in enclosing):
                l.exit_guards.append(EXHAUSTED if exhausted else f_and(st.pc))

    def _if(self, s: ast.If, st: State) -> State:
        c = self.truth(self.eval(s.test, st))
        base = len(st.pc)
        ctx = f_and(st.pc)
        can_true = c != FALSE and satisfiable(f_and([ctx, c]))
        can_false = c != TRUE and satisfiable(f_and([ctx, f_not(c)]))
        if can_true and not can_false:
            return self._block(s.body, st)
        if can_false and not can_true:
            return self._block(s.orelse, st) if s.orelse else st
        if not can_true and not can_false:
            st.alive = False
            return st
        a = st.copy()
        a.pc = a.pc + (c,)
        b = st
        b.pc = b.pc + (f_not(c),)
        a = self._block(s.body, a)
        b = self._block(s.orelse, b) if s.orelse else b
        return self._merge(a, b, base)

    def _pattern(self, p: ast.pattern, v: Term, st: State) -> "tuple[Formula, list[tuple[str, Term]]]":
        """(condition, captures) of matching the value `v` against a `match` pattern."""
        if isinstance(p, ast.MatchAs):
            if p.pattern is None:
                return TRUE, ([(p.name, v)] if p.name else [])
            c, b = self._pattern(p.pattern, v, st)
            return c, b + ([(p.name, v)] if p.name else [])
        if isinstance(p, ast.MatchValue):
            return self.truth(("cmp", "==", v, self.eval(p.value, st))), []
        if isinstance(p, ast.MatchSingleton):
            return self.truth(("cmp", "is", v, const(p.value))), []
        if isinstance(p, ast.MatchOr):
            alts = [self._pattern(q, v, st) for q in p.patterns]
            if any(b for _c, b in alts):
                return self._atom(("unk", f"match {ast.unparse(p)[:60]}", self.fresh())), [(n, ("unk", f"{n} captured", self.fresh())) for _c, b in alts for n, _t in b]
            return f_or([c for c, _b in alts]), []
        if isinstance(p, ast.MatchClass):
            klass = self.eval(p.cls, st)
            cond = [self.truth(("call", ("builtin", "isinstance"), (v, klass), ()))]
            binds: list[tuple[str, Term]] = []
            fields: "list[str] | None" = None
            if p.patterns:
                ci = self.repo.classes.get(klass[1]) if klass[0] == "cls" else None
                if ci is not None and "__match_args__" not in ci.class_attrs and (ci.is_dataclass or any(b.endswith("NamedTuple") for b in ci.bases)):
                    fields = [a for c in reversed(self.repo.mro(ci)) for a in c.ann_attrs]
            for i, q in enumerate(p.patterns):
                if fields is None or i >= len(fields):
                    return self._atom(("unk", f"match {ast.unparse(p)[:60]}", self.fresh())), [(n.name, ("unk", f"{n.name} captured", self.fresh())) for n in ast.walk(p) if isinstance(n, (ast.MatchAs, ast.MatchStar)) and n.name]
                c, b = self._pattern(q, self._attr(v, fields[i], st, p), st)
                cond.append(c)
                binds += b
            for attr, q in zip(p.kwd_attrs, p.kwd_patterns):
                c, b = self._pattern(q, self._attr(v, attr, st, p), st)
                cond.append(c)
                binds += b
            return f_and(cond), binds
        # sequence / mapping / star patterns: not modelled - an unknown condition, unknown captures
        return self._atom(("unk", f"match {ast.unparse(p)[:60]}", self.fresh())), [(n, ("unk", f"{n} captured", self.fresh())) for x in ast.walk(p) for n in ([x.name] if isinstance(x, (ast.MatchAs, ast.MatchStar)) and x.name else [x.rest] if isinstance(x, ast.MatchMapping) and x.rest else [])]

    def _match_cases(self, v: Term, cases: list, st: State, node: ast.AST) -> State:
        """`match v: case p1: ..; case p2: ..` as the chain `if v matches p1: .. elif v matches p2: ..`."""
        if not cases or not st.alive:
            return st
        case = cases[0]
        c, binds = self._pattern(case.pattern, v, st)
        a = st.copy()
        for name, t in binds:
            a.env[name] = t
        if case.guard is not None:
            c = f_and([c, self.truth(self.eval(case.guard, a))])
        base = len(st.pc)
        ctx = f_and(st.pc)
        can_true = c != FALSE and satisfiable(f_and([ctx, c]))
        can_false = c != TRUE and satisfiable(f_and([ctx, f_not(c)]))
        if can_true and not can_false:
            return self._block(case.body, a)
        if can_false and not can_true:
            return self._match_cases(v, cases[1:], st, node)
        if not can_true and not can_false:
            st.alive = False
            return st
        a.pc = a.pc + (c,)
        b = st
        b.pc = b.pc + (f_not(c),)
        a = self._block(case.body, a)
        b = self._match_cases(v, cases[1:], b, node)
        return self._merge(a, b, base)

    def _merge(self, a: State, b: State, base: int) -> State:
        if not a.alive:
            return b
        if not b.alive:
            return a
        ta, tb = f_and(a.pc[base:]), f_and(b.pc[base:])
        common = a.pc[:base]
        both = simplify(f_or([ta, tb]))
        pc = common if both == TRUE else common + (both,)
        out = State([], {}, pc)
        # guards that distinguish the two branches: as small as possible
        ga, gb = ta, tb
        if f_not(ta) == tb or implies(f_not(ta), tb) and implies(tb, f_not(ta)):
            gb = f_not(ta) if _size(ta) <= _size(tb) else tb
            ga = ta if _size(ta) <= _size(tb) else f_not(tb)
        n = max(len(a.envs), len(b.envs))
        for i in range(n):
            ea = a.envs[i] if i < len(a.envs) else {}
            eb = b.envs[i] if i < len(b.envs) else {}
            env: dict[str, Term] = {}
            for k in {**ea, **eb}:
                va, vb = ea.get(k), eb.get(k)
                if va == vb:
                    env[k] = va
                elif va is None or vb is None:
                    env[k] = phi([(ga, va if va is not None else ("unk", f"{k} unbound", 0)), (gb, vb if vb is not None else ("unk", f"{k} unbound", 0))])
                else:
                    env[k] = phi([(ga, va), (gb, vb)])
            out.envs.append(env)
        for k in {**a.heap, **b.heap}:
            va, vb = a.heap.get(k), b.heap.get(k)
            if va == vb:
                out.heap[k] = va
            elif k[0] == "#adv":
                out.heap[k] = -1  # consumed a path-dependent number of elements: position unknown from here on
            else:
                base_attr = ("attr", k[0], k[1])
                if k[0] == "#box":
                    base_attr = self.box_init.get(k[1], ("unk", f"contents of container #{k[1]}", 0))  # not mutated on that path
                out.heap[k] = phi([(ga, va if va is not None else base_attr), (gb, vb if vb is not None else base_attr)])
        return out

    # ------------------------------------------------------------------ loops
    def _havoc_names(self, st: State, names: set[str], loop_id: int, idx: int = -1) -> None:
        env = st.envs[idx]
        for n in names:
            if n in env:
                env[n] = ("loopvar", n, loop_id)

    def _havoc_heap(self, st: State, keys: set, loop_id: int) -> None:
        for k in keys:
            if k[0] == "#box":
                # a container that is filled in the loop: what it holds is what it held before plus what the loop adds
                prev = st.heap.get(k, self.box_init.get(k[1]))
                if prev is not None and prev[0] == "call" and prev[1] == FILLED:
                    st.heap[k] = prev
                else:
                    keep = () if prev is None or prev[0] in ("unk", "loopvar") or (prev[0] in ("list", "set", "dict", "tuple") and not prev[1]) or (prev[0] == "call" and not prev[2]) else (prev,)
                    st.heap[k] = ("call", FILLED, keep, ())
            else:
                st.heap[k] = ("loopvar", f"{show(k[0])}.{k[1]}", loop_id)

    @staticmethod
    def _keep_filled(st: State, end: "State | None", changed: set) -> None:
        """After a loop, a container filled in it holds (in unknown number and order) what the loop body added."""
        if end is None:
            return
        for k in changed:
            if k[0] == "#box":
                v = end.heap.get(k)
                if v is None:
                    continue
                # also when only some paths through the body add something: the union of what the paths add
                alts = [a for _g, a in v[1]] if v[0] == "phi" else [v]
                if all(a[0] == "call" and a[1] == FILLED for a in alts):
                    elems: list[Term] = []
                    for a in alts:
                        for x in a[2]:
                            if x not in elems:
                                elems.append(x)
                    st.heap[k] = ("call", FILLED, tuple(elems), ())

    def _loop_body(self, loop: Loop, body: list[ast.stmt], make_state: Callable[[set], State]) -> set:
        """Runs the body once; if it stores into fields of objects, runs it again with those fields opaque. Returns the stored keys."""
        changed: set = set()
        for attempt in range(3):
            mark = len(self.events)
            st = make_state(changed)
            self.loops.append(loop)
            self._loop_end = None
            try:
                if st.alive:
                    self._loop_end = self._block(body, st)
            finally:
                self.loops.pop()
            stored = {(e.recv, e.name) for e in self.events[mark:] if e.kind == "setattr"}
            stored |= {("#box", e.recv[1]) for e in self.events[mark:] if e.kind == "mut" and e.recv is not None and e.recv[0] == "box" and e.recv[1] < loop.id}
            new = stored - changed
            if not new or attempt == 2:
                return changed | stored
            changed |= new
            del self.events[mark:]
        return changed

    def _chain_parts(self, node: ast.expr, st: State) -> "list[ast.expr] | None":
        """The iterables that `itertools.chain(a, b, ..)` / `chain.from_iterable([a, b, ..])` / `[*a, *b]` walks one after the other,
        when at least one of them is a generator of the repository (which is then executed in place, element by element)."""
        parts: "list[ast.expr] | None" = None
        if isinstance(node, ast.Call) and not node.keywords:
            try:
                f = self.eval(node.func, st) if isinstance(node.func, (ast.Name, ast.Attribute)) else None
            except AnalysisError:
                f = None
            if f == ("lib", "itertools.chain") and node.args and not any(isinstance(a, ast.Starred) for a in node.args):
                parts = list(node.args)
            elif f is not None and (f == ("lib", "itertools.chain.from_iterable") or f[0] == "attr" and f[1] == ("lib", "itertools.chain") and f[2] == "from_iterable") and len(node.args) == 1 and isinstance(node.args[0], (ast.List, ast.Tuple)) and not any(isinstance(a, ast.Starred) for a in node.args[0].elts):
                parts = list(node.args[0].elts)
        elif isinstance(node, (ast.List, ast.Tuple)) and node.elts and all(isinstance(a, ast.Starred) for a in node.elts):
            parts = [a.value for a in node.elts]
        if not parts or not any(self._generator_callee(a, st) is not None for a in parts):
            return None
        return parts

    def _collected_runs(self, it: Term) -> "list[int] | None":
        """Ids of the collected generator runs whose values `it` holds, in order (`list(gen(..))`, `list(chain(g1(..), g2(..)))`, a
        never-mutated list built from them, `[*g1(..), *g2(..)]`); None when it holds anything else or a run had effects."""
        t = it
        for _ in range(6):
            if t[0] == "call" and t[1] in (("builtin", "list"), ("builtin", "tuple"), ("builtin", "iter")) and len(t[2]) == 1 and not t[3]:
                t = t[2][0]
            elif t[0] == "box" and t[2] in ("list", "tuple") and self._never_mutated(t):
                t = t[3]
            else:
                break
        if t[0] == "yields":
            run = self.gen_calls.get(t[2])
            return [t[2]] if run is not None and run[5] else None
        parts = None
        if t[0] == "call" and t[1] == ("lib", "itertools.chain") and t[2] and not t[3]:
            parts = [x for x in t[2]]
        elif t[0] == "binop" and t[1] == "+":
            parts = [t[2], t[3]]
        elif t[0] in ("list", "tuple") and t[1] and all(x[0] == "star" for x in t[1]):
            parts = [x[1] for x in t[1]]
        if parts is None:
            return None
        out: list[int] = []
        for x in parts:
            sub = self._collected_runs(x)
            if sub is None:
                return None
            out += sub
        return out

    def _for(self, s: ast.For, st: State) -> State:
        targets = _names_of_target(s.target)
        assigned = (_assigned_names(s.body) - self._inplace_only(s.body, st)) | targets
        early = _exits_early(s.body)
        parts = None if early or s.orelse else self._chain_parts(s.iter, st)
        if parts is not None:
            # a loop over a concatenation is the sequence of the loops over its parts (same target, same body)
            for a in parts:
                if not st.alive:
                    break
                piece = ast.For(target=s.target, iter=a, body=s.body, orelse=[], lineno=s.lineno, col_offset=s.col_offset)
                ast.copy_location(piece, s)
                st = self._for(piece, st)
            return st
        gen = self._generator_callee(s.iter, st)
        if gen is not None:
            # a repo generator: executed in place, the loop body runs at every `yield`
            st = self._for_generator(s, st, gen, assigned, early)
        else:
            it = self.eval(s.iter, st)
            lazy = None if early or s.orelse else self._collected_runs(it)
            if lazy:
                # the values were collected from generators that change nothing: the loop is the sequence of loops over these runs
                for gid in lazy:
                    callee_, call_, recv_, args_, kwargs_, _pure = self.gen_calls[gid]
                    if not st.alive or len(self.frames) > self.max_depth or callee_.fq in [f.fi.fq for f in self.frames]:
                        break
                    st = self._for_generator(s, st, (callee_, call_), assigned, early, operands=(recv_, args_, kwargs_))
                else:
                    return st
            items = self._display_items(it)
            if items is None and not (it[0] == "box" and it[3][0] in ("list", "tuple") and not it[3][1]):
                items = self._elements(it, st)
            if items is not None and 1 <= len(items) <= 6 and not _has_loop_control(s.body):
                # a loop over a display of known elements is executed element by element
                for el in items:
                    if not st.alive:
                        break
                    self._assign(s.target, el, st, None)
                    st = self._block(s.body, st)
                if s.orelse and st.alive:
                    st = self._block(s.orelse, st)
                return st
            pre = st.copy()
            lid = self.fresh()
            loop = Loop(lid, "for", it, None, self.fi, s, early)

            counters = self._induction_variables(s, pre)
            lags = self._lag_variables(s, pre, it)

            def make(changed: set) -> State:
                b = pre.copy()
                self._havoc_names(b, assigned, lid)
                self._havoc_heap(b, changed, lid)
                j = ("elem", ("call", ("builtin", "range"), (("call", ("builtin", "len"), (it,), ()),), ()), lid)
                for name, start in counters.items():
                    b.env[name] = j if start == 0 else ("binop", "+", j, const(start))
                for name, seq_ in lags.items():
                    b.env[name] = ("idx", seq_, j)  # the element before the current one
                self._bind_iteration(s.target, it, b, lid)
                return b

            changed = self._loop_body(loop, s.body, make)
            end = self._loop_end
            st = pre
            for n in assigned:
                if n in st.env or n in targets:
                    st.env[n] = ("loopvar", n, lid)
            self._havoc_heap(st, changed, lid)
            self._keep_filled(st, end, changed)
        if s.orelse and st.alive:
            st = self._block(s.orelse, st)
        return st

    def _display_items(self, it: Term) -> "list[Term] | None":
        """Elements of a tuple / list display that is iterated as written (never mutated, no unpacking inside)."""
        src = it
        view = None
        if src[0] == "mcall" and src[2] in ("items", "values", "keys") and not src[3] and src[1][0] == "box" and src[1][2] == "dict":
            view, src = src[2], src[1]  # the entries of a dict display, in the order they are written
        if src[0] == "box":
            if not self._never_mutated(src):
                return None
            src = src[3]
        if view is not None:
            if src[0] != "dict" or any(is_const(k, "**") for k, _v in src[1]):
                return None
            return [("tuple", (k, v)) if view == "items" else v if view == "values" else k for k, v in src[1]]
        if src[0] in ("tuple", "list") and not any(x[0] == "star" for x in src[1]):
            return list(src[1])
        return None

    def _elements(self, t: Term, st: State, call: "ast.Call | None" = None, limit: int = 6) -> "list[Term] | None":
        """The elements of a sequence whose length is known where it is written (at most `limit`): displays (with
        spliced parts), never-mutated containers made from them, list()/tuple()/iter()/reversed() of them, `map(f, ...)`
        and `zip(...)` over them (with `itertools.repeat` operands), comprehensions without filter over them,
        NamedTuple instances, generators whose yields are all unconditional."""
        src = t
        if src[0] == "box":
            if not self._never_mutated(src):
                return None
            src = src[3]
        if src[0] == "call" and src[1] in (("builtin", "list"), ("builtin", "tuple"), ("builtin", "iter"), ("builtin", "reversed"), ("builtin", "set")) and src[2] and not src[3]:
            inner = self._elements(src[2][0], st, call, limit)
            if inner is None or src[1][1] == "set":
                return None
            return inner[::-1] if src[1][1] == "reversed" else inner
        if src[0] in ("tuple", "list"):
            out: list[Term] = []
            for x in src[1]:
                if x[0] == "star":
                    inner = self._elements(x[1], st, call, limit)
                    if inner is None:
                        return None
                    out += inner
                else:
                    out.append(x)
            return out if len(out) <= limit else None
        if src[0] == "new":
            return self._tuple_fields(src)
        if src[0] == "mcall" and src[2] in ("items", "values", "keys") and not src[3]:
            return self._display_items(src)
        if src[0] == "call" and src[1] in (("builtin", "map"), ("builtin", "zip")) and not src[3]:
            is_map = src[1][1] == "map"
            operands = src[2][1:] if is_map else src[2]
            if not operands or (is_map and src[2][0][0] not in ("cls", "fn", "lambda", "attr", "partial", "bound", "call", "builtin", "lib")):
                return None
            cols: list["list[Term] | Term"] = []
            n = None
            for a in operands:
                if a[0] == "call" and a[1] == ("lib", "itertools.repeat") and len(a[2]) == 1:
                    cols.append(a[2][0])
                    continue
                inner = self._elements(a, st, call, limit)
                if inner is None:
                    return None
                cols.append(inner)
                n = len(inner) if n is None else min(n, len(inner))
            if n is None:
                return None
            rows = [tuple(c[i] if isinstance(c, list) else c for c in cols) for i in range(n)]
            if is_map:
                self.expanded.add(src)
                return [self._apply(src[2][0], row, (), st, call) for row in rows]
            return [("tuple", row) for row in rows]
        if src[0] == "comp" and src[1] in ("list", "gen") and len(src[3]) == 1 and not src[3][0][2]:
            tgt, source, _c = src[3][0]
            items = self._elements(source, st, call, limit)
            if items is not None:
                if tgt[0] == "elem":
                    return [rewrite(src[2], lambda x, e=e: e if x == tgt else None) for e in items]
                if tgt[0] == "tuple" and all(e[0] == "tuple" and len(e[1]) == len(tgt[1]) for e in items):
                    # `for a, b in display_of_pairs`: each target component stands for the matching component of the element
                    return [rewrite(src[2], lambda x, e=e: dict(zip(tgt[1], e[1])).get(x)) for e in items]
            return None
        if src[0] == "yields" and src[1] and len(src[1]) <= limit and all(g == TRUE for g, _v in src[1]):
            return [v for _g, v in src[1]]
        return None

    def _inplace_only(self, body: list[ast.stmt], st: State) -> set[str]:
        """Names that hold a container and are only updated in place (`xs += ...`) in the loop body: they keep their identity."""
        aug: set[str] = set()
        other: set[str] = set()
        for b in body:
            for n in _walk_own(b):
                if isinstance(n, ast.AugAssign) and isinstance(n.target, ast.Name) and isinstance(n.op, (ast.Add, ast.BitOr)):
                    aug.add(n.target.id)
                elif isinstance(n, ast.Name) and isinstance(n.ctx, (ast.Store, ast.Del)):
                    other.add(n.id)
        # the Store context of an AugAssign target is visited as a Name as well: count plain stores separately
        plain: set[str] = set()
        for b in body:
            for n in _walk_own(b):
                tg: list[ast.AST] = []
                if isinstance(n, ast.Assign):
                    tg = list(n.targets)
                elif isinstance(n, (ast.AnnAssign, ast.For, ast.AsyncFor, ast.NamedExpr)):
                    tg = [n.target]
                elif isinstance(n, (ast.With, ast.AsyncWith)):
                    tg = [i.optional_vars for i in n.items if i.optional_vars is not None]
                elif isinstance(n, ast.comprehension):
                    tg = [n.target]
                for t in tg:
                    plain |= {x.id for x in ast.walk(t) if isinstance(x, ast.Name)}
        # `xs += [..]` / `xs += [.. for ..]`: only a list can be extended by a list, whatever xs is known to be
        listy: dict[str, bool] = {}
        for b in body:
            for n in _walk_own(b):
                if isinstance(n, ast.AugAssign) and isinstance(n.target, ast.Name) and isinstance(n.op, ast.Add):
                    listy[n.target.id] = listy.get(n.target.id, True) and isinstance(n.value, (ast.List, ast.ListComp))
        return {n for n in aug - plain if st.env.get(n, ("x",))[0] == "box" or listy.get(n, False)}

    @staticmethod
    def _lag_variables(s: ast.For, pre: State, it: Term) -> dict[str, Term]:
        """`prev` in `prev = s[0]; for cur in s[1:]: ...; prev = cur` holds s[j] in iteration j (the element before `cur`)."""
        out: dict[str, Term] = {}
        if not isinstance(s.target, ast.Name) or not s.body or any(isinstance(n, ast.Continue) for b in s.body for n in _walk_own(b)):
            return out
        last = s.body[-1]
        if not (isinstance(last, ast.Assign) and len(last.targets) == 1 and isinstance(last.targets[0], ast.Name) and isinstance(last.value, ast.Name) and last.value.id == s.target.id):
            return out
        name = last.targets[0].id
        stores = [n for b in s.body for n in _walk_own(b) if isinstance(n, ast.Name) and n.id == name and isinstance(n.ctx, (ast.Store, ast.Del))]
        cur = pre.env.get(name)
        if len(stores) != 1 or cur is None:
            return out
        if cur[0] == "idx" and is_const(cur[2], 0) and it == ("slice", cur[1], const(1), NONE_T, NONE_T):
            out[name] = cur[1]
        elif it[0] != "box" and not any(x[0] in ("loopvar",) for x in subterms(cur)):
            # `prev = first; for cur in seq: ...; prev = cur`: in iteration j, prev is element j of `[first] + seq`
            out[name] = ("binop", "+", ("list", (cur,)), it)
        return out

    @staticmethod
    def _induction_variables(s: ast.For, pre: State) -> dict[str, int]:
        """Locals that count the iterations: an integer constant before the loop, `+= 1` exactly once per iteration as a statement
        of the loop body itself (not nested), never assigned otherwise and never skipped by `continue`."""
        out: dict[str, int] = {}
        if any(isinstance(n, ast.Continue) for b in s.body for n in _walk_own(b)):
            return out
        for stmt in s.body:
            if isinstance(stmt, ast.AugAssign) and isinstance(stmt.target, ast.Name) and isinstance(stmt.op, ast.Add) and isinstance(stmt.value, ast.Constant) and stmt.value.value == 1:
                name = stmt.target.id
                stores = [n for b in s.body for n in _walk_own(b) if isinstance(n, ast.Name) and n.id == name and isinstance(n.ctx, (ast.Store, ast.Del))]
                cur = pre.env.get(name)
                if len(stores) == 1 and cur is not None and cur[0] == "const" and isinstance(cur[1], int) and not isinstance(cur[1], bool):
                    out[name] = cur[1]
        return out

    def _while(self, s: ast.While, st: State) -> State:
        assigned = _assigned_names(s.body) - self._inplace_only(s.body, st)
        early = _exits_early(s.body)
        pre = st.copy()
        lid = self.fresh()
        loop = Loop(lid, "while", None, None, self.fi, s, early)

        index = self._while_index(s, pre, assigned)

        def make(changed: set) -> State:
            b = pre.copy()
            self._havoc_names(b, assigned, lid)
            self._havoc_heap(b, changed, lid)
            if index is not None:
                name, start, stop_node = index
                b.env[name] = ("elem", ("call", ("builtin", "range"), (const(start), self.eval(stop_node, b)), ()), lid)
                loop.cond = TRUE
                return b
            c = self.truth(self.eval(s.test, b))
            loop.cond = c
            if c == FALSE:
                b.alive = False
            elif c != TRUE:
                b.pc = b.pc + (c,)
            return b

        changed = self._loop_body(loop, s.body, make)
        end = self._loop_end
        post = pre
        self._havoc_names(post, assigned, lid)
        self._havoc_heap(post, changed, lid)
        self._keep_filled(post, end, changed)
        if s.orelse:
            post = self._block(s.orelse, post)
        return post

    @staticmethod
    def _while_index(s: ast.While, pre: State, assigned: set[str]) -> "tuple[str, int, ast.expr] | None":
        """`i = c; while i < stop: ...; i += 1` (i never assigned otherwise, no continue, stop not changed by the body):
        i runs through range(c, stop)."""
        t = s.test
        if not (isinstance(t, ast.Compare) and len(t.ops) == 1 and isinstance(t.ops[0], (ast.Lt, ast.NotEq)) and isinstance(t.left, ast.Name)):
            return None
        name = t.left.id
        cur = pre.env.get(name)
        if cur is None or cur[0] != "const" or not isinstance(cur[1], int) or isinstance(cur[1], bool):
            return None
        if any(isinstance(n, ast.Continue) for b in s.body for n in _walk_own(b)):
            return None
        incs = [st_ for st_ in s.body if isinstance(st_, ast.AugAssign) and isinstance(st_.target, ast.Name) and st_.target.id == name and isinstance(st_.op, ast.Add) and isinstance(st_.value, ast.Constant) and st_.value.value == 1]
        stores = [n for b in s.body for n in _walk_own(b) if isinstance(n, ast.Name) and n.id == name and isinstance(n.ctx, (ast.Store, ast.Del))]
        if len(incs) != 1 or len(stores) != 1:
            return None
        stop = t.comparators[0]
        if any(isinstance(n, ast.Name) and n.id in assigned for n in ast.walk(stop)):
            return None
        return name, cur[1], stop

    def _iter_source(self, it: Term) -> Term:
        """The iterated value behind list() / tuple() / iter() wrappers and never-mutated copies."""
        src = it
        while src[0] == "call" and src[1] in (("builtin", "list"), ("builtin", "tuple"), ("builtin", "iter")) and len(src[2]) == 1:
            src = src[2][0]
        while src[0] == "box" and src[3][0] == "call" and src[3][1] in (("builtin", "list"), ("builtin", "set")) and len(src[3][2]) == 1 and self._never_mutated(src):
            src = src[3][2][0]
            while src[0] == "call" and src[1] in (("builtin", "list"), ("builtin", "tuple"), ("builtin", "iter")) and len(src[2]) == 1:
                src = src[2][0]
        return src

    def _bind_iteration(self, target: ast.expr, it: Term, st: State, lid: int) -> None:
        """Binds the loop target(s) to symbolic elements of the iterated term."""
        src = self._iter_source(it)
        if src[0] == "call" and src[1] == ("builtin", "zip") and isinstance(target, (ast.Tuple, ast.List)) and len(target.elts) == len(src[2]):
            for i, el in enumerate(target.elts):
                self._assign(el, ("idx", ("elem", src, lid), const(i)), st, None)
            return
        if src[0] == "call" and src[1] == ("builtin", "enumerate") and isinstance(target, (ast.Tuple, ast.List)) and len(target.elts) == 2 and src[2]:
            start = src[2][1] if len(src[2]) > 1 else next((v for k, v in src[3] if k == "start"), const(0))
            j = ("elem", ("call", ("builtin", "range"), (("call", ("builtin", "len"), (src[2][0],), ()),), ()), lid)
            self._assign(target.elts[0], j if is_const(start, 0) else ("binop", "+", j, start), st, None)
            self._assign(target.elts[1], self._element(src[2][0], st, lid), st, None)
            return
        if src[0] == "mcall" and src[2] == "items" and isinstance(target, (ast.Tuple, ast.List)) and len(target.elts) == 2:
            key = ("elem", src[1], lid)
            self._assign(target.elts[0], key, st, None)
            self._assign(target.elts[1], ("idx", src[1], key), st, None)
            return
        self._assign(target, self._element(it, st, lid), st, None)

    def _element(self, it: Term, st: State, lid: int) -> Term:
        """The symbolic element of one iteration over `it` (conditions under which the source produces it are added to the
        path condition)."""
        src = self._iter_source(it)
        if src[0] == "yields":
            # one of the yielded values, under the condition of its yield
            if src[1]:
                g = simplify(f_or([g_ for g_, _v in src[1]]))
                if g != TRUE:
                    st.pc = st.pc + (g,)
            return phi(list(src[1])) if src[1] else ("unk", "nothing yielded", 0)
        single = src[3] if src[0] == "box" and self._never_mutated(src) else src
        if single[0] in ("list", "tuple", "set") and len(single[1]) == 1 and single[1][0][0] != "star":
            return single[1][0]  # a display with exactly one element
        if src[0] == "comp" and src[1] in ("list", "gen", "set"):
            # iterating a comprehension: its element, under its filters
            for _tg, _it, conds in src[3]:
                for c in conds:
                    if c != TRUE:
                        st.pc = st.pc + (c,)
            return src[2]
        if src[0] == "phi" and any(self._iter_source(a)[0] in ("comp", "yields", "phi") or self._is_map(self._iter_source(a)) for _g, a in src[1]):
            # one of several pipelines: the element of each under the condition it was chosen
            saved = st.pc
            alts = []
            for g, a in src[1]:
                st.pc = saved + (g,)
                el = self._element(a, st, lid)
                alts.append((simplify(f_and(st.pc[len(saved):])), el))
            st.pc = saved
            total = simplify(f_or([g for g, _e in alts]))
            if total != TRUE:
                st.pc = st.pc + (total,)
            return phi(alts)
        if self._is_map(src):
            self.expanded.add(src)
            moving = [a for a in src[2][1:] if not (a[0] == "call" and a[1] == ("lib", "itertools.repeat") and len(a[2]) == 1)]
            operands = []
            for a in src[2][1:]:
                if a[0] == "call" and a[1] == ("lib", "itertools.repeat") and len(a[2]) == 1:
                    operands.append(a[2][0])
                elif len(moving) == 1:
                    operands.append(self._element(a, st, lid))
                else:
                    operands.append(("idx", ("elem", ("call", ("builtin", "zip"), tuple(moving), ()), lid), const(len([o for o in operands if o[0] == "idx"]))))
            return self._apply(src[2][0], tuple(operands), (), st, None)
        return ("elem", it, lid)

    @staticmethod
    def _is_map(src: Term) -> bool:
        return src[0] == "call" and src[1] == ("builtin", "map") and len(src[2]) >= 2 and not src[3] and (
            src[2][0][0] in ("cls", "fn", "lambda", "attr", "partial", "bound")
            or src[2][0][0] == "call" and src[2][0][1][0] == "lib" and src[2][0][1][1].startswith("operator.")
        )

    def _never_mutated(self, box: Term) -> bool:
        site = self.box_site.get(box[1])
        return self.mutable_sites is not None and site is not None and site not in self.mutable_sites

    # -- generators executed inside the consuming for loop
    def _generator_callee(self, node: ast.expr, st: State) -> "tuple[FuncInfo, ast.Call] | None":
        if not isinstance(node, ast.Call) or len(self.frames) > self.max_depth:
            return None
        callee: FuncInfo | None = None
        if isinstance(node.func, ast.Name):
            ft = self._name(node.func, st)
            if ft[0] == "fn":
                callee = self.repo.funcs.get(ft[1])
        else:
            callee = self._resolve(node, st)
        if callee is None or not _is_generator(callee) or callee.fq in [f.fi.fq for f in self.frames]:
            return None
        if self.keep is not None and self.keep(callee):
            return None
        return callee, node

    def _for_generator(self, s: ast.For, st: State, gen: "tuple[FuncInfo, ast.Call]", assigned: set[str], early: bool, operands: "tuple | None" = None) -> State:
        callee, call = gen
        depth = len(st.envs)
        lid = self.fresh()
        loop = Loop(lid, "gen", ("fn", callee.fq), None, self.fi, s, early)
        caller_frame = self.frame
        recv, args, kwargs = operands if operands is not None else self._call_operands(call, st)
        self._havoc_names(st, assigned, lid)
        targets = _names_of_target(s.target)

        def on_yield(value: Term, gst: State) -> State:
            saved_envs = gst.envs[depth:]
            saved_pc = gst.pc
            gst.envs = gst.envs[:depth]
            self._havoc_names(gst, assigned - targets, lid)
            self.frames.append(caller_frame)
            self.loops.append(loop)
            try:
                self._assign(s.target, value, gst, None)
                end = self._block(s.body, gst)
            finally:
                self.loops.pop()
                self.frames.pop()
            # the consumer's `continue` / the end of its body resume the generator after the yield
            if not end.alive:
                end = gst
                end.alive = True
            end.envs = end.envs[:depth] + saved_envs
            end.pc = saved_pc
            self._havoc_names(end, assigned, lid, depth - 1)
            return end

        _res, out = self._enter(callee, call, recv, args, kwargs, st, on_yield=on_yield)
        out.alive = True
        for n in assigned:
            if n in out.env or n in targets:
                out.env[n] = ("loopvar", n, lid)
        return out

    def _yield(self, node: ast.AST, st: State) -> State:
        fr = self.frame
        if isinstance(node, ast.YieldFrom) and fr.on_yield is not None:
            # `yield from gen(...)`: every value of the inner generator goes to the same consumer
            gen = self._generator_callee(node.value, st)
            if gen is not None:
                callee, call = gen
                recv, args, kwargs = self._call_operands(call, st)
                _res, out = self._enter(callee, call, recv, args, kwargs, st, on_yield=fr.on_yield)
                out.alive = True
                return out
            parts = self._chain_parts(node.value, st)
            if parts is not None:
                for a in parts:
                    piece = ast.YieldFrom(value=a)
                    ast.copy_location(piece, node)
                    st = self._yield(piece, st)
                    st.alive = True
                return st
            inner = self.eval(node.value, st)
            if inner[0] == "yields":
                saved = st.pc
                for g, v_ in inner[1]:
                    st.pc = saved + ((g,) if g != TRUE else ())
                    st = fr.on_yield(v_, st)
                    st.alive = True
                st.pc = saved
                return st
            lid = self.fresh()
            probe = ast.Name(id="<yielded>", ctx=ast.Store())
            self._bind_iteration(probe, inner, st, lid)
            v = st.env.pop("<yielded>")
            return fr.on_yield(v, st)
        if isinstance(node, ast.YieldFrom):
            v: Term = ("elem", self.eval(node.value, st), self.fresh())
        else:
            v = self.eval(node.value, st) if node.value is not None else NONE_T
        if not st.alive:
            return st
        if fr.on_yield is not None:
            return fr.on_yield(v, st)
        self._record("yield", ("builtin", "yield"), None, "yield", (v,), (), st, node, None)
        return st

    # ------------------------------------------------------------------ assignment
    def _assign(self, target: ast.expr, v: Term, st: State, value_node: ast.expr | None) -> None:
        if isinstance(target, ast.Name):
            st.env[target.id] = v
        elif isinstance(target, (ast.Tuple, ast.List)):
            star = next((i for i, el in enumerate(target.elts) if isinstance(el, ast.Starred)), None)
            if star is not None:
                after = len(target.elts) - star - 1
                for i, el in enumerate(target.elts):
                    if i < star:
                        self._assign(el, ("idx", v, const(i)), st, None)
                    elif i == star:
                        self._assign(el.value, ("slice", v, const(i) if i else NONE_T, const(-after) if after else NONE_T, NONE_T), st, None)
                    else:
                        self._assign(el, ("idx", v, const(i - len(target.elts))), st, None)
                return
            items = self._unpack(v, len(target.elts), st)
            for i, el in enumerate(target.elts):
                self._assign(el, items[i], st, None)
        elif isinstance(target, ast.Attribute):
            base = self.eval(target.value, st)
            if base[0] == "box":
                base = ("box", base[1], base[2], ("unk", "", 0))  # fields are keyed by the identity of a container
            st.heap[(base, target.attr)] = v
            self._record("setattr", ("builtin", "setattr"), base, target.attr, (v,), (), st, target, None)
        elif isinstance(target, ast.Subscript):
            base = self.eval(target.value, st)
            key = self.eval(target.slice, st)
            self._record("setitem", ("builtin", "setitem"), base, "__setitem__", (key, v), (), st, target, None)
        elif isinstance(target, ast.Starred):
            self._assign(target.value, v, st, None)

    def _unpack(self, v: Term, n: int, st: State) -> list[Term]:
        if v[0] in ("tuple", "list") and len(v[1]) == n and not any(x[0] == "star" for x in v[1]):
            return list(v[1])
        if v[0] == "box" and v[3][0] in ("tuple", "list") and len(v[3][1]) == n:
            return list(v[3][1])
        if v[0] == "phi":
            cols = [self._unpack(a, n, st) for _g, a in v[1]]
            return [phi([(g, col[i]) for (g, _a), col in zip(v[1], cols)]) for i in range(n)]
        items = self._elements(v, st)
        if items is not None and len(items) == n:
            return items
        return [("idx", v, const(i)) for i in range(n)]

    def _augassign(self, s: ast.AugAssign, st: State) -> State:
        cur = self.eval(s.target, st)
        val = self.eval(s.value, st)
        op = _BINOPS.get(type(s.op), "?")
        if cur[0] not in ("box", "binop", "list", "tuple") and op == "+" and (val[0] in ("list",) or val[0] == "box" and val[2] == "list" or val[0] == "comp" and val[1] == "list") and isinstance(s.target, ast.Name):
            # `xs += [..]` with a list on the right: xs is a list, extended in place (the name keeps denoting the same object);
            # a value that was just built by a display / concatenation has no other name: the rebinding below describes it
            self._record("mut", ("method", "extend"), cur, "extend", (val,), (), st, s, None)
            self._mutate(cur, "extend", (val,), st)
            return st
        if cur[0] == "box" and op in ("+", "|"):
            self._record("mut", ("method", "extend" if op == "+" else "update"), cur, "extend" if op == "+" else "update", (val,), (), st, s, None)
            self._mutate(cur, "extend" if op == "+" else "update", (val,), st)
            return st
        if isinstance(s.target, ast.Name):
            # (what is accumulated in a rebound name, e.g. `seen += (x,)`, stays visible to the rules)
            self._record("aug", ("builtin", "augassign"), cur, s.target.id, (val,), (("op", const(op)),), st, s, None)
        self._assign(s.target, ("binop", op, cur, val), st, None)
        return st

    # ------------------------------------------------------------------ expressions
    def eval(self, e: ast.expr | None, st: State) -> Term:
        if e is None:
            return NONE_T
        try:
            return self._eval(e, st)
        except RecursionError:
            raise AnalysisError("symbolic execution: recursion limit")

    def _eval(self, e: ast.expr, st: State) -> Term:
        if isinstance(e, ast.Constant):
            return const(e.value)
        if isinstance(e, ast.Name):
            return self._name(e, st)
        if isinstance(e, ast.Attribute):
            return self._attr(self.eval(e.value, st), e.attr, st, e)
        if isinstance(e, ast.Call):
            return self._call(e, st)
        if isinstance(e, ast.JoinedStr):
            items: list[Term] = []
            for v in e.values:
                if isinstance(v, ast.Constant):
                    items.append(const(v.value))
                elif isinstance(v, ast.FormattedValue):
                    x = self.eval(v.value, st)
                    if v.conversion not in (-1, 115) or v.format_spec is not None:
                        x = ("call", ("builtin", "format"), (x,), ())
                    items.append(x)
            if all(x[0] == "const" for x in items):
                return const("".join(str(x[1]) for x in items))
            return ("fstr", tuple(items))
        if isinstance(e, ast.BinOp):
            l, r = self.eval(e.left, st), self.eval(e.right, st)
            op = _BINOPS.get(type(e.op), "?")
            if l[0] == "const" and r[0] == "const" and op == "+" and type(l[1]) is type(r[1]) and isinstance(l[1], (str, int)):
                return const(l[1] + r[1])
            if op == "%" and l[0] == "const" and isinstance(l[1], str) and "%" in l[1]:
                # old-style formatting with %s placeholders only: the same text as an f-string
                vals = list(r[1]) if r[0] == "tuple" else [r]
                pieces = l[1].split("%s")
                if len(pieces) == len(vals) + 1 and not any("%" in p_ for p_ in pieces) and not any(v_[0] == "star" for v_ in vals):
                    items_: list[Term] = []
                    for i_, p_ in enumerate(pieces):
                        if p_:
                            items_.append(const(p_))
                        if i_ < len(vals):
                            items_.append(vals[i_])
                    return ("fstr", tuple(items_))
            return ("binop", op, l, r)
        if isinstance(e, ast.UnaryOp):
            x = self.eval(e.operand, st)
            if isinstance(e.op, ast.Not):
                f = self.truth(x)
                return const(not f[1]) if f[0] == "const" else ("unop", "not", x)
            if isinstance(e.op, ast.USub) and x[0] == "const" and isinstance(x[1], (int, float)):
                return const(-x[1])
            return ("unop", {ast.USub: "-", ast.UAdd: "+", ast.Invert: "~"}.get(type(e.op), "?"), x)
        if isinstance(e, ast.BoolOp):
            op = "and" if isinstance(e.op, ast.And) else "or"
            # short circuit: a later operand is only evaluated when the earlier ones did not decide
            items = []
            saved_pc = st.pc
            for v in e.values:
                x = self.eval(v, st)
                items.append(x)
                f = self.truth(x)
                g = f if op == "and" else f_not(f)
                if g == FALSE:
                    break
                if g != TRUE:
                    st.pc = st.pc + (g,)
            st.pc = saved_pc
            if len(items) < len(e.values):
                items = items  # the remaining operands are never evaluated
            # value semantics of `a or b` / `a and b` with decided operands
            out: list[Term] = []
            for x in items[:-1]:
                f = self.truth(x)
                if f[0] == "const":
                    if f[1] == (op == "or"):
                        return x if not out else ("boolop", op, tuple(out + [x]))
                    continue
                out.append(x)
            out.append(items[-1])
            if len(out) > 1 and all(x[0] == "phi" and all(self.truth(a)[0] == "const" for _g, a in x[1]) for x in out[:-1]):
                # `<x if g | y if not g> or z` where each alternative decides by itself: x, y or z under the matching condition
                val = out[-1]
                for x in reversed(out[:-1]):
                    val = phi([(g, a if self.truth(a)[1] == (op == "or") else val) for g, a in x[1]])
                return val
            return out[0] if len(out) == 1 else ("boolop", op, tuple(out))
        if isinstance(e, ast.Compare):
            left = self.eval(e.left, st)
            parts = []
            for op, right in zip(e.ops, e.comparators):
                r = self.eval(right, st)
                parts.append(("cmp", _CMPOPS.get(type(op), "?"), left, r))
                left = r
            return parts[0] if len(parts) == 1 else ("boolop", "and", tuple(parts))
        if isinstance(e, ast.IfExp):
            c = self.truth(self.eval(e.test, st))
            ctx = f_and(st.pc)
            if c == TRUE or not satisfiable(f_and([ctx, f_not(c)])):
                return self.eval(e.body, st)
            if c == FALSE or not satisfiable(f_and([ctx, c])):
                return self.eval(e.orelse, st)
            saved_pc = st.pc
            st.pc = saved_pc + (c,)
            a_val = self.eval(e.body, st)
            st.pc = saved_pc + (f_not(c),)
            b_val = self.eval(e.orelse, st)
            st.pc = saved_pc
            return phi([(c, a_val), (f_not(c), b_val)])
        if isinstance(e, ast.Tuple):
            return ("tuple", tuple(self.eval(x, st) for x in e.elts))
        if isinstance(e, ast.List):
            return self._box("list", ("list", tuple(self.eval(x, st) for x in e.elts)), e)
        if isinstance(e, ast.Set):
            return self._box("set", ("set", tuple(self.eval(x, st) for x in e.elts)), e)
        if isinstance(e, ast.Dict):
            pairs = tuple((self.eval(k, st) if k is not None else const("**"), self.eval(v, st)) for k, v in zip(e.keys, e.values))
            return self._box("dict", ("dict", pairs), e)
        if isinstance(e, ast.Starred):
            return ("star", self.eval(e.value, st))
        if isinstance(e, (ast.ListComp, ast.SetComp, ast.GeneratorExp, ast.DictComp)):
            return self._comp(e, st)
        if isinstance(e, ast.Subscript):
            base = self.eval(e.value, st)
            if isinstance(e.slice, ast.Slice):
                return ("slice", base, self.eval(e.slice.lower, st), self.eval(e.slice.upper, st), self.eval(e.slice.step, st))
            idx = self.eval(e.slice, st)
            seq = base[3] if base[0] == "box" else base
            if seq[0] in ("tuple", "list") and idx[0] == "const" and isinstance(idx[1], int) and not any(x[0] == "star" for x in seq[1]) and -len(seq[1]) <= idx[1] < len(seq[1]) and base[0] != "box":
                return seq[1][idx[1]]
            return ("idx", base, idx)
        if isinstance(e, ast.NamedExpr):
            v = self.eval(e.value, st)
            self._assign(e.target, v, st, e.value)
            return v
        if isinstance(e, ast.Lambda):
            lf = getattr(e, "_func", None)
            return ("lambda", lf.fq) if lf is not None else ("unk", "lambda", self.fresh())
        if isinstance(e, ast.Await):
            return self.eval(e.value, st)
        if isinstance(e, (ast.Yield, ast.YieldFrom)):
            self._yield(e, st)
            return ("unk", "sent value", self.fresh())
        return ("unk", type(e).__name__, self.fresh())

    def _name(self, e: ast.Name, st: State) -> Term:
        if e.id in st.env:
            return self._snap(st.env[e.id], st)
        # closures: enclosing frames of nested functions
        fi = self.fi
        if fi.outer is not None:
            for env in reversed(st.envs[:-1]):
                if e.id in env:
                    return env[e.id]
        return self._global(fi, e.id)

    def _global(self, fi: FuncInfo, name: str) -> Term:
        mod = fi.module
        if name in ("True", "False", "None"):
            return const({"True": True, "False": False, "None": None}[name])
        # nested defs visible by name
        f: FuncInfo | None = fi
        while f is not None:
            for cand in f.module.all_funcs:
                if cand.outer is f and cand.name == name:
                    return ("fn", cand.fq)
            f = f.outer
        if name in mod.functions:
            return ("fn", mod.functions[name].fq)
        if name in mod.classes:
            return ("cls", mod.classes[name].fq)
        if name in mod.constants:
            c = mod.constants[name]
            if isinstance(c, ast.Constant):
                return const(c.value)
            v = self._module_constant(mod, name, c)
            return v if v is not None else ("lib", f"{mod.name}.{name}")
        fq = self.repo.resolve_name(mod, ast.Name(id=name, ctx=ast.Load()))
        if fq is not None:
            if fq in self.repo.classes:
                return ("cls", fq)
            m2, _, attr = fq.rpartition(".")
            om = self.repo.modules.get(m2)
            if om is not None:
                if attr in om.functions:
                    return ("fn", om.functions[attr].fq)
                if attr in om.constants and isinstance(om.constants[attr], ast.Constant):
                    return const(om.constants[attr].value)
                if attr in om.constants:
                    v = self._module_constant(om, attr, om.constants[attr])
                    if v is not None:
                        return v
            return ("lib", fq)
        if name in BUILTINS or hasattr(_builtins, name):
            return ("builtin", name)
        return ("unk", name, 0)

    def _class_of_term(self, base: Term) -> "ClassInfo | None":
        if base[0] in ("new", "cls"):
            return self.repo.classes.get(base[1])
        for fr in reversed(self.frames):
            if fr.self_term is not None and fr.self_term == base and fr.fi.cls is not None:
                return fr.fi.cls
        return None

    def _class_constant(self, base: Term, attr: str) -> "Term | None":
        """`self.NAME` / `Class.NAME` for a class-level assignment of a constant, a display of constants or a simple constructor
        call (evaluated once, in the module of the class)."""
        ci = self._class_of_term(base)
        if ci is None:
            return None
        for c in self.repo.mro(ci):
            if attr in c.methods:
                return None
            expr = c.class_attrs.get(attr)
            if expr is None:
                continue
            key = (c.fq, attr)
            if key in self._class_consts:
                return self._class_consts[key]
            ok = all(isinstance(n, (ast.Constant, ast.Dict, ast.Tuple, ast.List, ast.Set, ast.Name, ast.Attribute, ast.Load, ast.Call, ast.UnaryOp, ast.USub, ast.BinOp, ast.Add)) for n in ast.walk(expr))
            ok = ok and all(not isinstance(n, ast.Call) or (isinstance(n.func, ast.Name) and n.func.id in ("tuple", "frozenset", "list", "dict", "set", "Path", "object")) for n in ast.walk(expr))
            if not ok:
                return None
            probe = FuncInfo(name="<class>", qualname=f"<class {c.name}.{attr}>", node=ast.Lambda(args=ast.arguments(posonlyargs=[], args=[], kwonlyargs=[], kw_defaults=[], defaults=[]), body=expr), module=c.module)
            env = {}
            for other, oexpr in c.class_attrs.items():
                if other != attr and isinstance(oexpr, (ast.Constant, ast.Dict, ast.Tuple)) and (c.fq, other) in self._class_consts:
                    env[other] = self._class_consts[(c.fq, other)]
            for other in c.class_attrs:
                if other != attr and other not in env and any(isinstance(n, ast.Name) and n.id == other for n in ast.walk(expr)):
                    v_other = self._class_constant(("cls", c.fq), other)
                    if v_other is not None:
                        env[other] = v_other
            self.frames.append(Frame(probe, None))
            try:
                v = self.eval(expr, State([env], {}, ()))
            except AnalysisError:
                v = None
            finally:
                self.frames.pop()
            if v is not None:
                self._class_consts[key] = v
                self.persistent |= {x[1] for x in subterms(v) if x[0] == "box"}  # lives as long as the class: shared by all calls
            return v
        return None

    def _module_constant(self, mod, name: str, expr: ast.expr) -> "Term | None":
        """Value of `NAME = Path(".")` / `NAME = ("a", "b")` / `NAME = object()`: side-effect free constructor calls and displays
        of constants, evaluated in the module that defines them."""
        def simple(e: ast.expr) -> bool:
            if isinstance(e, ast.Constant):
                return True
            if isinstance(e, ast.BinOp) and isinstance(e.op, ast.Add):
                return simple(e.left) and simple(e.right)
            if isinstance(e, ast.Name):
                other = mod.constants.get(e.id)
                return other is not None and other is not expr and simple(other)
            if isinstance(e, ast.JoinedStr):
                return all(isinstance(v, ast.Constant) or isinstance(v, ast.FormattedValue) and simple(v.value) for v in e.values)
            if isinstance(e, (ast.Tuple, ast.List)):
                return all(simple(x) for x in e.elts)
            if isinstance(e, ast.Call) and isinstance(e.func, (ast.Name, ast.Attribute)) and not e.keywords:
                fn = e.func.id if isinstance(e.func, ast.Name) else e.func.attr
                return fn in ("Path", "PurePath", "object", "frozenset", "tuple", "maketrans") and all(simple(x) for x in e.args)
            if isinstance(e, ast.Attribute):
                return ast.unparse(e) in ("os.sep", "os.path.sep", "os.extsep", "os.curdir", "os.pardir")
            return False

        if not simple(expr) or isinstance(expr, ast.List):
            return None
        probe = FuncInfo(name="<module>", qualname=f"<module {name}>", node=ast.Lambda(args=ast.arguments(posonlyargs=[], args=[], kwonlyargs=[], kw_defaults=[], defaults=[]), body=expr), module=mod)
        self.frames.append(Frame(probe, None))
        try:
            v = self.eval(expr, State([{}], {}, ()))
        except AnalysisError:
            v = None
        finally:
            self.frames.pop()
        if v is not None and v[0] == "call" and v[1] == ("builtin", "object"):
            return ("lib", f"{mod.name}.{name}")  # a sentinel: only its identity matters
        return v

    def _attr(self, base: Term, attr: str, st: State, node: ast.AST | None) -> Term:
        if base[0] == "box":
            base = ("box", base[1], base[2], ("unk", "", 0))  # fields are keyed by the identity of a container, not by its contents
        if (base, attr) in st.heap:
            return self._snap(st.heap[(base, attr)], st)
        if base[0] == "phi":
            alts = [(g, self._attr(a, attr, st, node)) for g, a in base[1] if not is_const(a, None)]
            if alts:
                return phi(alts)
        if base[0] == "lib":
            return ("lib", f"{base[1]}.{attr}")
        if base[0] == "new":
            ci = self.repo.classes.get(base[1])
            if ci is not None:
                fields = [a for c in reversed(self.repo.mro(ci)) for a in c.ann_attrs]
                if self.repo.lookup_method(ci, "__init__") is None and attr in fields:
                    i = fields.index(attr)
                    if i < len(base[2]):
                        return base[2][i]
                    for k, v in base[3]:
                        if k == attr:
                            return v
                    dflt = self._field_default(ci, attr, node)
                    if dflt is not None:
                        st.heap[(base, attr)] = dflt
                        return dflt
        if base[0] == "cls":
            ci = self.repo.classes.get(base[1])
            meth = self.repo.lookup_method(ci, attr) if ci else None
            if meth is not None:
                return ("fn", meth.fq)
        cc = self._class_constant(base, attr)
        if cc is not None:
            return cc
        # properties of repo classes
        prop = self._property(base, attr, node)
        if prop is not None and self._may_enter(prop) and len(self.frames) <= self.max_depth and prop.fq not in [f.fi.fq for f in self.frames]:
            res, _ = self._enter(prop, None, base, (), (), st)
            if "cached_property" in prop.decorators:
                st.heap[(base, attr)] = res  # later reads return the cached value without running the body again
            return res
        return ("attr", base, attr)

    def _field_default(self, ci: ClassInfo, attr: str, node: ast.AST | None) -> Term | None:
        """Default of a dataclass field: constants and `field(default_factory=list | set | dict | deque)`."""
        for c in self.repo.mro(ci):
            d = c.class_attrs.get(attr)
            if d is None:
                continue
            if isinstance(d, ast.Constant):
                return const(d.value)
            if isinstance(d, ast.Call) and isinstance(d.func, (ast.Name, ast.Attribute)) and (d.func.id if isinstance(d.func, ast.Name) else d.func.attr) == "field":
                for k in d.keywords:
                    if k.arg == "default_factory" and isinstance(k.value, ast.Name) and k.value.id in ("list", "set", "dict", "deque"):
                        kind = k.value.id
                        return self._box(kind, {"list": ("list", ()), "set": ("set", ()), "dict": ("dict", ()), "deque": ("list", ())}[kind], d)
                    if k.arg == "default" and isinstance(k.value, ast.Constant):
                        return const(k.value.value)
            return None
        return None

    def _property(self, base: Term, attr: str, node: ast.AST | None) -> FuncInfo | None:
        fq = self._class_of(base, node)
        ci = self.repo.classes.get(fq) if fq else None
        if ci is None:
            return None
        impls = [i for i in self.repo.implementations(ci, attr) if not i.is_abstract]
        if len(impls) == 1 and (impls[0].is_property or "cached_property" in impls[0].decorators):
            return impls[0]
        return None

    def _class_of(self, base: Term, node: ast.AST | None) -> str | None:
        if base[0] == "new":
            return base[1]
        if isinstance(node, ast.Attribute):
            try:
                t = self.T.expr(self.fi, node.value)
            except Exception:  # noqa: BLE001
                return None
            ms = [m for m in members(t) if m[0] == "cls"]
            if len(ms) == 1 and len(members(t)) == 1:
                return ms[0][1]
        return None

    def _comp_over_generator(self, e: ast.AST, st: State, gen: "tuple[FuncInfo, ast.Call]") -> Term:
        """`[f(x) for x in self._walk(...)]` over a generator of the repository: the generator is executed in place and the
        element expression is evaluated at every `yield` (as the body of a for loop would be)."""
        callee, call = gen
        g0 = e.generators[0]
        depth = len(st.envs)
        lid = self.fresh()
        loop = Loop(lid, "gen", ("fn", callee.fq), None, self.fi, e)
        caller_frame = self.frame
        recv, args, kwargs = self._call_operands(call, st)
        base = len(st.pc)
        collected: list[tuple[Formula, Term]] = []

        def on_yield(value: Term, gst: State) -> State:
            saved_envs = gst.envs[depth:]
            saved_pc = gst.pc
            gst.envs = gst.envs[:depth]
            outer_env = gst.envs[-1]
            gst.envs[-1] = dict(outer_env)  # the comprehension's own scope
            self.frames.append(caller_frame)
            self.loops.append(loop)
            try:
                self._assign(g0.target, value, gst, None)
                for c in g0.ifs:
                    f = self.truth(self.eval(c, gst))
                    if f != TRUE:
                        gst.pc = gst.pc + (f,)
                elt = self.eval(e.elt, gst)
                collected.append((simplify(f_and(gst.pc[base:])), elt))
            finally:
                self.loops.pop()
                self.frames.pop()
            gst.envs[-1] = outer_env
            gst.envs = gst.envs[:depth] + saved_envs
            gst.pc = saved_pc
            gst.alive = True
            return gst

        _res, out = self._enter(callee, call, recv, args, kwargs, st, on_yield=on_yield)
        out.alive = True
        return ("yields", tuple(collected), lid)

    def _comp(self, e: ast.AST, st: State) -> Term:
        if not isinstance(e, ast.DictComp) and len(e.generators) == 1 and not e.generators[0].is_async:
            gen = self._generator_callee(e.generators[0].iter, st)
            if gen is not None and self._may_enter(gen[0]):
                return self._comp_over_generator(e, st, gen)
        inner = st.copy()
        inner.envs[-1] = dict(inner.env)
        gens = []
        cid = self.fresh()
        pushed = 0
        try:
            for g in e.generators:
                it = self.eval(g.iter, inner)
                lid = self.fresh()
                before = len(inner.pc)
                self._bind_iteration(g.target, it, inner, lid)
                tgt = self.eval(_load(g.target), inner)
                self.loops.append(Loop(lid, "comp", it, tgt, self.fi, e))
                pushed += 1
                conds = list(inner.pc[before:])  # conditions under which the iterated source produces its elements
                for c in g.ifs:
                    f = self.truth(self.eval(c, inner))
                    conds.append(f)
                    if f != TRUE:
                        inner.pc = inner.pc + (f,)
                gens.append((tgt, it, tuple(conds)))
            if isinstance(e, ast.DictComp):
                elt = ("tuple", (self.eval(e.key, inner), self.eval(e.value, inner)))
                kind = "dict"
            else:
                elt = self.eval(e.elt, inner)
                kind = {ast.ListComp: "list", ast.SetComp: "set", ast.GeneratorExp: "gen"}[type(e)]
        finally:
            for _ in range(pushed):
                self.loops.pop()
        # mutations of the heap inside comprehensions are not modelled
        return ("comp", kind, elt, tuple(gens), cid)

    # ------------------------------------------------------------------ calls
    def _call_operands(self, call: ast.Call, st: State):
        recv = self.eval(call.func.value, st) if isinstance(call.func, ast.Attribute) else None
        args: list[Term] = []
        for a in call.args:
            v = self.eval(a, st)
            if v[0] == "star":
                items = self._elements(v[1], st, call)
                if items is not None:
                    args += items  # `f(*(a, b))` is `f(a, b)`
                    continue
            args.append(v)
        kwargs = tuple((k.arg or "**", self.eval(k.value, st)) for k in call.keywords)
        return recv, tuple(args), kwargs

    def _tuple_fields(self, obj: Term) -> "list[Term] | None":
        """Fields of a NamedTuple / dataclass instance in declaration order (for unpacking)."""
        ci = self.repo.classes.get(obj[1])
        if ci is None or self.repo.lookup_method(ci, "__init__") is not None:
            return None
        if not any(b.endswith("NamedTuple") for b in ci.bases):
            return None
        fields = [a for c in reversed(self.repo.mro(ci)) for a in c.ann_attrs]
        vals = list(obj[2]) + [None] * (len(fields) - len(obj[2]))
        for k, v in obj[3]:
            if k in fields:
                vals[fields.index(k)] = v
        return None if any(v is None for v in vals) else vals

    def _resolve(self, call: ast.Call, st: State) -> FuncInfo | None:
        try:
            cs, how = self.T.callees(self.fi, call, byname_fallback=False)
        except Exception:  # noqa: BLE001
            return None
        cs = [c for c in cs if not c.is_abstract]
        if how == "repo" and len(cs) == 1:
            return cs[0]
        return None

    def _may_enter(self, callee: FuncInfo) -> bool:
        if callee.is_abstract or isinstance(callee.node, ast.Lambda) and False:
            return False
        if any(d.endswith("singledispatchmethod") or d.endswith("singledispatch") or d.endswith(".register") for d in callee.decorators):
            return False
        a = callee.node.args
        if a.vararg or a.kwarg:
            return False
        if self.keep is not None and self.keep(callee):
            return False
        if self.policy is not None:
            return self.policy(self.fi, callee)
        return default_policy(self.entry, self.fi, callee)

    def _call(self, call: ast.Call, st: State) -> Term:
        f = call.func
        recv, args, kwargs = self._call_operands(call, st)
        if isinstance(f, ast.Attribute) and recv is not None:
            stored = st.heap.get((recv, f.attr))
            if stored is not None and stored[0] in ("partial", "fn", "lambda", "cls", "lib", "builtin", "bound"):
                return self._apply(stored, args, kwargs, st, call)
            if recv[0] == "lib":
                return self._lib_call(("lib", f"{recv[1]}.{f.attr}"), args, kwargs, st, call)
            if recv[0] == "cls":
                ci = self.repo.classes.get(recv[1])
                meth = self.repo.lookup_method(ci, f.attr) if ci else None
                if meth is not None and (meth.is_classmethod or meth.is_staticmethod):
                    return self._call_repo(meth, call, recv, args, kwargs, st)
                if meth is not None and args:
                    return self._call_repo(meth, call, args[0], args[1:], kwargs, st)
            if isinstance(f.value, ast.Call) and isinstance(f.value.func, ast.Name) and f.value.func.id == "super" and not f.value.args and self.fi.cls is not None and self.frame.self_term is not None:
                # `super().m(...)`: the next definition of `m` above the class the running method is written in
                for c in self.repo.mro(self.fi.cls)[1:]:
                    if f.attr in c.methods:
                        return self._call_repo(c.methods[f.attr], call, self.frame.self_term, args, kwargs, st)
            if recv[0] == "phi" and all(a[0] == "new" or is_const(a, None) for _g, a in recv[1]) and sum(a[0] == "new" for _g, a in recv[1]) > 1:
                # one of several objects made on the way: the method of each is called under the condition it was chosen
                outs = []
                saved = st.pc
                for g, a in recv[1]:
                    if a[0] != "new":
                        continue
                    st.pc = saved + ((g,) if g != TRUE else ())
                    outs.append((g, self._call_method(a, f.attr, args, kwargs, st, call)))
                    st.alive = True
                st.pc = saved
                return phi(outs)
            return self._call_method(recv, f.attr, args, kwargs, st, call)
        fterm = self._name(f, st) if isinstance(f, ast.Name) else self.eval(f, st)
        if fterm[0] == "unk" and isinstance(f, ast.Name):
            try:
                ci = self.T.ctor_class(self.fi, call)
            except Exception:  # noqa: BLE001
                ci = None
            if ci is not None:
                return self._construct(ci.fq, args, kwargs, st, call)
        return self._apply(fterm, args, kwargs, st, call)

    def _call_method(self, recv: Term, name: str, args: tuple, kwargs: tuple, st: State, call: "ast.Call | None") -> Term:
        callee = None
        if recv[0] == "new":
            # the class of an object made on the way is known exactly
            ci = self.repo.classes.get(recv[1])
            callee = self.repo.lookup_method(ci, name) if ci is not None else None
            if callee is not None and (callee.is_abstract or callee.is_property):
                callee = None
        elif call is not None:
            callee = self._resolve(call, st)
        if callee is not None:
            return self._call_repo(callee, call, recv, args, kwargs, st)
        if name == "_replace" and recv[0] == "new" and not args:
            replaced = self._with_fields(recv, kwargs)
            if replaced is not None:
                return replaced
        bound = self._partialmethod(recv, name)
        if bound is not None:
            # `name = partialmethod(method, ...)` in the class body: the method with the leading / keyword arguments filled in
            meth, pre_args, pre_kwargs = bound
            return self._call_repo(meth, call, recv, pre_args + tuple(args), pre_kwargs + tuple(kwargs), st)
        return self._method(recv, name, args, kwargs, st, call)

    def is_repo_object(self, recv: Term, entry: "FuncInfo | None" = None) -> bool:
        """An instance of a class of the repository without library base classes: the receiver of the entry point, or an object made on the way."""
        ci = None
        if recv[0] == "new":
            ci = self.repo.classes.get(recv[1])
        elif recv[0] == "param" and entry is not None and entry.cls is not None and entry.param_names and recv[1] == entry.param_names[0] and not entry.is_staticmethod:
            ci = entry.cls
        if ci is None:
            return False
        return not any(b not in self.repo.classes and not b.endswith(("ABC", "object", "Protocol", "Generic")) for c in self.repo.mro(ci) for b in c.bases)

    def _with_fields(self, obj: Term, changes: tuple) -> "Term | None":
        """`nt._replace(a=x)` / `dataclasses.replace(obj, a=x)`: a new object of the same class with these fields exchanged (only for
        classes without their own __init__ / __post_init__, whose fields are their constructor arguments)."""
        ci = self.repo.classes.get(obj[1])
        if ci is None or self.repo.lookup_method(ci, "__init__") is not None or self.repo.lookup_method(ci, "__post_init__") is not None:
            return None
        if any(k == "**" for k, _v in changes):
            return None
        fields = [a for c in reversed(self.repo.mro(ci)) for a in c.ann_attrs]
        if any(k not in fields for k, _v in changes) or len(obj[2]) > len(fields):
            return None
        vals: dict[str, Term] = {}
        for i, v in enumerate(obj[2]):
            vals[fields[i]] = v
        for k, v in obj[3]:
            vals[k] = v
        for k, v in changes:
            vals[k] = v
        return ("new", obj[1], (), tuple((f, vals[f]) for f in fields if f in vals), self.fresh())

    def _partialmethod(self, recv: Term, name: str) -> "tuple[FuncInfo, tuple, tuple] | None":
        ci = self._class_of_term(recv)
        if ci is None:
            return None
        for c in self.repo.mro(ci):
            if name in c.methods:
                return None
            expr = c.class_attrs.get(name)
            if expr is None:
                continue
            if not (isinstance(expr, ast.Call) and ast.unparse(expr.func).rsplit(".", 1)[-1] == "partialmethod" and expr.args and isinstance(expr.args[0], ast.Name)):
                return None
            meth = self.repo.lookup_method(ci, expr.args[0].id)
            rest = [*expr.args[1:], *[k.value for k in expr.keywords]]
            if meth is None or any(k.arg is None for k in expr.keywords) or not all(isinstance(a, ast.Constant) for a in rest):
                return None
            return meth, tuple(const(a.value) for a in expr.args[1:]), tuple((k.arg, const(k.value.value)) for k in expr.keywords)
        return None

    def _dispatch_overloads(self, callee: FuncInfo) -> "list[tuple[ast.expr, FuncInfo]] | None":
        """(type expression, implementation) of the overloads registered on a functools.singledispatch(method) function."""
        if not any(d.endswith("singledispatchmethod") or d.endswith("singledispatch") for d in callee.decorators):
            return None
        pool = [*callee.cls.extra_methods, *callee.cls.methods.values()] if callee.cls is not None else list(callee.module.all_funcs)
        out = []
        for f in pool:
            if f is callee or isinstance(f.node, ast.Lambda):
                continue
            for d in f.node.decorator_list:
                target = d.func if isinstance(d, ast.Call) else d
                if isinstance(target, ast.Attribute) and target.attr == "register" and isinstance(target.value, ast.Name) and target.value.id == callee.name:
                    ty = d.args[0] if isinstance(d, ast.Call) and d.args else None
                    if ty is None:
                        ps = [p_ for p_ in f.params if p_.arg not in ("self", "cls")]
                        ty = ps[0].annotation if ps else None
                    if ty is not None:
                        out.append((ty, f))
        return out or None

    def _call_dispatched(self, callee: FuncInfo, overloads, call: ast.Call | None, recv: Term | None, args: tuple, kwargs: tuple, st: State) -> Term:
        """A call of a singledispatch function: the overload registered for the class of the first argument runs (each overload is
        executed under `isinstance(argument, its type)`, the undecorated body under the negation of all of them)."""
        if not args:
            res = ("call", ("fn", callee.fq), args, kwargs)
            self._record("call", ("fn", callee.fq), recv, callee.name, args, kwargs, st, call, res)
            return res
        saved = st.pc
        outs = []
        none_of = []
        holder = Frame(callee, None)
        for ty, impl in overloads:
            self.frames.append(holder)
            try:
                ty_term = self.eval(ty, State([{}], {}, ()))
            finally:
                self.frames.pop()
            g = self.truth(("call", ("builtin", "isinstance"), (args[0], ty_term), ()))
            none_of.append(f_not(g))
            if g == FALSE or not satisfiable(f_and([*saved, g])):
                continue
            st.pc = saved + ((g,) if g != TRUE else ())
            a_ = impl.node.args
            if a_.vararg or a_.kwarg or impl.fq in [f.fi.fq for f in self.frames] or len(self.frames) > self.max_depth:
                res_i: Term = ("call", ("fn", impl.fq), args, kwargs)
                self._record("call", ("fn", impl.fq), recv, impl.name, args, kwargs, st, call, res_i)
            else:
                res_i, _ = self._enter(impl, call, recv, args, kwargs, st)
            outs.append((g, res_i))
            st.alive = True
        g0 = f_and(none_of)
        if g0 != FALSE and satisfiable(f_and([*saved, g0])):
            st.pc = saved + ((g0,) if g0 != TRUE else ())
            res0, _ = self._enter(callee, call, recv, args, kwargs, st)
            outs.append((g0, res0))
            st.alive = True
        st.pc = saved
        return phi(outs) if outs else ("unk", "no overload applies", self.fresh())

    def _call_repo(self, callee: FuncInfo, call: ast.Call | None, recv: Term | None, args: tuple, kwargs: tuple, st: State) -> Term:
        overloads = self._dispatch_overloads(callee)
        if overloads is not None and not (self.keep is not None and self.keep(callee)) and len(self.frames) <= self.max_depth and callee.fq not in [f.fi.fq for f in self.frames] and (self.policy(self.fi, callee) if self.policy is not None else default_policy(self.entry, self.fi, callee)):
            return self._call_dispatched(callee, overloads, call, recv, args, kwargs, st)
        if _is_generator(callee) and self._may_enter(callee) and len(self.frames) <= self.max_depth and callee.fq not in [f.fi.fq for f in self.frames]:
            # executed eagerly (the consumer is not a for loop of ours): the yielded values become a guarded collection
            yielded: list[tuple[Formula, Term]] = []
            base = len(st.pc)
            gid = self.fresh()
            loop = Loop(gid, "gen", ("fn", callee.fq), None, self.fi, call if call is not None else callee.node)

            def collect(value: Term, gst: State) -> State:
                yielded.append((simplify(f_and(gst.pc[base:])), value))
                return gst

            self.loops.append(loop)
            mark = len(self.events)
            try:
                self._enter(callee, call, recv, args, kwargs, st, on_yield=collect)
            finally:
                self.loops.pop()
            st.alive = True
            # a run that changed nothing can be repeated where a `for` loop of ours consumes the values one by one
            pure = all(ev.kind == "call" and not (ev.recv is not None and ev.recv[0] in ("box", "new")) for ev in self.events[mark:])
            self.gen_calls[gid] = (callee, call, recv, args, kwargs, pure)
            return ("yields", tuple(yielded), gid)
        if _is_generator(callee) or not self._may_enter(callee) or len(self.frames) > self.max_depth or callee.fq in [f.fi.fq for f in self.frames]:
            if callee.cls is not None and recv is not None and not callee.is_staticmethod and callee.outer is None:
                res: Term = ("mcall", recv, callee.name, args, kwargs)
                self._record("call", ("fn", callee.fq), recv, callee.name, args, kwargs, st, call, res)
            else:
                res = ("call", ("fn", callee.fq), args, kwargs)
                self._record("call", ("fn", callee.fq), recv, callee.name, args, kwargs, st, call, res)
            return res
        res, _st = self._enter(callee, call, recv, args, kwargs, st)
        return res

    def _enter(self, callee: FuncInfo, call: ast.Call | None, recv: Term | None, args: tuple, kwargs: tuple, st: State, on_yield=None) -> tuple[Term, State]:
        """Executes the callee in its own frame on the *same* state object (mutated in place)."""
        env = self._bind(callee, recv, args, kwargs, st)
        if env is None:
            res = ("call", ("fn", callee.fq), args, kwargs)
            self._record("call", ("fn", callee.fq), recv, callee.name, args, kwargs, st, call, res)
            return res, st
        base = len(st.pc)
        depth = len(st.envs)
        frame = Frame(callee, env.get(callee.param_names[0]) if callee.param_names and callee.cls is not None and not callee.is_staticmethod else None, on_yield=on_yield, base_pc=base)
        st.envs.append(env)
        self.frames.append(frame)
        try:
            body = [ast.Return(value=callee.node.body)] if isinstance(callee.node, ast.Lambda) else callee.body
            end = self._block(body, st)
        finally:
            self.frames.pop()
        if end.alive:
            frame.returns.append((end.pc, NONE_T, dict(end.heap)))
            frame.end_states.append(end)
        outs = [s for s in frame.end_states]
        # join of all normal exits
        if not frame.returns:
            st.alive = False
            st.envs = st.envs[:depth]
            if self.frames:
                self.frame.partial = True
            return ("unk", "no return", self.fresh()), st
        alts = [(simplify(f_and(pc[base:])), t) for pc, t, _h in frame.returns]
        res = phi(alts)
        merged = None
        for s_ in outs:
            s_.alive = True
            s_.envs = s_.envs[:depth]
            merged = s_ if merged is None else self._merge(merged, s_, base)
        assert merged is not None
        st.envs = merged.envs
        st.heap = merged.heap
        # whatever the callee tested is no longer part of the caller's path condition, except that the callee returned at all
        # (a call that cannot end abnormally returns on every path: the disjunction of its return conditions is a tautology, whether
        # or not the enumeration is small enough to see it)
        extra = simplify(f_or([f_and(pc[base:]) for pc, _t, _h in frame.returns])) if frame.partial else TRUE
        if frame.partial and extra != TRUE and self.frames:
            self.frame.partial = True
        st.pc = st.pc[:base] if extra == TRUE else st.pc[:base] + (extra,)
        st.alive = True
        return res, st

    def _bind(self, callee: FuncInfo, recv: Term | None, args: tuple, kwargs: tuple, st: State) -> dict | None:
        a = callee.node.args
        params = [p.arg for p in [*a.posonlyargs, *a.args, *a.kwonlyargs]]
        pos = [p.arg for p in [*a.posonlyargs, *a.args]]
        env: dict[str, Term] = {}
        if callee.cls is not None and callee.outer is None and not callee.is_staticmethod and pos:
            first = pos.pop(0)
            if callee.is_classmethod:
                env[first] = recv if recv is not None and recv[0] == "cls" else ("cls", callee.cls.fq)
            elif recv is not None:
                env[first] = recv
            else:
                return None
        if any(x[0] == "star" for x in args) or any(k == "**" for k, _ in kwargs) or len(args) > len(pos):
            return None
        for p, x in zip(pos, args):
            env[p] = x
        for k, v in kwargs:
            if k not in params:
                return None
            env[k] = v
        pos_all = [*a.posonlyargs, *a.args]
        dst = State([{}], st.heap, st.pc)
        self.frames.append(Frame(callee, None))
        try:
            for p, d in zip(pos_all[len(pos_all) - len(a.defaults):], a.defaults):
                if p.arg not in env:
                    env[p.arg] = self.eval(d, dst)
            for p, d in zip(a.kwonlyargs, a.kw_defaults):
                if d is not None and p.arg not in env:
                    env[p.arg] = self.eval(d, dst)
        finally:
            self.frames.pop()
        if any(p not in env for p in params):
            return None
        return env

    def _apply(self, fterm: Term, args: tuple, kwargs: tuple, st: State, call: ast.Call | None) -> Term:
        """Calls a callable *value*."""
        if fterm[0] == "partial":
            return self._apply(fterm[1], tuple(fterm[2]) + tuple(args), tuple(fterm[3]) + tuple(kwargs), st, call)
        if fterm[0] in ("fn", "lambda"):
            callee = self.repo.funcs.get(fterm[1])
            if callee is not None:
                recv = None
                return self._call_repo(callee, call, recv, args, kwargs, st)
        if fterm[0] == "cls":
            return self._construct(fterm[1], args, kwargs, st, call)
        if fterm[0] == "builtin":
            return self._builtin(fterm[1], args, kwargs, st, call)
        if fterm[0] == "lib":
            return self._lib_call(fterm, args, kwargs, st, call)
        if fterm[0] == "bound":
            callee = self.repo.funcs.get(fterm[2])
            if callee is not None:
                return self._call_repo(callee, call, fterm[1], args, kwargs, st)
        if fterm[0] == "phi":
            outs_ = []
            saved_pc = st.pc
            for g, a in fterm[1]:
                if is_const(a, None):
                    continue
                st.pc = saved_pc + ((g,) if g != TRUE else ())
                outs_.append((g, self._apply(a, args, kwargs, st, call)))
                st.alive = True
            st.pc = saved_pc
            return phi(outs_) if outs_ else ("unk", "call of nothing", self.fresh())
        if fterm[0] == "attr":
            # a bound method taken as a value: `add = names.append`, `visit = self._visit`
            recv, name = fterm[1], fterm[2]
            callee = self._method_of(recv, name)
            if callee is not None:
                return self._call_repo(callee, call, recv, args, kwargs, st)
            return self._method(recv, name, args, kwargs, st, call)
        if fterm[0] == "call" and fterm[1][0] == "lib" and not fterm[3] and len(args) == 1 and not kwargs and fterm[2] and all(a[0] == "const" and isinstance(a[1], str) for a in fterm[2]):
            if fterm[1][1] == "operator.attrgetter" and len(fterm[2]) == 1 and "." not in fterm[2][0][1]:
                return self._attr(args[0], fterm[2][0][1], st, None)  # `attrgetter("x")(o)` is `o.x`
            if fterm[1][1] == "operator.methodcaller" and len(fterm[2]) == 1:
                callee = self._method_of(args[0], fterm[2][0][1])
                if callee is not None:
                    return self._call_repo(callee, call, args[0], (), (), st)
                return self._method(args[0], fterm[2][0][1], (), (), st, call)
        if fterm[0] == "call" and fterm[1] == ("lib", "operator.itemgetter") and len(fterm[2]) == 1 and not fterm[3] and len(args) == 1 and not kwargs:
            return ("idx", args[0], fterm[2][0])
        table = self._dispatch_table(fterm)
        if table is not None:
            # a callable looked up in a display: each entry may be the one that is called (under `key == entry key`)
            key, entries = table
            outs = []
            saved = st.pc
            for k_, v_ in entries:
                g = self.truth(("cmp", "==", key, k_))
                st.pc = saved + ((g,) if g != TRUE else ())
                if g != FALSE:
                    outs.append((g, self._apply(v_, args, kwargs, st, call)))
                st.alive = True
            st.pc = saved
            if outs:
                return phi(outs)
        res = ("call", fterm, args, kwargs)
        self._record("call", fterm, None, show(fterm), args, kwargs, st, call, res)
        return res

    def _method_of(self, recv: Term, name: str) -> FuncInfo | None:
        """The single repo method `name` of the object `recv` (known for the receiver of the running frames and for new objects)."""
        fq = None
        if recv[0] == "new":
            fq = recv[1]
        else:
            for fr in reversed(self.frames):
                if fr.self_term is not None and fr.self_term == recv and fr.fi.cls is not None:
                    fq = fr.fi.cls.fq
                    break
        ci = self.repo.classes.get(fq) if fq else None
        if ci is None:
            return None
        impls = [i for i in self.repo.implementations(ci, name) if not i.is_abstract]
        return impls[0] if len(impls) == 1 and not impls[0].is_property else None

    def _dispatch_table(self, fterm: Term):
        """(key term, [(entry key, callable value)]) for `table[key]` / `table.get(key)` on a dict display of callables."""
        if fterm[0] == "idx":
            base, key = fterm[1], fterm[2]
        elif fterm[0] == "mcall" and fterm[2] == "get" and fterm[3]:
            base, key = fterm[1], fterm[3][0]
        else:
            return None
        d = base[3] if base[0] == "box" else base
        if d[0] != "dict" or not d[1] or len(d[1]) > 6:
            return None
        if not all(v[0] in ("attr", "fn", "lambda", "partial", "cls", "bound") for _k, v in d[1]):
            return None
        return key, list(d[1])

    def _construct(self, cls_fq: str, args: tuple, kwargs: tuple, st: State, call: ast.Call | None) -> Term:
        ci = self.repo.classes.get(cls_fq)
        obj: Term = ("new", cls_fq, args, kwargs, self.fresh())
        self._record("call", ("cls", cls_fq), None, cls_fq.rsplit(".", 1)[-1], args, kwargs, st, call, obj)
        enter = self.enter_ctor(ci) if ci is not None and self.enter_ctor is not None else (
            ci is not None and self.entry is not None and (not ci.bases or _private_helper_class(ci)) and ci is not self.entry.cls and not ci.is_dataclass and (ci.module is self.entry.module or ci.name.startswith("_"))
        )
        if ci is not None and self.repo.lookup_method(ci, "__init__") is None and ci.is_dataclass:
            # containers made by `field(default_factory=...)` exist from the moment the object is made
            fields = [a for c in reversed(self.repo.mro(ci)) for a in c.ann_attrs]
            given = set(fields[: len(args)]) | {k for k, _v in kwargs}
            for a in fields:
                if a not in given:
                    dflt = self._field_default(ci, a, call)
                    if dflt is not None and dflt[0] == "box":
                        st.heap[(obj, a)] = dflt
        if ci is not None and enter:
            init = self.repo.lookup_method(ci, "__init__")
            if init is not None and len(self.frames) <= self.max_depth and init.fq not in [f.fi.fq for f in self.frames]:
                self._enter(init, call, obj, args, kwargs, st)
        return obj

    def _method(self, recv: Term, name: str, args: tuple, kwargs: tuple, st: State, call: ast.Call | None) -> Term:
        for a in args:
            # a library method that consumes `map(f, xs)` applies f to every element: f is executed once on a symbolic element
            src_ = self._iter_source(a)
            if self._is_map(src_) and src_ not in self.expanded and len(self.frames) <= self.max_depth:
                lid_ = self.fresh()
                self.loops.append(Loop(lid_, "comp", src_, None, self.fi, call if call is not None else self.fi.node))
                try:
                    saved_pc_ = st.pc
                    self._element(src_, st, lid_)
                    st.pc = saved_pc_
                    st.alive = True
                finally:
                    self.loops.pop()
        if recv[0] == "phi":
            alts = [(g, a) for g, a in recv[1] if not is_const(a, None)]
            if len(alts) == 1:
                recv = alts[0][1]
        if name == "format" and recv[0] == "const" and isinstance(recv[1], str) and not kwargs and not any(a[0] == "star" for a in args):
            # `"{}.{}".format(a, b)` with plain placeholders only: the same text as an f-string
            pieces = _format_pieces(recv[1], len(args))
            if pieces is not None:
                return ("fstr", tuple(const(p_) if isinstance(p_, str) else args[p_[0]] for p_ in pieces))
        if name in POPPERS and not kwargs:
            res: Term = ("elem", recv, self.fresh())
            self._record("mut", ("method", name), recv, name, args, kwargs, st, call, res)
            return res
        if name in MUTATORS:
            res = NONE_T
            self._record("mut", ("method", name), recv, name, args, kwargs, st, call, res)
            self._mutate(recv, name, args, st)
            return res
        res = ("mcall", recv, name, args, kwargs)
        self._record("call", ("method", name), recv, name, args, kwargs, st, call, res)
        return res

    def _builtin(self, name: str, args: tuple, kwargs: tuple, st: State, call: ast.Call | None) -> Term:
        if name in ("list", "set", "dict", "frozenset") and not kwargs:
            init = args[0] if args else ({"list": ("list", ()), "set": ("set", ()), "dict": ("dict", ()), "frozenset": ("set", ())}[name])
            if name == "frozenset":
                return ("call", ("builtin", name), args, kwargs)
            return self._box(name, init if not args else ("call", ("builtin", name), args, ()), call)
        if name in ("all", "any") and len(args) == 1 and not kwargs:
            items = self._elementwise(args[0], st, call)
            if items is not None:
                return items[0] if len(items) == 1 else ("boolop", "and" if name == "all" else "or", tuple(items)) if items else const(name == "all")
        if name == "next" and args and call is not None and call.args and isinstance(call.args[0], ast.Name):
            raw = st.env.get(call.args[0].id)
            src = _iterator_source(raw) if raw is not None else None
            if src is not None and not self.loops_since_creation(raw) and st.heap.get(("#adv", raw), 0) >= 0:
                adv = st.heap.get(("#adv", raw), 0)
                st.heap[("#adv", raw)] = adv + 1
                return ("idx", src, const(adv))  # the element consumed from the iterator
        if name == "next" and args:
            # consuming an element of an iterator: a different element every time
            res = ("elem", args[0], self.fresh())
            self._record("mut", ("builtin", "next"), args[0], "next", args[1:], kwargs, st, call, res)
            return res
        if name == "getattr" and len(args) in (2, 3):
            obj, nm = args[0], args[1]
            if nm[0] == "const" and isinstance(nm[1], str):
                return self._attr(obj, nm[1], st, None)
            table = nm[1] if nm[0] == "idx" else None
            d = (table[3] if table is not None and table[0] == "box" else table) if table is not None else None
            if d is not None and d[0] == "dict" and d[1] and len(d[1]) <= 6 and all(v_[0] == "const" and isinstance(v_[1], str) for _k, v_ in d[1]):
                # the attribute name is looked up in a display: each entry may be the one (under `key == entry key`)
                return phi([(g_, self._attr(obj, v_[1], st, None)) for k_, v_ in d[1] if (g_ := self.truth(("cmp", "==", nm[2], k_))) != FALSE])
            if nm[0] == "phi" and all(a_[0] == "const" and isinstance(a_[1], str) for _g, a_ in nm[1]):
                return phi([(g_, self._attr(obj, a_[1], st, None)) for g_, a_ in nm[1]])
        if name == "isinstance" and len(args) == 2:
            return ("call", ("builtin", name), args, kwargs)
        if name == "cast" and len(args) == 2:
            return args[1]
        if name == "str" and len(args) == 1 and args[0][0] == "const" and isinstance(args[0][1], str):
            return args[0]
        if name == "bool" and len(args) == 1:
            f = self.truth(args[0])
            if f[0] == "const":
                return const(f[1])
        if name == "iter" and len(args) == 1:
            it_ = ("call", ("builtin", "iter"), (args[0], const(self.fresh())), ())  # every iter() call makes a new iterator
            self._iter_loops[it_] = tuple(l.id for l in self.loops)
            return it_
        res = ("call", ("builtin", name), args, kwargs)
        quiet = ("len", "isinstance", "str", "bool", "tuple", "zip", "enumerate", "range", "sorted", "reversed", "map", "filter", "iter", "any", "all", "min", "max", "int", "repr", "hasattr", "getattr", "type", "id", "sum")
        takes_callable = name in ("map", "filter", "sorted", "min", "max") and any(a[0] in ("attr", "fn", "lambda", "partial") for a in [*args, *[v for _k, v in kwargs]])
        if name not in quiet or takes_callable:
            self._record("call", ("builtin", name), None, name, args, kwargs, st, call, res)
        return res

    def _elementwise(self, it: Term, st: State, call: ast.Call | None) -> "list[Term] | None":
        """The elements of `map(f, display)`, of a display, or of a comprehension over a display (at most six)."""
        return self._elements(it, st, call)

    def _lib_call(self, fterm: Term, args: tuple, kwargs: tuple, st: State, call: ast.Call | None) -> Term:
        dotted = fterm[1]
        if dotted == "functools.partial" and args:
            return ("partial", args[0], tuple(args[1:]), tuple(kwargs))
        if dotted in ("typing.cast",) and len(args) == 2:
            return args[1]
        if dotted == "functools.reduce" and len(args) in (2, 3) and not kwargs and args[0][0] in ("attr", "fn", "lambda", "bound", "partial"):
            folded = self._reduce(fterm, args, st, call)
            if folded is not None:
                return folded
        if dotted == "dataclasses.replace" and len(args) == 1 and args[0][0] == "new":
            replaced = self._with_fields(args[0], kwargs)
            if replaced is not None:
                return replaced
        if dotted == "itertools.tee" and args:
            res0 = ("call", fterm, args, kwargs)
            for i in range(2 if len(args) < 2 or args[1][0] != "const" else int(args[1][1])):
                self._iter_loops[("idx", res0, const(i))] = tuple(l.id for l in self.loops)
        if dotted in ("collections.deque", "collections.defaultdict", "collections.OrderedDict", "collections.Counter", "networkx.DiGraph", "networkx.Graph"):
            res: Term = self._box(dotted.rsplit(".", 1)[-1], ("call", fterm, args, kwargs), call)
        else:
            res = ("call", fterm, args, kwargs)
        self._record("call", fterm, None, dotted.rsplit(".", 1)[-1], args, kwargs, st, call, res)
        return res

    def _reduce(self, fterm: Term, args: tuple, st: State, call: "ast.Call | None") -> "Term | None":
        """`reduce(f, s)` / `reduce(f, s, first)` for a step function that hands its second argument on (`return child`): step j is
        `f(s[j], s[j + 1])` (with a start value: `f(([first] + s)[j], s[j])`). Anything else stays an opaque call."""
        f, seq_ = args[0], args[1]
        lid = self.fresh()
        if len(args) == 2:
            it: Term = ("slice", seq_, const(1), NONE_T, NONE_T)
            base = seq_
        else:
            it = seq_
            base = ("binop", "+", ("list", (args[2],)), seq_)
        j = ("elem", ("call", ("builtin", "range"), (("call", ("builtin", "len"), (it,), ()),), ()), lid)
        acc: Term = ("idx", base, j)
        cur: Term = ("elem", it, lid)
        n_events = len(self.events)
        saved = st.copy()
        loop = Loop(lid, "for", it, None, self.fi, call if call is not None else self.fi.node)
        self.loops.append(loop)
        try:
            out = self._apply(f, (acc, cur), (), st, call)
        finally:
            self.loops.pop()
        if out == cur and st.alive:
            return ("idx", seq_, const(-1))
        # the step function computes something else: undo the trial run
        del self.events[n_events:]
        st.envs, st.heap, st.pc, st.alive = saved.envs, saved.heap, saved.pc, saved.alive
        return None

    def _record(self, kind: str, func: Term, recv: Term | None, name: str, args: tuple, kwargs: tuple, st: State, node: ast.AST | None, result: Term | None) -> None:
        if not st.alive:
            return
        self.events.append(Event(kind, func, recv, name, tuple(args), tuple(kwargs), st.pc, tuple(self.loops), self.fi, node if node is not None else self.fi.node, result, tuple(f.fi.fq for f in self.frames)))


# --------------------------------------------------------------------------- helpers


_BINOPS = {ast.Add: "+", ast.Sub: "-", ast.Mult: "*", ast.Div: "/", ast.FloorDiv: "//", ast.Mod: "%", ast.BitOr: "|", ast.BitAnd: "&", ast.BitXor: "^", ast.Pow: "**", ast.LShift: "<<", ast.RShift: ">>", ast.MatMult: "@"}
_CMPOPS = {ast.Eq: "==", ast.NotEq: "!=", ast.Lt: "<", ast.LtE: "<=", ast.Gt: ">", ast.GtE: ">=", ast.Is: "is", ast.IsNot: "is not", ast.In: "in", ast.NotIn: "not in"}


_NEVER_NONE_METHODS = {
    "read", "read_text", "read_bytes", "resolve", "absolute", "relative_to", "with_suffix", "join", "replace", "strip", "lstrip", "rstrip", "split",
    "rsplit", "format", "lower", "upper", "as_posix", "iterdir", "startswith", "endswith", "is_dir", "is_file", "exists", "keys", "values", "items",
    "copy", "removeprefix", "removesuffix", "partition", "rpartition", "splitlines", "encode", "decode",
}
_NEVER_NONE_FUNCS = {"str", "list", "tuple", "set", "dict", "sorted", "len", "open", "repr", "int", "bool", "frozenset", "reversed", "zip", "map", "filter", "enumerate", "range"}
_NEVER_NONE_LIBS = {"ast.parse", "pathlib.Path", "os.fspath", "os.listdir", "os.path.join", "os.path.dirname", "os.path.basename", "os.path.abspath", "os.path.relpath", "os.path.splitext", "os.path.split"}


def _format_pieces(fmt: str, nargs: int) -> "list | None":
    """Literal pieces and (argument index,) of a str.format template that only has `{}` / `{0}` placeholders."""
    import string

    out: list = []
    auto = 0
    try:
        parsed = list(string.Formatter().parse(fmt))
    except ValueError:
        return None
    for lit, fld, spec, conv in parsed:
        if lit:
            out.append(lit)
        if fld is None:
            continue
        if spec or conv:
            return None
        if fld == "":
            idx = auto
            auto += 1
        elif fld.isdigit():
            idx = int(fld)
        else:
            return None
        if idx >= nargs:
            return None
        out.append((idx,))
    return out


def _is_path_parts(t: Term) -> bool:
    while t[0] == "call" and t[1] in (("builtin", "list"), ("builtin", "tuple")) and len(t[2]) == 1 and not t[3]:
        t = t[2][0]
    return t[0] == "attr" and t[2] == "parts"


def _nonempty_str(t: Term) -> bool:
    """The text of a path is never empty (the empty relative path is '.')."""
    if t[0] == "call" and t[1] == ("builtin", "str") and len(t[2]) == 1:
        x = t[2][0]
        return x[0] == "mcall" and x[2] in ("relative_to", "resolve", "absolute", "with_suffix") or x[0] == "attr" and x[2] == "parent" or x[0] == "call" and x[1] == ("lib", "pathlib.Path")
    if t[0] == "mcall" and t[2] == "replace" and len(t[3]) == 2 and t[3][1][0] == "const" and t[3][1][1]:
        return _nonempty_str(t[1])
    if t[0] == "mcall" and t[2] == "as_posix":
        return True
    return False


def _iterator_source(t: Term) -> "Term | None":
    """The sequence behind an explicit iterator: `iter(s)` or a copy made by `itertools.tee(s)`."""
    if t[0] == "call" and t[1] == ("builtin", "iter") and len(t[2]) == 2:
        return t[2][0]
    if t[0] == "idx" and t[1][0] == "call" and t[1][1] == ("lib", "itertools.tee") and t[1][2] and t[2][0] == "const":
        return t[1][2][0]
    return None


def _never_none(t: Term) -> bool:
    if t[0] == "mcall":
        return t[2] in _NEVER_NONE_METHODS
    if t[0] == "call":
        return t[1][0] == "builtin" and t[1][1] in _NEVER_NONE_FUNCS or t[1][0] == "lib" and t[1][1] in _NEVER_NONE_LIBS
    return t[0] in ("binop", "comp", "yields", "set", "dict", "slice")


def _direct_boxes(t: Term) -> list[Term]:
    """Containers that *are* the value `t` or are held by it (through choices and displays), not containers a value was computed from."""
    out: list[Term] = []
    stack = [t]
    while stack:
        x = stack.pop()
        if x[0] == "box":
            out.append(x)
            stack.append(x[3])
        elif x[0] == "phi":
            stack += [a for _g, a in x[1]]
        elif x[0] in ("tuple", "list", "set"):
            stack += list(x[1])
        elif x[0] == "dict":
            stack += [v for _k, v in x[1]]
        elif x[0] == "star":
            stack.append(x[1])
        elif x[0] == "new":
            stack += list(x[2]) + [v for _k, v in x[3]]
    return out


def _size(f: Formula) -> int:
    if f[0] in ("atom", "const"):
        return 1
    if f[0] == "not":
        return 1 + _size(f[1])
    return 1 + sum(_size(g) for g in f[1])


def _walk_own(node: ast.AST) -> Iterable[ast.AST]:
    """Nodes of a statement that belong to the enclosing function (nested defs / lambdas / classes excluded)."""
    stack = [node]
    while stack:
        n = stack.pop()
        yield n
        for c in ast.iter_child_nodes(n):
            if isinstance(c, (ast.FunctionDef, ast.AsyncFunctionDef, ast.Lambda, ast.ClassDef)):
                continue
            stack.append(c)


def _assigned_names(stmts: Iterable[ast.AST]) -> set[str]:
    out: set[str] = set()
    for s in stmts:
        for n in _walk_own(s):
            if isinstance(n, ast.Name) and isinstance(n.ctx, (ast.Store, ast.Del)):
                # comprehension targets are scoped: skip names bound by comprehension generators
                out.add(n.id)
    # remove names only bound as comprehension variables
    comp_only: set[str] = set()
    for s in stmts:
        for n in _walk_own(s):
            if isinstance(n, ast.comprehension):
                comp_only |= {x.id for x in ast.walk(n.target) if isinstance(x, ast.Name)}
    real: set[str] = set()
    for s in stmts:
        for n in _walk_own(s):
            if isinstance(n, (ast.Assign, ast.AugAssign, ast.AnnAssign, ast.For, ast.AsyncFor, ast.With, ast.AsyncWith, ast.NamedExpr, ast.ExceptHandler, ast.FunctionDef)):
                tgts: list[ast.AST] = []
                if isinstance(n, ast.Assign):
                    tgts = list(n.targets)
                elif isinstance(n, (ast.AugAssign, ast.AnnAssign, ast.For, ast.AsyncFor, ast.NamedExpr)):
                    tgts = [n.target]
                elif isinstance(n, (ast.With, ast.AsyncWith)):
                    tgts = [i.optional_vars for i in n.items if i.optional_vars is not None]
                elif isinstance(n, ast.ExceptHandler) and n.name:
                    real.add(n.name)
                elif isinstance(n, ast.FunctionDef):
                    real.add(n.name)
                for t in tgts:
                    real |= {x.id for x in ast.walk(t) if isinstance(x, ast.Name) and isinstance(x.ctx, (ast.Store, ast.Del))}
    for s in stmts:
        for n in _walk_own(s):
            if isinstance(n, (ast.MatchAs, ast.MatchStar)) and n.name:
                real.add(n.name)
            elif isinstance(n, ast.MatchMapping) and n.rest:
                real.add(n.rest)
    return (out - comp_only) | real


def _exits_early(body: list[ast.stmt]) -> bool:
    """The loop body contains a `return`, or a `break` that belongs to this loop (not to a nested one)."""

    def breaks(stmts: list[ast.stmt]) -> bool:
        for st in stmts:
            if isinstance(st, ast.Break):
                return True
            if isinstance(st, (ast.For, ast.AsyncFor, ast.While)):
                if breaks(st.orelse):
                    return True
                continue
            for fld in ("body", "orelse", "finalbody"):
                blk = getattr(st, fld, None)
                if isinstance(blk, list) and blk and isinstance(blk[0], ast.stmt) and breaks(blk):
                    return True
            for h in getattr(st, "handlers", []) or []:
                if breaks(h.body):
                    return True
            for c in getattr(st, "cases", []) or []:
                if breaks(c.body):
                    return True
        return False

    return breaks(body) or any(isinstance(n, ast.Return) for b in body for n in _walk_own(b))


def _has_loop_control(body: list[ast.stmt]) -> bool:
    """`break` / `continue` that belong to the loop with this body."""

    def visit(stmts: list[ast.stmt]) -> bool:
        for st in stmts:
            if isinstance(st, (ast.Break, ast.Continue)):
                return True
            if isinstance(st, (ast.For, ast.AsyncFor, ast.While)):
                if visit(st.orelse):
                    return True
                continue
            for fld in ("body", "orelse", "finalbody"):
                blk = getattr(st, fld, None)
                if isinstance(blk, list) and blk and isinstance(blk[0], ast.stmt) and visit(blk):
                    return True
            for h in getattr(st, "handlers", []) or []:
                if visit(h.body):
                    return True
            for c in getattr(st, "cases", []) or []:
                if visit(c.body):
                    return True
        return False

    return visit(body)


def _names_of_target(t: ast.AST) -> set[str]:
    return {x.id for x in ast.walk(t) if isinstance(x, ast.Name)}


def _load(t: ast.expr) -> ast.expr:
    """Copy of an assignment target usable as an expression."""
    if isinstance(t, ast.Name):
        return ast.Name(id=t.id, ctx=ast.Load())
    if isinstance(t, (ast.Tuple, ast.List)):
        return ast.Tuple(elts=[_load(x) for x in t.elts], ctx=ast.Load())
    if isinstance(t, ast.Starred):
        return _load(t.value)
    return t


def _is_generator(fi: FuncInfo) -> bool:
    if isinstance(fi.node, ast.Lambda):
        return False
    return any(isinstance(n, (ast.Yield, ast.YieldFrom)) for n in own_nodes(fi.node))


def _private_helper_class(ci: ClassInfo, repo: "Repo | None" = None) -> bool:
    if not ci.name.startswith("_"):
        return False
    mod = ci.fq.rsplit(".", 1)[0]
    for b in ci.bases:
        if b.endswith(("NamedTuple", "object", "ABC", "Protocol")):
            continue
        leaf = b.rsplit(".", 1)[-1]
        if not (leaf.startswith("_") and not leaf.startswith("__") and (b == leaf or b.rsplit(".", 1)[0] == mod)):
            return False
    return True


def default_policy(entry: FuncInfo | None, caller: FuncInfo, callee: FuncInfo) -> bool:
    """Private helpers, nested callables, module-level functions and methods of the entry point's own class are executed in place;
    public methods of other classes are API boundaries and stay events."""
    if isinstance(callee.node, ast.Lambda) or callee.outer is not None:
        return True
    name = callee.name
    if name.startswith("__") and name.endswith("__"):
        return False
    if callee.cls is None:
        return True
    if name.startswith("_"):
        return True
    if entry is not None and entry.cls is not None and callee.cls is not None and callee.cls.fq == entry.cls.fq:
        return True
    if entry is not None and callee.module is entry.module and callee.cls is not None and callee.cls is not entry.cls and not callee.cls.bases:
        return True  # helper classes written next to the entry point (not part of a class hierarchy with virtual calls)
    if callee.cls is not None and _private_helper_class(callee.cls):
        return True  # private helper classes (and small private hierarchies of them)
    return callee.is_staticmethod or callee.is_classmethod
