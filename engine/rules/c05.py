"""C05 - layer-rule verdicts follow the documented semantics, one unit per layer.

  C05.R1  lowering (rules/c05_lowering.py): every LayerRule verb/access method delegates to its image under access->import,
          layers->modules; layers_that binds the configured layer matcher to the architecture's layer mapping; are_named lowers
          every named layer to *all* of its module filters, each with its own regex flag (or as filter objects of its own kind);
          on the Rule side the flag selects ModuleNameRegexFilter vs ModuleNameFilter
  C05.R2  matcher (rules/c05_matcher.py): the layer mapping handed to the detector is rebuilt for all layers; lookups into the regex
          conversion map (built from the rule's subjects and objects only) are total; that map contains the conversions of both
          sides on every path; nothing but the layer detector is built; the LayerMapping served by LayeredArchitecture.layer_mapping is
          current (built per access, a live view, or a stored snapshot that every method assigning modules to a layer invalidates)
  C05.R3  detector (rules/c05_detector.py + c05_shapes.py): reported 'other' dependencies passed the same-layer filter, which drops
          same-layer pairs and nothing else; every "is there any other access" decision is made on filtered pairs
  C05.R4  a requirement is judged per layer: missing dependencies are reported only when no pair of the (object) layer is realised;
          explicit pairs are grouped by the layer of the object-side module
  C05.R5  layer lookup (rules/c05_names.py): F-NAME sites reachable from LayerMapping.get_layer_for_module_name compare whole dotted
          components; every ancestor-or-self of the name, the top-level one included, is tested (scan over all listed names, or a
          walk over derived names that is unrolled abstractly on 1-3 component names: rules/c05_walk.py); a binary search over the
          listed names compares the probe under the order the list was sorted by (rules/c05_bisect.py)
  C05.R6  closures created in a loop / comprehension bind the loop's variables at creation time (late-binding lint)
  C05.R7  regex layers (conversion *and* rebuilt layer mapping) are resolved against the evaluable being judged: per evaluation a
          fresh matcher is built or the resolution runs unconditionally
  C05.R1.READONLY (first numbered C05.R8)  the lowering and the judging only read the architecture (rules/c05_alias.py): no in-place mutation outside LayeredArchitecture has a receiver
          that may be one of the per-layer lists (or the layer table) the architecture holds - followed by tag flow from the
          architecture's fields through __getitem__ / LayerMapping.get_module_filters, fields, parameters and returns; copies drop the tag

All rules anchor on public API (LayerRule / Rule fluent methods, RuleViolations fields via rules/tables.py, LayerMapping.
get_layer_for_module_name / all_layers, ModuleNameConverter.convert, the filter and detector classes) and analyse *devirtualised
inline views* (rules/c05_views.py) of the public entry points, so that extracting, inlining, renaming, merging or moving private
helpers does not change what the rules see.  engine/mutants/c05_variants.py holds ~150 variants (behaviour-preserving
refactorings incl. 14 written by independent agents, and breaking edits on all of those shapes) the rules are tested against.
"""

from __future__ import annotations

import ast

from core.loader import FuncInfo, Repo, ancestors, header, norm, own_nodes, parent
from core.report import Result

from .c05_alias import check_architecture_untouched
from .c05_detector import check_detector
from .c05_lowering import check_are_named, check_delegation, check_filter_selection, check_handoff_accumulates, check_layer_mapping_current, check_matcher_wiring
from .c05_matcher import check_conversion_map_complete, check_layer_mapping_update, check_regex_resolution_per_evaluation
from .c05_names import check_layer_lookup_names
from .common import dotted, stmt_of, where


def _bound_params(c: ast.AST) -> set[str]:
    args = c.args
    return {a.arg for a in [*args.posonlyargs, *args.args, *args.kwonlyargs]} | ({args.vararg.arg} if args.vararg else set()) | ({args.kwarg.arg} if args.kwarg else set())


def _free_reads(c: ast.AST, rebound: set[str]) -> list[str]:
    bound = _bound_params(c)
    body_nodes = list(ast.walk(c.body)) if isinstance(c, ast.Lambda) else [x for b in c.body for x in ast.walk(b)]
    local_stores = {x.id for x in body_nodes if isinstance(x, ast.Name) and isinstance(x.ctx, ast.Store)}
    # names bound by comprehensions inside the closure are local to it
    for x in body_nodes:
        if isinstance(x, ast.comprehension):
            local_stores |= {y.id for y in ast.walk(x.target) if isinstance(y, ast.Name)}
    return sorted({x.id for x in body_nodes if isinstance(x, ast.Name) and isinstance(x.ctx, ast.Load) and x.id in rebound and x.id not in bound and x.id not in local_stores})


def _called_at_once(c: ast.AST, scope_body: list[ast.stmt] | None, after: list[ast.stmt]) -> bool:
    """The closure is consumed before the loop variable changes: called directly, handed to sorted/min/max/any/all/sum, to a
    map/filter that is consumed on the spot, or bound to a local that is only ever *called* inside the same iteration."""
    p = parent(c)
    if isinstance(p, ast.Call) and p.func is c:
        return True
    if isinstance(p, ast.Call) and c in p.args and dotted(p.func) in ("sorted", "min", "max", "any", "all", "sum", "next"):
        return True
    if isinstance(p, ast.keyword) and isinstance(parent(p), ast.Call):
        call = parent(p)
        if dotted(call.func) in ("sorted", "min", "max") or (isinstance(call.func, ast.Attribute) and call.func.attr == "sort"):
            return True
    if isinstance(p, ast.Call) and c in p.args and dotted(p.func) in ("map", "filter"):
        gp = parent(p)
        return (isinstance(gp, ast.Call) and dotted(gp.func) in ("list", "set", "tuple", "sorted", "any", "all", "sum", "dict", "frozenset", "next")) or isinstance(gp, (ast.For, ast.comprehension))
    name = None
    if isinstance(p, ast.Assign) and len(p.targets) == 1 and isinstance(p.targets[0], ast.Name) and p.value is c:
        name = p.targets[0].id
    elif isinstance(c, ast.FunctionDef):
        name = c.name
    if name is not None and scope_body is not None:
        uses = [x for s in scope_body for x in ast.walk(s) if isinstance(x, ast.Name) and x.id == name and isinstance(x.ctx, ast.Load)]
        later = [x for s in after for x in ast.walk(s) if isinstance(x, ast.Name) and x.id == name and isinstance(x.ctx, ast.Load)]
        if uses and not later and all(isinstance(parent(u), ast.Call) and parent(u).func is u for u in uses):
            return True
    return False


def late_binding_closures(repo: Repo) -> list[tuple[FuncInfo, ast.AST, ast.AST, list[str]]]:
    """(function, loop, closure, names): closures defined in a loop body or a list/set/dict comprehension that read a variable the
    loop rebinds and that escape the iteration (stored / appended / returned) instead of being called at once."""
    out = []
    for f in repo.all_functions():
        if isinstance(f.node, ast.Lambda):
            continue
        body = f.node.body
        for lp in own_nodes(f.node):
            if isinstance(lp, (ast.For, ast.AsyncFor, ast.While)):
                rebound = {n.id for n in ast.walk(lp.target) if isinstance(n, ast.Name)} if not isinstance(lp, ast.While) else set()
                for s in lp.body:
                    for n in ast.walk(s):
                        if isinstance(n, ast.Name) and isinstance(n.ctx, ast.Store):
                            rebound.add(n.id)
                # statements after the loop (in the enclosing block chain)
                after: list[ast.stmt] = []
                node: ast.AST = lp
                for a in ancestors(lp):
                    for fld in ("body", "orelse", "finalbody"):
                        blk = getattr(a, fld, None)
                        if isinstance(blk, list) and node in blk:
                            after += blk[blk.index(node) + 1:]
                    node = a
                    if a is f.node:
                        break
                for s in lp.body:
                    for c in ast.walk(s):
                        if not isinstance(c, (ast.Lambda, ast.FunctionDef)):
                            continue
                        free = _free_reads(c, rebound)
                        if free and not _called_at_once(c, lp.body, after):
                            out.append((f, lp, c, free))
            elif isinstance(lp, (ast.ListComp, ast.SetComp, ast.DictComp)):
                rebound = {n.id for g in lp.generators for n in ast.walk(g.target) if isinstance(n, ast.Name)}
                elts = [lp.key, lp.value] if isinstance(lp, ast.DictComp) else [lp.elt]
                for e in elts:
                    for c in ast.walk(e):
                        if isinstance(c, ast.Lambda):
                            free = _free_reads(c, rebound)
                            if free and not _called_at_once(c, None, []):
                                out.append((f, lp, c, free))
    return out


def run(repo: Repo) -> Result:
    res = Result("C05")
    res.explanation = (
        "Decides the layer-rule mechanism structurally, on devirtualised inline views of the public entry points: (R1) each LayerRule method "
        "delegates to the documented Rule method, layers_that binds the layer matcher to the layer mapping, are_named lowers every named layer "
        "to all its module filters with their own regex flag, which selects the filter class; (R2) the layer mapping given to the detector is "
        "rebuilt for all layers, lookups into the regex conversion map are total, the map covers both sides of the rule and only the layer "
        "detector is built; (R3) reported 'other' dependencies and every decision on them use the same-layer-filtered set, and the filter "
        "drops nothing else; (R4) explicit pairs are grouped by the layer of the object-side module and a layer is satisfied by any "
        "realisation; (R5) the layer of a module is found by whole dotted components over all its ancestors; (R6) no closure created in a "
        "loop reads a loop variable late; (R7) regex layers are resolved against the evaluable being judged; (R8) nothing outside LayeredArchitecture "
        "mutates in place a list or the table the architecture holds per layer (tag flow from the architecture's fields)."
    )
    res.not_decided = "verdicts over all partitions of modules into layers (needs the values of the graph searches); that the module filter built from a pair carries the pair's own identifier."
    res.trusted_base = ["C01 (module-rule dispatch the layer rule is lowered to)", "rules/tables.py bucket wiring", "engine inline views / guards"]
    # ---- R1
    check_delegation(repo, res)
    check_matcher_wiring(repo, res)
    check_layer_mapping_current(repo, res)
    receiver = check_are_named(repo, res)
    check_filter_selection(repo, res, receiver)
    check_handoff_accumulates(repo, res, receiver)
    # ---- R1.READONLY (a sub-rule of the lowering: what is handed to the wrapped rule must not alias the architecture's lists)
    check_architecture_untouched(repo, res)
    # ---- R6
    lbs = late_binding_closures(repo)
    for f, lp, c, free in lbs:
        res.add("C05.R6", repo.key(f, stmt_of(c)) + f" [closure over {', '.join(free)}]", False, f"a closure created inside `{header(lp) if isinstance(lp, ast.stmt) else norm(lp, 80)}` reads `{', '.join(free)}` when it is *called*, i.e. after the loop has finished: every closure sees the value of the last iteration (bind it with a default argument or functools.partial)", where(f, c), kind="flow")
    nloops = sum(1 for f in repo.all_functions() if not isinstance(f.node, ast.Lambda) for n in own_nodes(f.node) if isinstance(n, (ast.For, ast.While, ast.ListComp, ast.SetComp, ast.DictComp)) and any(isinstance(x, (ast.Lambda, ast.FunctionDef)) for x in ast.walk(n)))
    res.add("C05.R6", "src::closures in loops bind early", not lbs, f"{nloops} loop(s) / comprehension(s) create closures; none reads a loop variable late", kind="flow")
    # ---- R2, R7
    check_layer_mapping_update(repo, res)
    check_conversion_map_complete(repo, res)
    check_regex_resolution_per_evaluation(repo, res)
    # ---- R3, R4
    check_detector(repo, res)
    # ---- R5
    check_layer_lookup_names(repo, res)
    return res
