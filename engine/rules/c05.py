"""C05 - layer-rule verdicts follow the documented semantics, one unit per layer.

  C05.R1  lowering: every LayerRule verb/access method delegates to its image under access->import, layers->modules; are_named lowers a
          layer to all of its module filters, preserving whether each is a regex
  C05.R2  lookups whose key ranges over all layers are total on a map built from the rule's subjects and objects only
  C05.R3  the same-layer filter covers every judgement on concrete dependency lists
  C05.R4  lenient grouping is keyed by the object-side module and satisfied by any realisation
  C05.R5  layer lookup by whole dotted components (F-NAME site)
  C05.R6  closures created in a loop bind the loop's variables at creation time (late-binding lint)
"""

from __future__ import annotations

import ast

from core.flow import Flow, Spec
from core.guards import atom, conds_formula, f_not, implies, to_formula
from core.loader import AnalysisError, FuncInfo, Repo, ancestors, calls_in, header, norm, own_nodes, parent
from core.report import Result

from . import names
from .c14 import add_sites
from .common import conds, dotted, guard_formula, is_attr_call, loops_around, stmt_of, types_of, where
from .tables import DETECTOR, LAYER_DETECTOR, MATCHER, RULE, Inliner, bucket_wiring, classify_helper, method_mode

LAYER_RULE = "pytestarch.query_language.layered_architecture_rule"
EVAL_ARCH = "pytestarch.eval_structure.evaluable_architecture"

LOWERING = {
    "should": "should",
    "should_only": "should_only",
    "should_not": "should_not",
    "access_layers_that": "import_modules_that",
    "be_accessed_by_layers_that": "be_imported_by_modules_that",
    "access_layers_except_layers_that": "import_modules_except_modules_that",
    "be_accessed_by_layers_except_layers_that": "be_imported_by_modules_except_modules_that",
    "access_any_layer": "import_anything",
    "be_accessed_by_any_layer": "be_imported_by_anything",
    "assert_applies": "assert_applies",
}


def late_binding_closures(repo: Repo) -> list[tuple[FuncInfo, ast.AST, ast.AST, list[str]]]:
    """(function, loop, closure, names): closures defined in a loop body that read a variable the loop rebinds and that escape the
    iteration (stored / appended / returned) instead of being called at once."""
    out = []
    for f in repo.all_functions():
        if isinstance(f.node, ast.Lambda):
            continue
        for lp in own_nodes(f.node):
            if not isinstance(lp, (ast.For, ast.AsyncFor, ast.While)):
                continue
            rebound = {n.id for n in ast.walk(lp.target) if isinstance(n, ast.Name)} if not isinstance(lp, ast.While) else set()
            for s in lp.body:
                for n in ast.walk(s):
                    if isinstance(n, ast.Name) and isinstance(n.ctx, ast.Store):
                        rebound.add(n.id)
            for s in lp.body:
                for c in ast.walk(s):
                    if not isinstance(c, (ast.Lambda, ast.FunctionDef)):
                        continue
                    args = c.args
                    bound = {a.arg for a in [*args.posonlyargs, *args.args, *args.kwonlyargs]} | ({args.vararg.arg} if args.vararg else set()) | ({args.kwarg.arg} if args.kwarg else set())
                    body_nodes = ast.walk(c.body) if isinstance(c, ast.Lambda) else [x for b in c.body for x in ast.walk(b)]
                    local_stores = {x.id for x in body_nodes if isinstance(x, ast.Name) and isinstance(x.ctx, ast.Store)}
                    body_nodes = ast.walk(c.body) if isinstance(c, ast.Lambda) else [x for b in c.body for x in ast.walk(b)]
                    free = sorted({x.id for x in body_nodes if isinstance(x, ast.Name) and isinstance(x.ctx, ast.Load) and x.id in rebound and x.id not in bound and x.id not in local_stores})
                    if not free:
                        continue
                    # called immediately (directly, or as the function argument of map/filter/sorted/min/max/any/all consumed at once)?
                    p = parent(c)
                    immediate = isinstance(p, ast.Call) and p.func is c
                    if isinstance(p, ast.Call) and c in p.args and dotted(p.func) in ("sorted", "min", "max", "any", "all", "sum"):
                        immediate = True
                    if isinstance(p, ast.keyword) and isinstance(parent(p), ast.Call) and dotted(parent(p).func) in ("sorted", "min", "max") or (isinstance(p, ast.keyword) and isinstance(parent(p), ast.Call) and isinstance(parent(p).func, ast.Attribute) and parent(p).func.attr == "sort"):
                        immediate = True
                    if isinstance(p, ast.Call) and c in p.args and dotted(p.func) in ("map", "filter"):
                        gp = parent(p)
                        immediate = isinstance(gp, ast.Call) and dotted(gp.func) in ("list", "set", "tuple", "sorted", "any", "all", "sum", "dict", "frozenset") or isinstance(gp, (ast.For, ast.comprehension))
                    if not immediate:
                        out.append((f, lp, c, free))
    return out


def run(repo: Repo) -> Result:
    res = Result("C05")
    res.explanation = (
        "Decides the layer-rule mechanism structurally: (R1) each LayerRule method delegates to the documented Rule method and are_named lowers "
        "a layer to all its module filters with their own regex flag; (R2) lookups keyed by *all* layers are total on the regex conversion map "
        "(built from the rule's subjects/objects only); (R3) every judgement on concrete 'other' dependencies is made on the same-layer-filtered "
        "set; (R4) explicit pairs are grouped by the layer of the object-side module and a layer is satisfied by any realisation; (R5) the layer "
        "of a module is found by whole dotted components; (R6) no closure created in a loop reads a loop variable late."
    )
    res.not_decided = "verdicts over all partitions of modules into layers (needs the values of the graph searches)."
    res.trusted_base = ["C01 (module-rule dispatch the layer rule is lowered to)", "engine flow/guards"]
    T = types_of(repo)
    lr = repo.cls(LAYER_RULE, "LayerRule")
    rule = repo.cls(RULE, "Rule")
    # ---- R1
    for name, want in LOWERING.items():
        m = lr.methods.get(name)
        if m is None:
            res.add("C05.R1", f"{lr.module.relpath}::LayerRule.{name}::delegation", False, f"LayerRule.{name} no longer exists", kind="structural")
            continue
        dels = [c for c in calls_in(m.node) if isinstance(c.func, ast.Attribute) and dotted(c.func.value) == "self._rule"]
        ok = len(dels) == 1 and dels[0].func.attr == want and repo.lookup_method(rule, want) is not None
        if ok and name != "assert_applies":
            st = stmt_of(dels[0])
            ok = isinstance(st, ast.Assign) and dotted(st.targets[0]) == "self._rule" and not dels[0].args
        if ok and name == "assert_applies":
            ok = len(dels[0].args) == 1 and dotted(dels[0].args[0]) == m.param_names[1]
        res.add("C05.R1", f"{m.relpath}::{m.qualname}::delegation", ok, f"{name} -> Rule.{want}" if ok else f"LayerRule.{name} delegates to {[c.func.attr for c in dels]}: the documented lowering is Rule.{want}", where(m, m.node), kind="structural")
    an = lr.methods.get("are_named")
    gm = lr.methods.get("_get_all_modules_in_layers")
    if an is None or gm is None:
        raise AnalysisError("LayerRule.are_named / _get_all_modules_in_layers not found")
    comp = [n for n in own_nodes(gm.node) if isinstance(n, (ast.ListComp, ast.For))]
    ok = False
    detail = "layer -> modules lowering not recognised"
    for c in [n for n in own_nodes(gm.node) if isinstance(n, ast.ListComp)]:
        if len(c.generators) == 2 and not any(g.ifs for g in c.generators) and dotted(c.generators[0].iter) == gm.param_names[1]:
            inner = c.generators[1]
            mv = dotted(inner.target)
            elts = c.elt.elts if isinstance(c.elt, ast.Tuple) else []
            if isinstance(inner.iter, ast.Subscript) and dotted(inner.iter.value) == "self._architecture" and dotted(inner.iter.slice) == dotted(c.generators[0].target) and [norm(e) for e in elts] == [f"{mv}.identifier", f"{mv}.identifier_is_regex"]:
                ok, detail = True, "every module filter of every named layer is lowered as (identifier, is_regex)"
    res.add("C05.R1", f"{gm.relpath}::{gm.qualname}::all modules of the layer", ok, detail if ok else "a layer is not lowered to all of its module filters with their own regex flag", where(gm, gm.node), kind="structural")
    addc = [c for c in calls_in(an.node) if is_attr_call(c, "_add_modules")]
    getc = [c for c in calls_in(an.node) if is_attr_call(c, gm.name)]
    ok = len(addc) == 1 and len(getc) == 1 and dotted(addc[0].args[0]) == dotted(stmt_of(getc[0]).targets[0]) if addc and getc and isinstance(stmt_of(getc[0]), ast.Assign) else False
    res.add("C05.R1", f"{an.relpath}::{an.qualname}::modules handed to the rule", ok, "the lowered module filters are appended to the wrapped rule" if ok else "the lowered module filters do not reach the wrapped rule unchanged", where(an, an.node), kind="flow")
    am = rule.methods.get("_add_modules")
    if am is None:
        raise AnalysisError("Rule._add_modules not found")
    lam = [n for n in ast.walk(am.node) if isinstance(n, ast.Lambda)]
    ok = False
    for l_ in lam:
        b = l_.body
        if isinstance(b, ast.IfExp):
            t = norm(b.test)
            plain, regex = (b.body, b.orelse) if t.startswith("not ") else (b.orelse, b.body)
            if "ModuleNameFilter" in norm(plain) and "ModuleNameRegexFilter" in norm(regex) and "ModuleNameRegexFilter" not in norm(plain):
                ok = True
    res.add("C05.R1", f"{am.relpath}::{am.qualname}::regex flag selects the filter class", ok, "regex modules become regex filters, named modules name filters" if ok else "the regex flag does not select ModuleNameRegexFilter vs ModuleNameFilter", where(am, am.node), kind="structural")
    # ---- R6
    lbs = late_binding_closures(repo)
    for f, lp, c, free in lbs:
        res.add("C05.R6", repo.key(f, stmt_of(c)) + f" [closure over {', '.join(free)}]", False, f"a closure created inside `{header(lp)}` reads `{', '.join(free)}` when it is *called*, i.e. after the loop has finished: every closure sees the value of the last iteration (bind it with a default argument or functools.partial)", where(f, c), kind="flow")
    nloops = sum(1 for f in repo.all_functions() if not isinstance(f.node, ast.Lambda) for n in own_nodes(f.node) if isinstance(n, (ast.For, ast.While)) and any(isinstance(x, (ast.Lambda, ast.FunctionDef)) for x in ast.walk(n)))
    res.add("C05.R6", "src::closures in loops bind early", not lbs, f"{nloops} loop(s) create closures; none reads a loop variable late", kind="flow")
    # ---- R2
    lm = repo.cls(MATCHER, "LayerRuleMatcher")
    upd = lm.methods.get("_update_layer_mapping")
    rep = lm.methods.get("_replace_regex_specified_modules_with_actual_modules")
    if upd is None or rep is None:
        raise AnalysisError("LayerRuleMatcher._update_layer_mapping / _replace_regex_specified_modules_with_actual_modules not found")
    all_layers = any(isinstance(n, ast.Attribute) and n.attr == "all_layers" for n in ast.walk(upd.node))
    res.add("C05.R2", f"{upd.relpath}::{upd.qualname}::all layers updated", all_layers, "the updated mapping covers every layer of the architecture" if all_layers else "the updated layer mapping no longer covers all layers", where(upd, upd.node), kind="structural")
    mp = rep.param_names[3] if len(rep.param_names) > 3 else None
    n = 0
    for node in own_nodes(rep.node):
        if isinstance(node, ast.Subscript) and dotted(node.value) == mp and isinstance(node.ctx, ast.Load):
            n += 1
            key = norm(node.slice)
            g = guard_formula(rep, node)
            ok = implies(g, atom(f"{key} in {mp}"))
            res.add("C05.R2", repo.key(rep, stmt_of(node)) + " [lookup]", ok, "raising subscript guarded by a membership test" if ok else f"`{norm(node)}` is a raising lookup, but `{mp}` only contains the regexes of the rule's subjects and objects while the key ranges over the filters of *all* layers: a regex-defined layer the rule does not mention raises KeyError", where(rep, node), kind="dominance")
        if isinstance(node, ast.Call) and is_attr_call(node, "get") and dotted(node.func.value) == mp:
            n += 1
            ok = len(node.args) == 2
            res.add("C05.R2", repo.key(rep, stmt_of(node)) + " [lookup]", ok, "total lookup with a default" if ok else f"`{norm(node)}` yields None for layers the rule does not mention", where(rep, node), kind="structural")
    res.floor("C05.R2", 1, n)
    # ---- R3
    inl = Inliner(repo)
    grv, buckets = bucket_wiring(repo, inl)
    ld = repo.cls(LAYER_DETECTOR, "LayerRuleViolationDetector")
    san = ld.methods.get("_get_realised_dependencies")
    if san is None:
        raise AnalysisError("LayerRuleViolationDetector._get_realised_dependencies (same-layer filter) not found")
    # the filter keeps a pair only if the layers of its two ends differ
    cmp_ = [c for c in own_nodes(san.node) if isinstance(c, ast.Compare) and isinstance(c.ops[0], (ast.NotEq, ast.Eq))]
    adds = [c for c in calls_in(san.node) if isinstance(c.func, ast.Attribute) and c.func.attr in ("add", "append")]
    lay = [c for c in calls_in(san.node) if is_attr_call(c, "get_layer_for_module_name")]
    ok = len(lay) >= 2 and bool(adds) and any(len(conds(san, a)) > 0 for a in adds) and bool(cmp_)
    if ok:
        # the add must be under "layers differ"
        g = guard_formula(san, adds[0])
        sides = sorted([norm(cmp_[0].left), norm(cmp_[0].comparators[0])])
        ok = implies(g, f_not(atom(f"{sides[0]} == {sides[1]}")))
        idx = sorted(norm(c.args[0]) for c in lay)
        ok = ok and any("[0]" in i for i in idx) and any("[1]" in i for i in idx)
    res.add("C05.R3", f"{san.relpath}::{san.qualname}::same-layer filter", ok, "pairs whose two ends lie in the same layer are dropped" if ok else "the same-layer filter no longer drops exactly the pairs whose two ends are in the same layer", where(san, san.node), kind="dominance")
    sup = [c for c in calls_in(san.node) if isinstance(c.func, ast.Attribute) and isinstance(c.func.value, ast.Call) and dotted(c.func.value.func) == "super"]
    res.add("C05.R3", f"{san.relpath}::{san.qualname}::filters all realised pairs", len(sup) == 1 and not conds(san, sup[0]), "the filter starts from all realised pairs" if sup else "the same-layer filter does not start from all realised pairs", where(san, san.node), kind="structural")

    def transfer(f: FuncInfo, call: ast.Call, names_, args, recv, kwargs):
        if isinstance(call.func, ast.Attribute) and call.func.attr == san.name:
            return {"CLEAN"}
        return None

    k = 0
    for b in buckets:
        if b.source != "other":
            continue
        m = repo.lookup_method(ld, b.method)
        data = m.param_names[2]
        flow = Flow(repo, T, Spec(transfer=transfer, param_seeds={(m.fq, data): {"RAW"}}, objects_carry=False, scope=lambda f: f.cls is ld))
        # judgements: tests / any / len on RAW data anywhere in the methods reachable from m inside the layer detector
        seen = [m]
        work = [m]
        while work:
            h = work.pop()
            for c in calls_in(h.node):
                if isinstance(c.func, ast.Attribute) and dotted(c.func.value) == "self":
                    t = repo.lookup_method(ld, c.func.attr)
                    if t is not None and t.cls is ld and t not in seen and t is not san:
                        seen.append(t)
                        work.append(t)
        for h in seen:
            for node in own_nodes(h.node):
                judged = None
                if isinstance(node, ast.Call) and isinstance(node.func, ast.Name) and node.func.id == "len" and node.args and "RAW" in flow.tags(node.args[0]):
                    judged = node
                elif isinstance(node, ast.If) and "RAW" in flow.tags(node.test) and not (isinstance(node.test, ast.BoolOp) or isinstance(node.test, ast.Compare) and isinstance(node.test.ops[0], (ast.Is, ast.IsNot))):
                    if not (isinstance(node.test, ast.Compare) or (isinstance(node.test, ast.UnaryOp) and isinstance(node.test.operand, ast.Name) and node.test.operand.id in h.param_names[1:2])):
                        judged = node.test
                if judged is None:
                    continue
                k += 1
                res.add("C05.R3", repo.key(h, stmt_of(judged)) + f" [{b.field}]", False, f"`{norm(judged, 70)}` judges the un-filtered 'other' dependencies: an import between two modules of the subject layer counts as access to something else", where(h, judged), kind="flow")
        # positive: the emptiness decision of the absent buckets is made on the filtered data
        mode, gran = classify_helper(repo, T, ld, repo.lookup_method(ld, _helper_name(m)))
        if mode == "absent":
            h = repo.lookup_method(ld, _helper_name(m))
            tests = [n_ for n_ in own_nodes(h.node) if isinstance(n_, ast.If) and "CLEAN" in flow.tags(n_.test)]
            k += 1
            res.add("C05.R3", f"{h.relpath}::{h.qualname}::{b.field} judged on filtered data", bool(tests), "the 'is there any other access' decision is made on the same-layer-filtered dependencies" if tests else "no decision on the same-layer-filtered dependencies found for this bucket", where(h, h.node), kind="flow")
            k += 1
            res.add("C05.R4", f"{h.relpath}::{h.qualname}::{b.field} lenient", gran == "joint", "one realised access by any module of the layer satisfies the requirement" if gran == "joint" else "the layer requirement is judged per module instead of per layer", where(h, h.node), kind="structural")
    res.floor("C05.R3", 4, k)
    # ---- R4: explicit absent buckets
    for b in buckets:
        if b.source != "explicit":
            continue
        mode, gran, helper = method_mode(repo, T, ld, b.method)
        if mode == "absent":
            res.add("C05.R4", f"{helper.relpath}::{helper.qualname}::{b.field} lenient", gran == "joint", "a layer is satisfied by any realised import into it" if gran == "joint" else "explicit layer requirements are judged per module pair instead of per layer", where(helper, helper.node), kind="structural")
    rel = ld.methods.get("_get_module_relevant_for_layer")
    if rel is None:
        raise AnalysisError("LayerRuleViolationDetector._get_module_relevant_for_layer not found")
    rets = [s for s in own_nodes(rel.node) if isinstance(s, ast.Return)]
    ok = len(rets) == 2
    if ok:
        def subst(x: ast.expr):
            if isinstance(x, ast.Attribute) and x.attr == "rule_specified_with_importer_as_rule_subject":
                return atom("importer_is_subject")
            if isinstance(x, ast.Attribute) and x.attr == "rule_specified_with_importer_as_rule_object":
                return f_not(atom("importer_is_subject"))
            return None

        for r in rets:
            idx = r.value.slice.value if isinstance(r.value, ast.Subscript) and isinstance(r.value.slice, ast.Constant) else None
            f_ = conds_formula(conds(rel, r), subst)
            if idx == 1:
                ok = ok and implies(f_, atom("importer_is_subject"))
            elif idx == 0:
                ok = ok and implies(f_, f_not(atom("importer_is_subject")))
            else:
                ok = False
    res.add("C05.R4", f"{rel.relpath}::{rel.qualname}::object-side module", ok, "pairs are grouped by the layer of the object-side module (importee for access, importer for be-accessed-by)" if ok else "explicit pairs are not grouped by the layer of the object-side module", where(rel, rel.node), kind="decision-table")
    # ---- R5
    sites = [s for s in names.scan(repo) if s.fi.cls is not None and s.fi.cls.name == "LayerMapping"]
    kk = add_sites(repo, res, "C05.R5", sites)
    res.floor("C05.R5", 1, kk)
    return res


def _helper_name(m: FuncInfo) -> str:
    rets = [s for s in own_nodes(m.node) if isinstance(s, ast.Return) and isinstance(s.value, ast.Call) and isinstance(s.value.func, ast.Attribute) and dotted(s.value.func.value) == "self"]
    if len(rets) != 1:
        raise AnalysisError(f"{m.fq}: helper call not found")
    return rets[0].value.func.attr
