"""C05.R1.READONLY - a layer rule reads the architecture, it never writes into it.

`LayeredArchitecture` keeps one list of module filters per layer; `LayeredArchitecture.__getitem__`, the `LayerMapping` served by
`layer_mapping` (`get_module_filters`) hand those very lists out.  A rule is judged against "the layers as defined"
(properties.jsonl C05: *a layer is the union of its listed modules and all their descendants*), so nothing that builds or judges a
rule may change them: a list that is stored in the rule configuration *as it is* and later extended in place makes the first
named layer swallow the modules of the second one - for this rule (the regex-resolved layer mapping is rebuilt from the same
dict) and for every later rule on the same architecture.

Decided by a forward tag flow (core/flow.py) over the whole source tree:

  D   the dict / the per-layer store: every instance field of the LayeredArchitecture class family, read inside that family
  DC  a shallow copy of it (dict(d), d.copy(), {**d}): a new dict whose values are still the architecture's lists
  L   one of the architecture's lists: an element of D / DC (subscript, .get, iteration over .values() / .items())

A *copy* (list(x), sorted(x), tuple(x), a comprehension, a slice, x + y, [*x], any call the analysis does not resolve into the
repo) yields a fresh object and drops L; containers never absorb the tags (`fresh.extend(L)` copies the elements).  The tags flow
through assignments, fields (per class and attribute), parameters and return values.

A VIOLATION is an in-place mutation whose receiver may be D or L - `x.extend / append / insert / remove / pop / clear / sort /
reverse`, `x += ...`, `x[i] = ...`, `del x[i]`, dict `update / setdefault / pop / popitem / clear` - anywhere outside the
LayeredArchitecture class family itself (defining the layers is that family's job).  Unknown shapes carry no tag: nothing is
reported without having followed the architecture's own list into the mutated receiver.
"""

from __future__ import annotations

import ast

from core.flow import Flow, Spec
from core.loader import FuncInfo, Repo, norm, own_nodes
from core.report import Result
from core.types import members

from .common import stmt_of, types_of, where

LAYER_RULE = "pytestarch.query_language.layered_architecture_rule"
# where rules are built and judged; the import scanner, the graph and the plotting code never see a LayeredArchitecture
SCOPE = ("pytestarch.query_language", "pytestarch.rule_assessment", "pytestarch.eval_structure.evaluable_architecture", "pytestarch.eval_structure.module_name_converter", "pytestarch.diagram_extension", "pytestarch.utils")

LIST_MUTATORS = {"extend", "append", "insert", "remove", "pop", "clear", "sort", "reverse", "appendleft", "extendleft", "popleft"}
DICT_MUTATORS = {"update", "setdefault", "pop", "popitem", "clear"}
SHALLOW_COPIES = {"dict", "OrderedDict", "defaultdict", "MappingProxyType", "copy", "ChainMap"}
PASS_THROUGH = {"cast", "values", "items", "get", "iter", "next", "reversed", "enumerate", "zip", "pop", "popitem", "setdefault", "__getitem__"}


class _AliasFlow(Flow):
    def __init__(self, repo, types, spec, holder: list) -> None:
        holder.append(self)  # the source function reads the return tags of __getitem__ implementations while the flow runs
        super().__init__(repo, types, spec)

    def _stmt(self, fi, s, env) -> None:  # type: ignore[override]
        if isinstance(s, ast.AugAssign):
            # `x += y` keeps the identity of x (lists) or builds a new object (tuples, strings): x never becomes an alias of y
            self._expr(fi, s.value, env)
            self._expr(fi, s.target, env)
            return
        super()._stmt(fi, s, env)


def _family(repo: Repo) -> set[str]:
    arch = repo.cls(LAYER_RULE, "LayeredArchitecture")
    fam = {arch.fq}
    for c in repo.mro(arch):
        if c.module.name.startswith("pytestarch"):
            fam.add(c.fq)
    for c in repo.subclasses(arch):
        fam.add(c.fq)
    return fam


def _fields_of(repo: Repo, fam: set[str]) -> set[str]:
    """Instance fields the family assigns on self (the per-layer store, under whatever name)."""
    out: set[str] = set()
    for fq in fam:
        ci = repo.get_class(fq)
        if ci is None:
            continue
        for m in ci.methods.values():
            for n in own_nodes(m.node):
                if isinstance(n, ast.Attribute) and isinstance(n.ctx, ast.Store) and isinstance(n.value, ast.Name) and n.value.id == "self":
                    out.add(n.attr)
    return out


def build_flow(repo: Repo) -> tuple[_AliasFlow, set[str]]:
    T = types_of(repo)
    fam = _family(repo)
    fields = _fields_of(repo, fam)

    def in_family(fi: FuncInfo) -> bool:
        g: FuncInfo | None = fi
        while g is not None:
            if g.cls is not None and g.cls.fq in fam:
                return True
            g = g.outer
        return False

    holder: list = []

    def sources(fi: FuncInfo, e: ast.expr):
        if isinstance(e, ast.Attribute) and isinstance(e.ctx, ast.Load) and isinstance(e.value, ast.Name) and e.value.id == "self" and e.attr in fields and in_family(fi):
            return {"D"}
        if isinstance(e, ast.Subscript) and isinstance(e.ctx, ast.Load) and not isinstance(e.slice, ast.Slice) and holder:
            # obj[key] on an object of the repo: what its __getitem__ returns
            try:
                t = T.expr(fi, e.value)
            except Exception:  # noqa: BLE001
                return None
            out: set[str] = set()
            for m in members(t):
                if m[0] == "cls":
                    ci = repo.get_class(m[1])
                    if ci is not None:
                        for impl in repo.implementations(ci, "__getitem__"):
                            out |= holder[0].ret_tags.get(impl.fq, frozenset())
            return out or None
        return None

    def in_scope(f: FuncInfo) -> bool:
        return f.module.name.startswith(SCOPE)

    scope_fq = {f.fq for f in repo.all_functions() if in_scope(f)}

    def transfer(fi, call, callee_names, arg_tags, recv_tags, kwargs=None):
        if callee_names and any(c in scope_fq for c in callee_names):
            return None  # a function of the repo: parameters / return values are followed
        if callee_names:
            return set()  # graph / scanning code outside the rule machinery: it does not hand the architecture's lists back
        try:
            if T.ctor_class(fi, call) is not None:
                return None  # a (data)class of the repo: the arguments become fields
        except Exception:  # noqa: BLE001
            pass
        fname = call.func.attr if isinstance(call.func, ast.Attribute) else (call.func.id if isinstance(call.func, ast.Name) else "")
        allt = set(recv_tags)
        for t in arg_tags:
            allt |= t
        for t in (kwargs or {}).values():
            allt |= t
        if not allt & {"D", "DC", "L"}:
            return None
        if fname in PASS_THROUGH:
            return None  # default transfer (views and element selection; iter_map turns D into L where an element is taken)
        if fname in ("deepcopy", "keys"):
            return set()
        out = set(allt) - {"L"}  # a new object: not one of the architecture's lists any more
        if "D" in out:
            out = (out - {"D"}) | {"DC"}  # dict(d), d.copy(), sorted(d.items()) ...: the values still are the architecture's lists
        return out

    def post(fi: FuncInfo, e: ast.expr, tags: frozenset) -> frozenset:
        if isinstance(e, (ast.BinOp, ast.JoinedStr, ast.List, ast.Tuple, ast.Set, ast.ListComp, ast.SetComp, ast.GeneratorExp, ast.Compare)):
            return tags - {"L", "D", "DC"} | ({"DC"} if tags & {"D", "DC"} and not isinstance(e, (ast.JoinedStr, ast.Compare)) else set())
        if isinstance(e, (ast.Dict, ast.DictComp)):
            return tags - {"L", "D"} | ({"DC"} if tags & {"D", "DC", "L"} else set())
        if isinstance(e, ast.Subscript) and isinstance(e.slice, ast.Slice):
            return tags - {"L", "D"} | ({"DC"} if "D" in tags else set())
        return tags

    spec = Spec(
        sources=sources,
        transfer=transfer,
        post=post,
        iter_map={"D": "L", "DC": "L", "L": "E"},
        non_absorbed=frozenset({"L", "D", "DC", "E"}),
        objects_carry=False,
        scope=in_scope,
        opaque={"len", "isinstance", "hasattr", "bool", "print", "id", "type", "callable", "issubclass", "any", "all", "sum", "str", "repr", "hash"},
    )
    return _AliasFlow(repo, T, spec, holder), fam


def mutation_sites(repo: Repo) -> tuple[list[tuple[FuncInfo, ast.AST, str, str]], int]:
    """([(function, node, what, tag)], number of values found to carry one of the architecture's lists outside the family)."""
    flow, fam = build_flow(repo)

    def in_family(fi: FuncInfo) -> bool:
        g: FuncInfo | None = fi
        while g is not None:
            if g.cls is not None and g.cls.fq in fam:
                return True
            g = g.outer
        return False

    out: list[tuple[FuncInfo, ast.AST, str, str]] = []
    carriers = 0
    for fi in repo.all_functions():
        if isinstance(fi.node, ast.Lambda) or in_family(fi) or not fi.module.name.startswith(SCOPE):
            continue
        for n in own_nodes(fi.node):
            if isinstance(n, ast.expr) and flow.tags(n) & {"L", "D"}:
                carriers += 1
            if isinstance(n, ast.Call) and isinstance(n.func, ast.Attribute):
                t = flow.tags(n.func.value)
                m = n.func.attr
                if "L" in t and m in LIST_MUTATORS:
                    out.append((fi, n, f"`{norm(n, 70)}` changes one of the architecture's per-layer lists in place", "L"))
                elif "D" in t and m in DICT_MUTATORS:
                    out.append((fi, n, f"`{norm(n, 70)}` changes the architecture's layer table in place", "D"))
            elif isinstance(n, ast.AugAssign):
                t = flow.tags(n.target)
                if "L" in t and isinstance(n.op, (ast.Add, ast.Mult)):
                    out.append((fi, n, f"`{norm(n, 70)}` extends one of the architecture's per-layer lists in place", "L"))
                elif "D" in t and isinstance(n.op, ast.BitOr):
                    out.append((fi, n, f"`{norm(n, 70)}` updates the architecture's layer table in place", "D"))
            elif isinstance(n, ast.Subscript) and isinstance(n.ctx, (ast.Store, ast.Del)):
                t = flow.tags(n.value)
                if t & {"L", "D"}:
                    out.append((fi, n, f"`{norm(stmt_of(n), 70)}` writes into {'one of the per-layer lists' if 'L' in t else 'the layer table'} of the architecture", "L" if "L" in t else "D"))
    if out:
        # helpers that only the LayeredArchitecture family calls (an extracted `_register(table, name, modules)`) define layers
        # on its behalf: their writes are the family's own.  Computed only when there is something to report.
        exempt = _definition_side(repo, in_family)
        out = [site for site in out if site[0].fq not in exempt]
    return out, carriers


def _definition_side(repo: Repo, in_family) -> set[str]:
    """Functions outside the family all of whose callers (at least one) are in the family or are such functions themselves."""
    from .common import callees_of

    funcs = [f for f in repo.all_functions() if not isinstance(f.node, ast.Lambda)]
    callers: dict[str, set[str]] = {}
    fam_fq: set[str] = set()
    for f in funcs:
        if in_family(f):
            fam_fq.add(f.fq)
        try:
            cs = callees_of(repo, f, byname=True)
        except Exception:  # noqa: BLE001
            cs = []
        for c in cs:
            callers.setdefault(c.fq, set()).add(f.fq)
    exempt: set[str] = set()  # least fixpoint: call cycles on the rule side never justify themselves
    changed = True
    while changed:
        changed = False
        for f in funcs:
            if f.fq in fam_fq or f.fq in exempt:
                continue
            cs = callers.get(f.fq, set()) - {f.fq}
            if cs and all(c in fam_fq or c in exempt for c in cs):
                exempt.add(f.fq)
                changed = True
    return exempt


def check_architecture_untouched(repo: Repo, res: Result) -> None:
    arch = repo.cls(LAYER_RULE, "LayeredArchitecture")
    construct = f"{arch.module.relpath}::LayeredArchitecture::layer lists are only read by rules"
    sites, carriers = mutation_sites(repo)
    for fi, n, what, _tag in sites:
        res.add("C05.R1.READONLY", repo.key(fi, stmt_of(n)) + " [writes into the architecture]", False, what + ": the layers a rule is judged against are no longer the layers as defined (a module listed in two layers goes to the one defined later; later rules on the same architecture see the change)", where(fi, n), kind="flow")
    if not sites:
        res.add("C05.R1.READONLY", construct, True, f"the per-layer lists of the architecture reach {carriers} expression(s) outside LayeredArchitecture; none of them is the receiver of an in-place mutation", kind="flow")
    res.analysed["architecture_list_carriers"] = carriers
