"""C05.R5 (ordering part) - a binary search in the layer lookup compares the searched name under the order the list was sorted by.

The lookup may narrow the listed module names with `bisect` before it scans for ancestors.  A binary search is only right when
the probe is compared with the elements under the very order the list is sorted by:

  * `sorted(xs)` / `xs.sort()`  and  `bisect(xs, name)`                      - natural order on both sides;
  * `sorted(xs, key=f)`         and  `bisect(xs, f(name), key=f)`            - `bisect` applies `key` to the *elements only*, the
                                                                               probe has to be passed as `f(name)` already;
  * anything else (key on one side only, different keys, a raw probe next to `key=f`, a descending list) searches a list that
    is not sorted with respect to the comparison that is made: ancestors listed before the true insertion point are skipped and
    descendants of a listed module get no layer.

A key must also keep every ancestor in front of its descendants (the scan runs from the insertion point towards the start of
the list); keys that map a name character by character (str.lower / str.upper / str.casefold) do, others are left undecided.
"""

from __future__ import annotations

import ast

from core.loader import FuncInfo, Repo, norm, own_nodes, parent

BISECT = {"bisect", "bisect_left", "bisect_right", "insort", "insort_left", "insort_right"}
PREFIX_COMPATIBLE_KEYS = {"str.lower", "str.upper", "str.casefold", "components", "components-tuple"}
# "components": the name split at the dots (`lambda n: n.split(".")`) - hierarchy order: a module is directly followed by all of
# its sub modules, and only by them
PY_KEYS = {None: None, "str.lower": str.lower, "str.upper": str.upper, "str.casefold": str.casefold, "components": lambda n: n.split("."), "components-tuple": lambda n: tuple(n.split("."))}


def _components_of(b: ast.expr, p: str | None = None) -> str | None:
    """'components' / 'components-tuple' when `b` is `<p>.split(".")` / `tuple(<p>.split("."))` (p: required receiver name)."""
    tup = False
    if isinstance(b, ast.Call) and isinstance(b.func, ast.Name) and b.func.id == "tuple" and len(b.args) == 1 and not b.keywords:
        b, tup = b.args[0], True
    if isinstance(b, ast.Call) and isinstance(b.func, ast.Attribute) and b.func.attr == "split" and len(b.args) == 1 and not b.keywords and isinstance(b.args[0], ast.Constant) and b.args[0].value == ".":
        if p is None or (isinstance(b.func.value, ast.Name) and b.func.value.id == p):
            return "components-tuple" if tup else "components"
    return None


def _is_bisect(repo: Repo, f: FuncInfo, call: ast.Call) -> bool:
    fn = call.func
    name = fn.id if isinstance(fn, ast.Name) else fn.attr if isinstance(fn, ast.Attribute) else ""
    if name not in BISECT:
        return False
    fq = repo.resolve_name(f.module, fn) if isinstance(fn, (ast.Name, ast.Attribute)) else None
    return fq is None or fq.startswith("bisect.")


def _kw(call: ast.Call, name: str) -> ast.expr | None:
    return next((k.value for k in call.keywords if k.arg == name), None)


def _key_text(k: ast.expr | None) -> str | None:
    if k is None or (isinstance(k, ast.Constant) and k.value is None):
        return None
    if isinstance(k, ast.Lambda) and len(k.args.args) == 1:
        p = k.args.args[0].arg
        b = k.body
        # lambda s: s.lower()  ==  str.lower
        if isinstance(b, ast.Call) and isinstance(b.func, ast.Attribute) and isinstance(b.func.value, ast.Name) and b.func.value.id == p and not b.args:
            return f"str.{b.func.attr}"
        if isinstance(b, ast.Name) and b.id == p:
            return None  # identity
        comp = _components_of(b, p)
        if comp is not None:
            return comp
    return norm(k)


def _sortings(repo: Repo, f: FuncInfo, e: ast.expr, depth: int = 0) -> list[tuple[str | None, bool, ast.AST]] | None:
    """[(key text, reverse?, node)] for every way the list denoted by `e` gets its order; None when it cannot be followed."""
    if depth > 6:
        return None
    if isinstance(e, ast.Subscript) and isinstance(e.slice, ast.Slice) and e.slice.step is None:
        return _sortings(repo, f, e.value, depth + 1)  # a slice of a sorted list is sorted
    if isinstance(e, ast.Call):
        fn = e.func
        if isinstance(fn, ast.Name) and fn.id == "sorted" and e.args:
            rev = _kw(e, "reverse")
            return [(_key_text(_kw(e, "key")), bool(rev is not None and not (isinstance(rev, ast.Constant) and not rev.value)), e)]
        if isinstance(fn, ast.Name) and fn.id in ("list", "tuple") and len(e.args) == 1:
            return _sortings(repo, f, e.args[0], depth + 1)
        if isinstance(fn, ast.Name) and fn.id == "filter" and len(e.args) == 2:
            return _sortings(repo, f, e.args[1], depth + 1)  # a selection keeps the order
        if isinstance(fn, ast.Attribute) and fn.attr == "fromkeys" and isinstance(fn.value, ast.Name) and fn.value.id in ("dict", "OrderedDict") and len(e.args) == 1:
            return _sortings(repo, f, e.args[0], depth + 1)  # de-duplication in first-seen order
        # a helper of the repo that returns the list
        callee = _callee(repo, f, e)
        if callee is not None:
            rets = [r.value for r in own_nodes(callee.node) if isinstance(r, ast.Return) and r.value is not None]
            if not rets:
                return None
            out_h: list[tuple[str | None, bool, ast.AST]] = []
            for r in rets:
                got = _sortings(repo, callee, r, depth + 1)
                if got is None:
                    return None
                out_h += got
            return out_h
        return None
    if isinstance(e, (ast.ListComp, ast.GeneratorExp)) and len(e.generators) == 1 and isinstance(e.elt, ast.Name) and isinstance(e.generators[0].target, ast.Name) and e.generators[0].target.id == e.elt.id:
        return _sortings(repo, f, e.generators[0].iter, depth + 1)  # [x for x in xs if ...]: a selection keeps the order
    targets: list[tuple[FuncInfo, ast.expr]] = []

    def same(t: ast.expr) -> bool:
        if isinstance(e, ast.Name):
            return isinstance(t, ast.Name) and t.id == e.id
        return isinstance(t, ast.Attribute) and norm(t) == norm(e)

    if isinstance(e, ast.Name) and not isinstance(f.node, ast.Lambda):
        if e.id in f.param_names:
            return None
        funcs = [f]
    elif isinstance(e, ast.Attribute) and isinstance(e.value, ast.Name) and e.value.id in ("self", "cls") and f.cls is not None:
        funcs = [m for c in repo.mro(f.cls) for m in c.methods.values() if not isinstance(m.node, ast.Lambda)]
    else:
        return None
    out: list[tuple[str | None, bool, ast.AST]] = []
    stores = 0
    for m in funcs:
        for n in own_nodes(m.node):
            if isinstance(n, (ast.Assign, ast.AnnAssign)) and n.value is not None:
                tgs = n.targets if isinstance(n, ast.Assign) else [n.target]
                if any(same(t) for t in tgs):
                    stores += 1
                    got = _sortings(repo, m, n.value, depth + 1)
                    if got is None:
                        # an unsorted list that is sorted in place afterwards is handled below
                        targets.append((m, n.value))
                    else:
                        out += got
            elif isinstance(n, ast.Call) and isinstance(n.func, ast.Attribute) and n.func.attr == "sort" and same(n.func.value):
                rev = _kw(n, "reverse")
                out.append((_key_text(_kw(n, "key")), bool(rev is not None and not (isinstance(rev, ast.Constant) and not rev.value)), n))
            elif isinstance(n, ast.Call) and isinstance(n.func, (ast.Name, ast.Attribute)) and (n.func.id if isinstance(n.func, ast.Name) else n.func.attr) in ("insort", "insort_left", "insort_right") and n.args and same(n.args[0]):
                out.append((_key_text(_kw(n, "key")), False, n))
    if not stores and not out:
        return None
    if isinstance(e, ast.Name) and targets and all(_is_empty_list(v) for _m, v in targets) and not out:
        # a list that starts empty and only ever receives, by append, the elements of one sorted iteration (some may be
        # skipped): a sub-sequence of a sorted sequence is sorted
        kept = _selected_in_order(repo, f, e.id, depth)
        if kept is not None:
            return kept
    if targets and not any(isinstance(x, ast.Call) and isinstance(x.func, ast.Attribute) and x.func.attr == "sort" for _k, _r, x in out):
        return None  # some assignment stores a list whose order is unknown and nothing sorts it in place
    return out


def _callee(repo: Repo, f: FuncInfo, call: ast.Call) -> FuncInfo | None:
    from .common import types_of

    try:
        cs, how = types_of(repo).callees(f, call, byname_fallback=False)
    except Exception:  # noqa: BLE001
        return None
    cs = [c for c in cs if not c.is_abstract and not isinstance(c.node, ast.Lambda)]
    if len(cs) == 1 and how == "repo" and not any(isinstance(n, (ast.Yield, ast.YieldFrom)) for n in own_nodes(cs[0].node)):
        return cs[0]
    return None


def _is_empty_list(v: ast.expr) -> bool:
    return (isinstance(v, ast.List) and not v.elts) or (isinstance(v, ast.Call) and isinstance(v.func, ast.Name) and v.func.id == "list" and not v.args and not v.keywords)


def _selected_in_order(repo: Repo, f: FuncInfo, name: str, depth: int) -> list[tuple[str | None, bool, ast.AST]] | None:
    from core.loader import ancestors

    loops: list[ast.For] = []
    for n in own_nodes(f.node):
        if isinstance(n, ast.Call) and isinstance(n.func, ast.Attribute) and isinstance(n.func.value, ast.Name) and n.func.value.id == name:
            if n.func.attr in ("index", "count", "copy", "__len__", "__contains__"):
                continue
            if n.func.attr != "append" or len(n.args) != 1 or not isinstance(n.args[0], ast.Name):
                return None  # insert / extend / pop / sort ...: not a plain selection
            loop = next((a for a in ancestors(n) if isinstance(a, (ast.For, ast.While, ast.AsyncFor))), None)
            if not isinstance(loop, ast.For) or not isinstance(loop.target, ast.Name) or loop.target.id != n.args[0].id or loop.orelse:
                return None
            # the loop variable is not rebound inside the loop
            if any(isinstance(x, ast.Name) and x.id == loop.target.id and isinstance(x.ctx, ast.Store) for st in loop.body for x in ast.walk(st)):
                return None
            if loop not in loops:
                loops.append(loop)
        elif isinstance(n, (ast.AugAssign, ast.Delete)) and any(isinstance(x, ast.Name) and x.id == name for x in ast.walk(n.target if isinstance(n, ast.AugAssign) else n)):
            return None
        elif isinstance(n, ast.Subscript) and isinstance(n.ctx, (ast.Store, ast.Del)) and isinstance(n.value, ast.Name) and n.value.id == name:
            return None
    if len(loops) != 1:
        return None  # two loops appending to one list: the concatenation of two sorted runs is not sorted
    if any(isinstance(a, (ast.For, ast.While, ast.AsyncFor)) for a in ancestors(loops[0]) if a is not f.node):
        return None
    return _sortings(repo, f, loops[0].iter, depth + 1)


def _probe_key(f: FuncInfo, x: ast.expr, depth: int = 0) -> str | None:
    """Text of the key function the probe was passed through: `f(name)`, `name.lower()`; None for a raw value."""
    if depth > 4:
        return None
    if isinstance(x, ast.Call):
        comp = _components_of(x)
        if comp is not None:
            return comp
        if isinstance(x.func, ast.Attribute) and not x.args and not isinstance(x.func.value, ast.Constant) and x.func.attr in ("lower", "upper", "casefold"):
            return f"str.{x.func.attr}"
        if len(x.args) == 1 and not x.keywords and isinstance(x.func, (ast.Name, ast.Attribute)):
            return norm(x.func)
    if isinstance(x, ast.Name) and not isinstance(f.node, ast.Lambda) and x.id not in f.param_names:
        asg = [n for n in own_nodes(f.node) if isinstance(n, ast.Assign) and len(n.targets) == 1 and isinstance(n.targets[0], ast.Name) and n.targets[0].id == x.id]
        stores = [n for n in own_nodes(f.node) if isinstance(n, ast.Name) and n.id == x.id and isinstance(n.ctx, ast.Store)]
        if len(asg) == 1 and len(stores) == 1:
            return _probe_key(f, asg[0].value, depth + 1)
    return None


def bisect_sites(repo: Repo, funcs: list[FuncInfo]) -> list[tuple[FuncInfo, ast.Call, str, str]]:
    """(function, call, verdict 'ok' | 'violated' | 'undecided', explanation) for every binary search in `funcs`."""
    out = []
    for f in funcs:
        if isinstance(f.node, ast.Lambda):
            continue
        for n in own_nodes(f.node):
            if not (isinstance(n, ast.Call) and _is_bisect(repo, f, n) and len(n.args) >= 2):
                continue
            lst, probe = n.args[0], n.args[1]
            bkey = _key_text(_kw(n, "key"))
            pkey = _probe_key(f, probe)
            sorts = _sortings(repo, f, lst)
            if sorts is None or not sorts:
                out.append((f, n, "undecided", f"cannot establish how `{norm(lst, 50)}` is sorted, so whether `{norm(n, 70)}` searches it under the same order"))
                continue
            verdict, why = "ok", ""
            for skey, rev, node in sorts:
                where_sorted = f"`{norm(node, 60)}`"
                if rev:
                    verdict, why = "violated", f"{where_sorted} sorts in descending order, but `{norm(n, 60)}` assumes an ascending list"
                elif skey != bkey:
                    verdict, why = "violated", f"{where_sorted} sorts by {skey or 'the natural order'}, but `{norm(n, 60)}` compares the elements by {bkey or 'the natural order'}: the list is not sorted with respect to the comparison the binary search makes"
                elif bkey is not None and pkey != bkey:
                    verdict, why = "violated", f"`{norm(n, 70)}`: bisect applies `key` to the list elements only - the searched value `{norm(probe, 30)}` is compared raw with {bkey}(element), although the list is sorted by {bkey}; names on which {bkey} is not the identity land at the wrong insertion point, listed ancestors are skipped and their descendants get no layer"
                elif bkey is None and pkey is not None and pkey in PREFIX_COMPATIBLE_KEYS | {"str.strip"}:
                    verdict, why = "violated", f"`{norm(n, 70)}` searches a naturally sorted list of names with the transformed value `{norm(probe, 30)}`"
                elif bkey is not None and bkey not in PREFIX_COMPATIBLE_KEYS:
                    verdict, why = "undecided", f"the list is sorted and searched by `{bkey}`: cannot establish that this order keeps every ancestor in front of its descendants"
                if verdict != "ok":
                    break
            if verdict == "ok":
                why = f"`{norm(lst, 40)}` is sorted by {bkey or 'the natural order'} and searched under the same order" + (f" (probe passed through {pkey})" if bkey else "")
            out.append((f, n, verdict, why))
    return out


def witness_fields(repo: Repo, funcs: list[FuncInfo]) -> list[tuple[str, object, ast.Call]]:
    """(text of the attribute holding the sorted list, Python key function or None, bisect call) for every binary search over
    a list stored on the object that is produced by one plain `sorted(...)` (natural order or a character-wise key)."""
    out = []
    seen: set[str] = set()
    for f in funcs:
        if isinstance(f.node, ast.Lambda):
            continue
        for n in own_nodes(f.node):
            if not (isinstance(n, ast.Call) and _is_bisect(repo, f, n) and len(n.args) >= 2):
                continue
            lst = n.args[0]
            if not (isinstance(lst, ast.Attribute) and isinstance(lst.value, ast.Name) and lst.value.id in ("self", "cls")):
                continue
            text = norm(lst)
            if text in seen:
                continue
            sorts = _sortings(repo, f, lst)
            if not sorts or len(sorts) != 1:
                continue
            skey, rev, node = sorts[0]
            if rev or not (isinstance(node, ast.Call) and isinstance(node.func, ast.Name) and node.func.id == "sorted"):
                continue
            if not (isinstance(parent(node), (ast.Assign, ast.AnnAssign)) and parent(node).value is node):
                continue  # the sorted list is post-processed (pruned, sliced) before it is stored: its content is not `sorted(all names)`
            key = PY_KEYS.get(skey, "?")
            if key == "?":
                continue
            seen.add(text)
            out.append((text, key, n))
    return out
