"""C05.R3 / C05.R4 - the layer detector judges layers, not modules.

For every field of RuleViolations (wiring taken from rules/tables.py: field -> detector method -> which query result it
receives) the method that `LayerRuleViolationDetector` executes is inlined (devirtualised inline view) and interpreted
abstractly (rules/c05_shapes.py):

  R3  'other' dependencies: reported pairs have passed the same-layer filter; every emptiness decision ("is there any other
      access?") is made on filtered pairs
  R4  a requirement is judged per layer: missing dependencies are reported only when *no* pair of the (object) layer is
      realised; explicit pairs are grouped by the layer of the object-side module

Helpers are not named anywhere: the anchors are `get_rule_violation` / `RuleViolations` (tables.py), the public
`LayerMapping.get_layer_for_module_name`, `ModuleRequirement.rule_specified_with_importer_as_rule_subject/_object`.
"""

from __future__ import annotations

import ast

from core.guards import atom, atoms_of, conds_formula, f_not, f_or, implies, satisfiable
from core.loader import AnalysisError, FuncInfo, Repo, norm
from core.report import Result

from .c05_shapes import LOOKUP, D, Shapes, _is_empty_literal
from .c05_views import Production, all_nodes, dview, family, key_of, productions, single_value, value_cases, where_of
from .common import conds, types_of, where
from .tables import LAYER_DETECTOR, Inliner, bucket_wiring

IS_SUBJECT = "rule_specified_with_importer_as_rule_subject"
IS_OBJECT = "rule_specified_with_importer_as_rule_object"


def _orientation_subst(sh: Shapes):
    def extra(e: ast.expr):
        if isinstance(e, ast.Attribute) and e.attr == IS_SUBJECT:
            return atom("IMPORTER_IS_SUBJECT")
        if isinstance(e, ast.Attribute) and e.attr == IS_OBJECT:
            return f_not(atom("IMPORTER_IS_SUBJECT"))
        if isinstance(e, ast.Name) and isinstance(e.ctx, ast.Load):
            v = single_value(sh.view, e)
            if v is not e and isinstance(v, ast.Attribute) and v.attr in (IS_SUBJECT, IS_OBJECT):
                return extra(v)
        return None

    return extra


def _result_productions(view: FuncInfo, sh: Shapes | None = None) -> list[Production]:
    out: list[Production] = []
    for n in all_nodes(view):
        if isinstance(n, ast.Return) and n.value is not None and not _is_empty_literal(n.value):
            got = productions(view, n.value)
            if sh is not None and not any(p.elt is not None and any(t[0] in ("K", "KS") for t in sh.tags(p.elt)) for p in got) and any(t[0] in ("KS", "K") for t in sh.tags(n.value)):
                # keys are returned wholesale (`set(product(data.keys(), ..))`, `set(map(f, missing))`): one event, the return
                src = _strip(n.value)
                inner = None
                if isinstance(src, ast.Call) and isinstance(src.func, ast.Name) and src.func.id == "map" and len(src.args) == 2:
                    inner = _strip(src.args[1])
                if isinstance(inner, ast.Name) and inner.id not in view.param_names:
                    sub = [q for q in productions(view, inner) if q.elt is not None and any(t[0] == "K" for t in sh.tags(q.elt))]
                    if sub:
                        got = [Production(q.elt, q.loops, conds(view, n) + q.conds, q.node) for q in sub]
                        out += got
                        continue
                got = [Production(n.value, [], conds(view, n), n, merged=n.value)]
            out += got
    return out


FLATTENERS = {"from_iterable", "chain", "list", "set", "sorted", "tuple", "frozenset", "reversed", "iter"}


def _strip(e: ast.expr) -> ast.expr:
    """The collection underneath list() / set() / chain.from_iterable() / chain(*x) wrappers."""
    while isinstance(e, ast.Call) and e.args:
        nm = e.func.attr if isinstance(e.func, ast.Attribute) else e.func.id if isinstance(e.func, ast.Name) else ""
        if nm not in FLATTENERS or len(e.args) != 1:
            break
        e = e.args[0].value if isinstance(e.args[0], ast.Starred) else e.args[0]
    return e


def _deep_conds(view: FuncInfo, sh: Shapes, p: Production, depth: int = 0) -> list[list]:
    """Alternative condition lists under which the produced element exists: the event's own conditions, extended by the
    conditions under which the elements it draws from a local collection were put there."""
    base = list(p.conds)
    for t, it in p.loops:
        base += _iteration_conds(t, it)
    if depth > 3:
        return [base]
    for _t, it in p.loops:
        src = _strip(it)
        if isinstance(src, ast.Name) and src.id not in view.param_names:
            allq = productions(view, src)
            inner = [q for q in allq if q.elt is not None or (q.merged is not None and q.node is not src and (q.conds or any(_iteration_conds(t2, it2) for t2, it2 in q.loops)))]
            if inner and all(q.node is not p.node for q in inner):
                out = []
                for q in inner:
                    if q.elt is None:
                        # a collection merged in wholesale (`result.extend(groups.get(layer, ()))`): the conditions of the
                        # merge, and those under which the merged collection itself was filled
                        around = [c for t2, it2 in q.loops for c in _iteration_conds(t2, it2)]
                        for cs in _merged_conds(view, sh, q.merged, depth + 1):
                            out.append(base + list(q.conds) + around + cs)
                        continue
                    for cs in _deep_conds(view, sh, q, depth + 1):
                        out.append(base + cs)
                return out
    return [base]


_ITER_BUILTINS = {"list", "set", "tuple", "frozenset", "sorted", "reversed", "iter", "filter", "map", "zip", "enumerate", "chain", "from_iterable", "dict", "islice", "product", "starmap", "groupby"}


def _opaque_call(sh: Shapes, c: ast.expr) -> bool:
    """A call whose result is produced by code the view does not show: a function / method of the repo that was not inlined (a
    generator with nested definitions, a callable object, a stored callback)."""
    if not isinstance(c, ast.Call):
        return False
    f = c.func
    if isinstance(f, ast.Name):
        return f.id not in _ITER_BUILTINS
    if isinstance(f, ast.Attribute):
        if f.attr in _ITER_BUILTINS:
            return False
        root = f.value
        while isinstance(root, (ast.Attribute, ast.Call, ast.Subscript)):
            root = root.func if isinstance(root, ast.Call) else root.value
        if isinstance(root, ast.Name) and root.id in ("self", "cls"):
            return True  # a method (or stored callable) of the detector that stayed a call
        return not sh.tags(c)
    return True


def _unfollowed_source(view: FuncInfo, sh: Shapes, p: Production, depth: int = 0) -> ast.expr | None:
    """An iteration source of the production (or of the local collections it draws from) whose elements come out of code the
    view does not show."""
    for _t, it in p.loops:
        src = _strip(it)
        if isinstance(src, ast.Name) and src.id not in view.param_names and depth < 3:
            for q in productions(view, src):
                if q.node is p.node:
                    continue
                if q.elt is None and q.merged is not None and q.node is not src:
                    if _opaque_call(sh, _strip(q.merged)):
                        return _strip(q.merged)
                elif q.elt is not None:
                    got = _unfollowed_source(view, sh, q, depth + 1)
                    if got is not None:
                        return got
        elif _opaque_call(sh, src):
            return src
    return None


def _iteration_conds(target: ast.expr, it: ast.expr) -> list:
    """Conditions the elements of an iteration source satisfy by construction: `for x in xs - done` iterates elements that are
    `not in done`, `for x in xs & wanted` / `wanted.intersection(xs)` elements that are `in wanted`."""
    if not isinstance(target, ast.Name):
        return []
    src = _strip(it)
    out = []

    def member(coll: ast.expr, positive: bool):
        c = ast.Compare(left=ast.Name(id=target.id, ctx=ast.Load()), ops=[ast.In() if positive else ast.NotIn()], comparators=[coll])
        ast.copy_location(c, it)
        ast.copy_location(c.left, it)
        return (c, True)

    if isinstance(src, ast.BinOp) and isinstance(src.op, ast.Sub):
        out.append(member(src.right, False))
        out += _iteration_conds(target, src.left)
    elif isinstance(src, ast.BinOp) and isinstance(src.op, ast.BitAnd):
        for side in (src.left, src.right):
            if isinstance(_strip(side), ast.Name):
                out.append(member(side, True))
    elif isinstance(src, ast.Call) and isinstance(src.func, ast.Attribute) and src.args:
        if src.func.attr == "difference":
            out += [member(a, False) for a in src.args]
            out += _iteration_conds(target, src.func.value)
        elif src.func.attr == "intersection":
            for side in (src.func.value, *src.args):
                if isinstance(_strip(side), ast.Name):
                    out.append(member(side, True))
    return out


def _merged_conds(view: FuncInfo, sh: Shapes, e: ast.expr, depth: int) -> list[list]:
    """Alternative condition lists under which the elements of the collection `e` got there: `e` is a local collection, or one
    value of a local dictionary of collections (`groups[layer]`, `groups.get(layer, ())`)."""
    e = _strip(e)
    if depth > 3:
        return [[]]
    if isinstance(e, ast.Name) and e.id not in view.param_names:
        out = []
        for q in productions(view, e):
            if q.elt is not None:
                out += _deep_conds(view, sh, q, depth + 1)
            elif q.merged is not None and q.node is not e:
                out += [list(q.conds) + cs for cs in _merged_conds(view, sh, q.merged, depth + 1)]
        return out or [[]]
    d = None
    if isinstance(e, ast.Subscript) and not isinstance(e.slice, ast.Slice):
        d = e.value
    elif isinstance(e, ast.Call) and isinstance(e.func, ast.Attribute) and e.func.attr in ("get", "pop", "setdefault") and e.args:
        d = e.func.value
    if isinstance(d, ast.Name) and d.id not in view.param_names:
        out = [list(conds(view, ev)) for ev in _dict_value_events(view, d.id)]
        return out or [[]]
    return [[]]


def _dict_value_events(view: FuncInfo, name: str) -> list[ast.AST]:
    """Events that put an element into one of the collections a local dictionary holds: `d[k].append(x)`,
    `d.setdefault(k, []).append(x)`, `d[k] = d.get(k, []) + [x]`, `d[k] += [x]`."""
    out: list[ast.AST] = []
    for n in all_nodes(view):
        if isinstance(n, ast.Call) and isinstance(n.func, ast.Attribute) and n.func.attr in ("append", "add", "extend", "update", "insert", "appendleft"):
            r = n.func.value
            if isinstance(r, ast.Subscript) and isinstance(r.value, ast.Name) and r.value.id == name:
                out.append(n)
            elif isinstance(r, ast.Call) and isinstance(r.func, ast.Attribute) and r.func.attr in ("setdefault", "get") and isinstance(r.func.value, ast.Name) and r.func.value.id == name:
                out.append(n)
        elif isinstance(n, ast.Subscript) and isinstance(n.ctx, ast.Store) and isinstance(n.value, ast.Name) and n.value.id == name:
            out.append(n)
    return out


def check_detector(repo: Repo, res: Result) -> None:
    T = types_of(repo)
    inl = Inliner(repo)
    grv, buckets = bucket_wiring(repo, inl)
    ld = repo.cls(LAYER_DETECTOR, "LayerRuleViolationDetector")
    ld_mro = {c.fq for c in repo.mro(ld)}

    fam_ = family(repo, ld)

    def allow(caller: FuncInfo, callee: FuncInfo) -> bool:
        # helpers of the detector's class family, module-level functions, and the methods of *private helper classes* that live
        # next to the detector (`self._rule_object_layers.requested_but_never_accessed(data)`): part of the same judgement
        return fam_(caller, callee) or (callee.cls is not None and callee.cls.name.startswith("_") and callee.module.name == ld.module.name)

    k3 = k4 = 0
    seen_orient: set[str] = set()
    for b in buckets:
        m = repo.lookup_method(ld, b.method)
        if m is None or m.is_abstract:
            raise AnalysisError(f"LayerRuleViolationDetector has no concrete `{b.method}` (bucket {b.field})")
        if len(m.param_names) < 3:
            raise AnalysisError(f"{m.fq}: expected (self, flag, data) parameters")
        data = m.param_names[2]
        src = "E" if b.source == "explicit" else "O"
        view = dview(repo, m, ld, allow, tag="ld")
        if not getattr(view, "_records_split", False):
            from .c05_functional import flatten_groups, split_records

            view._records_split = True  # type: ignore[attr-defined]
            split_records(repo, view)  # per-layer records (dataclass in a defaultdict) -> one table per field
            flatten_groups(view)  # a list of groups read group by group -> the list of their elements
        sh = Shapes(repo, T, view, {data: {D(src)}}, recv=ld, allow=allow)
        prods = _result_productions(view, sh)
        keyp = [p for p in prods if p.elt is not None and any(t[0] in ("K", "KS") for t in sh.tags(p.elt))]
        pairs = [t for t in sh.ret if t[0] == "L"]
        mode = "present" if pairs and not keyp else ("absent" if keyp and not pairs else ("mixed" if keyp and pairs else "unknown"))
        head = f"{m.relpath}::{getattr(view, 'shown', m.qualname)}"
        if mode in ("unknown", "mixed"):
            res.undecide("C05.R3" if src == "O" else "C05.R4", f"{head}::{b.field}", f"cannot tell whether the bucket reports realised pairs or missing dependencies (result shapes {sorted(map(str, sh.ret))})" + (f"; the result is drawn from `{norm(_foreign_call(view), 60)}`, a method of another class that is not followed" if _foreign_call(view) is not None else ""), where(m, m.node))
            # the bucket was found and looked at (its verdict is open): the floors guard against buckets that vanish from the
            # wiring table, not against judgements that moved out of the detector's own methods
            if src == "O":
                k3 += 1
            else:
                k4 += 2
            continue
        for ev in sh.unknown_filters:
            res.undecide("C05.R3", key_of(repo, view, ev, f" [{b.field}]"), "a test on the two ends of a dependency pair guards its addition, but it is not recognisably `layer(end 0) != layer(end 1)`", where_of(view, ev))
        for ev, text in sh.overfilters:
            k = key_of(repo, view, ev, " [over-filter]")
            if k not in seen_orient:
                seen_orient.add(k)
                res.add("C05.R3", k, False, f"dependencies are dropped under `{text}` although their two ends may lie in different layers (a module in no layer is 'something else' too): the filter removes more than the same-layer pairs", where_of(view, ev), kind="dominance")
        js = sh.judgements()
        jmap = {id(j.node): j for j in js}
        if src == "O" and mode == "present":
            k3 += 1
            dirty = [t for t in pairs if t[2] is not True]
            if any(t[2] is False for t in dirty):
                res.add("C05.R3", f"{head}::{b.field} reports filtered pairs", False, "the reported 'other' dependencies have not (all) passed the same-layer filter: an import between two modules of the subject layer is reported as a forbidden access to something else", where(m, m.node), kind="flow")
            elif dirty:
                if not sh.unknown_filters:
                    res.undecide("C05.R3", f"{head}::{b.field} reports filtered pairs", "cannot establish that the reported pairs passed the same-layer filter", where(m, m.node))
            else:
                res.add("C05.R3", f"{head}::{b.field} reports filtered pairs", True, "every reported 'other' dependency was added under `layer(end 0) != layer(end 1)`", where(m, m.node), kind="flow")
        elif src == "O" and mode == "absent":
            # (i) no emptiness decision on unfiltered pairs
            raw = [j for j in js if j.src == "O" and j.clean is not True]
            for j in raw:
                k3 += 1
                if j.clean is False:
                    res.add("C05.R3", key_of(repo, view, j.node, f" [{b.field}]"), False, f"`{norm(j.node, 70)}` judges the un-filtered 'other' dependencies: an import between two modules of the subject layer counts as access to something else", where_of(view, j.node), kind="flow")
                elif not sh.unknown_filters:
                    res.undecide("C05.R3", key_of(repo, view, j.node, f" [{b.field}]"), f"cannot establish that `{norm(j.node, 60)}` judges same-layer-filtered dependencies", where_of(view, j.node))
            # (ii) the decision that suppresses the report is made on filtered pairs, for the layer as a whole
            k3 += 1
            k4 += 1
            ok3, ok4, why = _absent_guard(view, sh, keyp, jmap, "O")
            if any(j.clean is False for j in raw):
                pass  # consequence of the violation reported above
            elif ok3 is None:
                res.undecide("C05.R3", f"{head}::{b.field} judged on filtered data", why, where(m, m.node))
            else:
                res.add("C05.R3", f"{head}::{b.field} judged on filtered data", ok3, "the 'is there any other access' decision is made on the same-layer-filtered dependencies" if ok3 else why, where(m, m.node), kind="flow")
                if ok3:
                    res.add("C05.R4", f"{head}::{b.field} lenient", bool(ok4), "one realised access by any module of the layer satisfies the requirement" if ok4 else (why or "the layer requirement is judged per module instead of per layer"), where(m, m.node), kind="structural")
        elif src == "E" and mode == "absent":
            k4 += 1
            ok3, ok4, why = _absent_guard(view, sh, keyp, jmap, "E")
            if ok3 is None:
                res.undecide("C05.R4", f"{head}::{b.field} lenient", why, where(m, m.node))
            else:
                res.add("C05.R4", f"{head}::{b.field} lenient", bool(ok3 and ok4), "a layer is satisfied by any realised import into it" if ok3 and ok4 else why, where(m, m.node), kind="structural")
            # orientation of the grouping
            for verdict, construct, detail, wh in [x for s_ in _all_shapes(sh) for x in _orientation(repo, s_.view, s_)]:
                if construct in seen_orient:
                    continue
                seen_orient.add(construct)
                k4 += 1
                if verdict is None:
                    res.undecide("C05.R4", construct, detail, wh)
                else:
                    res.add("C05.R4", construct, verdict, detail, wh, kind="decision-table")
    res.floor("C05.R3", 4, k3)
    res.floor("C05.R4", 5, k4)


def _foreign_call(view: FuncInfo) -> ast.Call | None:
    """A call on an object stored in a field of the detector (`self._helper.method(data)`) that stayed a call in the view."""
    for n in all_nodes(view):
        if isinstance(n, ast.Call) and isinstance(n.func, ast.Attribute) and isinstance(n.func.value, ast.Attribute) and isinstance(n.func.value.value, ast.Name) and n.func.value.value.id == "self" and n.args:
            return n
    return None


def _absent_guard(view: FuncInfo, sh: Shapes, keyp: list[Production], jmap: dict, src: str):
    """(decided on acceptable data?, per layer?, explanation).  Every production of a missing dependency must be guarded by
    'no pair of the layer is realised'."""

    def extra(e: ast.expr):
        j = jmap.get(id(e))
        if j is not None and j.src == src:
            if j.kind == "one":
                return j.formula
            scope = "" if (src == "O" or j.grp) else ":ALL-LAYERS"
            a_any, a_all = atom(f"ANY:{src}{scope}:{j.clean if src == 'O' else ''}"), atom(f"ALL:{src}{scope}")
            return {"any": a_any, "none": f_not(a_any), "all": a_all, "some-empty": f_not(a_all)}[j.kind]
        if isinstance(e, ast.Name) and isinstance(e.ctx, ast.Load) and e.id not in view.param_names and e.id not in _membership_stack and not sh.tags(e):
            # truth of a locally built collection ("was anything put there at all"): an existential over *all* keys
            allq = productions(view, e)
            prods = [q for q in allq if q.elt is not None]
            if prods and len(prods) == len(allq) and all(isinstance(q.node, ast.Call) for q in prods):
                _membership_stack.append(e.id)
                try:
                    alts = []
                    for q in prods:
                        f_q = conds_formula(q.conds, subst)
                        if sh._keyed_by_data(q.node if isinstance(q.node, ast.stmt) else _stmt(q.node)) != src:
                            return None
                        f_q = _lift(f_q, src, everywhere=True)
                        if f_q is None:
                            return None
                        alts.append(f_q)
                finally:
                    _membership_stack.pop()
                return f_or(alts)
            return None
        if isinstance(e, ast.Compare) and len(e.ops) == 1 and isinstance(e.ops[0], (ast.In, ast.NotIn)):
            # membership in a locally built collection: the condition under which its elements were put there
            coll = _strip(e.comparators[0])
            if isinstance(coll, ast.Name) and coll.id not in view.param_names and coll.id not in _membership_stack:
                prods = [q for q in productions(view, coll) if q.elt is not None]
                if prods and not any(q.elt is None for q in productions(view, coll)):
                    _membership_stack.append(coll.id)
                    try:
                        alts = []
                        for q in prods:
                            f_q = conds_formula(q.conds, subst)
                            if sh._keyed_by_data(q.node if isinstance(q.node, ast.stmt) else _stmt(q.node)) == src:
                                # filled once per key of the dependency dictionary: membership is an existential over the keys
                                f_q = _lift(f_q, src)
                                if f_q is None:
                                    return None
                            alts.append(f_q)
                    finally:
                        _membership_stack.pop()
                    f = f_or(alts)
                    return f if isinstance(e.ops[0], ast.In) else f_not(f)
        return None

    _membership_stack: list[str] = []
    subst = sh.guard_subst(extra)
    want = atom(f"ANY:{src}:{True if src == 'O' else ''}")
    if not keyp:
        return None, None, "no production of missing dependencies found"
    worst = (True, True, "")
    reachable = False
    for p in keyp:
        alts = _deep_conds(view, sh, p)
        for cs in alts:
            f = conds_formula(cs, subst)
            if not satisfiable(f):
                continue
            reachable = True
            if implies(f, f_not(want)):
                continue
            ats = atoms_of(f)
            ones = [a for a in ats if a.startswith(f"ONE:{src}")]
            alls = [a for a in ats if a.startswith(f"ALL:{src}")]
            glob = [a for a in ats if a.startswith(f"ANY:{src}:ALL-LAYERS")]
            dirty = [a for a in ats if a.startswith(f"ANY:{src}:") and a != want[1]]
            if want[1] in ats:
                return (False if src == "O" else True), False, f"`{norm(p.elt, 50)}` is reported missing although a realised pair of the layer may exist: the decision whether the layer has a realised pair does not suppress the report"
            if src == "O" and dirty and not glob and all(a.endswith(":None") for a in dirty):
                return None, None, "cannot establish that the decision which suppresses the report is made on same-layer-filtered pairs"
            if src == "O" and dirty and not glob:
                return False, False, f"missing 'other' dependencies are reported depending on `{dirty[0]}`: the decision is not made on same-layer-filtered pairs"
            if glob:
                worst = (True, False, "one realised pair anywhere satisfies every object layer: the requirement is not judged per object layer")
            elif ones:
                worst = (True, False, "the requirement is judged per module (pair) instead of per layer: a dependency is reported missing as soon as its own realisation list is empty")
            elif alls:
                worst = (True, False, "every pair of the layer must be realised: the requirement is judged per module pair instead of per layer")
            else:
                odd = [c for c, _pol in cs if not _is_gating(view, sh, c)]
                if p.merged is not None:
                    return None, None, f"`{norm(p.elt, 50)}` is returned wholesale: the conditions under which its elements were collected could not be followed"
                if odd:
                    return None, None, f"the condition `{norm(odd[-1], 60)}` under which `{norm(p.elt, 50)}` is reported missing was not understood"
                blind = _unfollowed_source(view, sh, p)
                if blind is not None:
                    return None, None, f"`{norm(p.elt, 50)}` is reported for the elements of `{norm(blind, 60)}`, whose construction (a helper that is not inlined, stored state) was not followed: whether a realised pair of the layer suppresses the report is not known"
                worst = (True, False, f"`{norm(p.elt, 50)}` is reported missing without testing whether the layer has any realised pair")
    if not reachable:
        return True, False, "the conditions under which a missing dependency is reported can never hold: the requirement can never be violated"
    return worst


def _all_shapes(sh: Shapes) -> list[Shapes]:
    out = [sh]
    for s in getattr(sh, "sub_shapes", []):
        out += _all_shapes(s)
    return out


def _stmt(n: ast.AST) -> ast.AST:
    from .common import stmt_of

    return stmt_of(n)


def _nnf(f, neg: bool = False):
    tag = f[0]
    if tag == "const":
        return ("const", f[1] != neg)
    if tag == "atom":
        return ("not", f) if neg else f
    if tag == "not":
        return _nnf(f[1], not neg)
    parts = [_nnf(g, neg) for g in f[1]]
    if (tag == "and") != neg:
        return ("and", parts)
    return ("or", parts)


def _lift(f, src: str, everywhere: bool = False):
    """Existential lifting over the keys: 'this key has a realisation' becomes 'some key of the layer has one';
    'this key has none' becomes 'not all keys of the layer have one'. None when the formula mixes the two under a conjunction.
    `everywhere`: the existential ranges over the keys of all layers (emptiness of a collection filled for every key)."""
    f = _nnf(f)
    scope = ":ALL-LAYERS" if everywhere else ""

    def go(g):
        if g[0] == "atom" and g[1].startswith(f"ONE:{src}"):
            return atom(f"ANY:{src}{scope}:{True if src == 'O' else ''}")
        if g[0] == "not" and g[1][0] == "atom" and g[1][1].startswith(f"ONE:{src}"):
            return f_not(atom(f"ALL:{src}{scope}"))
        if g[0] in ("and", "or"):
            return (g[0], [go(x) for x in g[1]])
        return g

    return go(f)


def _ranges_over_both_ends(view: FuncInfo, sh: Shapes, y: ast.Name) -> bool:
    from .c05_views import stores_of
    from core.loader import parent as _parent

    for st in stores_of(view, y.id):
        p = _parent(st)
        it = p.iter if isinstance(p, (ast.For, ast.AsyncFor, ast.comprehension)) and p.target is st else None
        if it is None or not any(t[0] == "K" for t in sh.tags(it)):
            return False
    return bool(stores_of(view, y.id))


def _is_gating(view: FuncInfo, sh: Shapes, c: ast.expr) -> bool:
    """The condition cannot hide a decision about realised pairs: it only reads parameters that carry no dependency data,
    fields of the detector, or asks whether a dictionary of dependencies has *keys* (`if not group: continue`)."""
    skip: set[int] = set()
    for x in ast.walk(c):
        if id(x) in skip:
            continue
        if isinstance(x, ast.Compare) and any(isinstance(o, (ast.In, ast.NotIn)) for o in x.ops):
            # `layer in <the mapping's own layers>` only reads the detector's configuration; membership in a collection
            # built here may hide a decision on realised pairs
            if len(x.ops) != 1:
                return False
            coll = _strip(single_value(view, x.comparators[0]))
            root = coll
            while isinstance(root, ast.Attribute):
                root = root.value
            if not (isinstance(coll, ast.Attribute) and isinstance(root, ast.Name) and root.id in ("self", "cls")):
                return False
            for y in ast.walk(x.comparators[0]):
                skip.add(id(y))
            continue
        if isinstance(x, ast.Call):
            f = x.func
            if isinstance(f, ast.Name) and f.id in ("isinstance", "len", "bool"):
                continue
            return False
        if isinstance(x, ast.Name) and isinstance(x.ctx, ast.Load):
            if x.id in ("self", "cls", "isinstance", "len", "bool", "None", "True", "False"):
                continue
            ts = sh.tags(x)
            if any(t[0] in ("L", "LL", "P", "E", "IT", "I") for t in ts):
                return False
            if x.id in view.param_names:
                continue
            if ts and all(t[0] in ("D", "G", "K", "KS", "KE", "KN", "DS", "GI", "GK", "KCNT", "KCNTV", "KSS") for t in ts):
                continue
            v = single_value(view, x)
            if v is not x and isinstance(v, ast.Attribute) and isinstance(v.value, (ast.Name, ast.Attribute)):
                continue
            if not ts and _is_loop_variable(view, x.id):
                continue  # e.g. the layer key of `for layer, group in grouped.items()`
            return False
    return True


def _is_loop_variable(view: FuncInfo, name: str) -> bool:
    from core.loader import parent as _parent

    from .c05_views import stores_of

    sts = stores_of(view, name)
    if not sts:
        return False
    for st in sts:
        p = _parent(st)
        while isinstance(p, (ast.Tuple, ast.List)):
            p = _parent(p)
        if not isinstance(p, (ast.For, ast.AsyncFor, ast.comprehension)):
            return False
    return True


def _orientation(repo: Repo, view: FuncInfo, sh: Shapes):
    """Layer lookups whose argument is one end of an *abstract* (subject, object) pair must take the object side:
    index 1 when the importer is the rule subject, index 0 otherwise."""
    subst = sh.guard_subst(_orientation_subst(sh))
    done: set[int] = set()
    for n in all_nodes(view):
        if not isinstance(n, (ast.Call, ast.Subscript)) or id(n) in done:
            continue
        if isinstance(n, ast.Call) and not (isinstance(n.func, ast.Attribute) and n.func.attr == LOOKUP and (n.args or n.keywords)) and not isinstance(n.func, ast.Name):
            continue
        arg = sh._is_lookup(n)
        if arg is None:
            continue
        for y in ast.walk(n):
            done.add(id(y))
        at = sh.tags(arg)
        if not any(t[0] in ("KN", "KE") and t[1] == "E" for t in at):
            continue
        as_module = any(t[0] == "KE" for t in at) and not any(t[0] == "KN" for t in at)
        construct = key_of(repo, view, n, " [object-side module]")
        wh = where_of(view, n)
        cases = []
        ok_res = True
        every_end = False
        for cs1, x in value_cases(view, arg):
            if not as_module:
                x = x.value if isinstance(x, ast.Attribute) and x.attr in ("identifier", "name") else None
            if x is None:
                ok_res = False
                break
            for cs2, y in value_cases(view, x):
                if isinstance(y, ast.Subscript):
                    for cs3, idx in value_cases(view, y.slice):
                        if isinstance(idx, ast.Constant) and idx.value in (0, 1, -1, -2):
                            cases.append((cs1 + cs2 + cs3, idx.value % 2))
                        else:
                            ok_res = False
                else:
                    e = sh._end(y)
                    if e is not None:
                        cases.append((cs1 + cs2, e[1]))
                    elif isinstance(y, ast.Name) and _ranges_over_both_ends(view, sh, y):
                        every_end = True  # a table of the layers of *all* modules involved: no side is chosen here
                    else:
                        ok_res = False
        if every_end and not cases:
            continue
        if not ok_res or not cases:
            yield None, construct, f"cannot determine which end of the abstract dependency `{norm(arg, 50)}` denotes", wh
            continue
        base = conds(view, n)
        bad = None
        for cs, idx in cases:
            f = conds_formula(base + cs, subst)
            if not satisfiable(f):
                continue
            goal = atom("IMPORTER_IS_SUBJECT") if idx == 1 else f_not(atom("IMPORTER_IS_SUBJECT"))
            if not implies(f, goal):
                bad = idx
        if bad is None:
            yield True, construct, "pairs are grouped by the layer of the object-side module (importee for access, importer for be-accessed-by)", wh
        else:
            yield False, construct, f"explicit pairs are not grouped by the layer of the object-side module: end {bad} is used " + ("although the importer may be the rule object" if bad == 1 else "although the importer may be the rule subject"), wh
