"""Functional idioms rewritten as comprehensions, on an inline view (before any rule looks at it).

The C05 rules read *events* ("this element is produced for every x of xs under condition c") off loops and comprehensions.  The
same events written with `map` / `filter` / `itertools` / `operator` say the same thing:

    map(f, xs)                          ->  (f(x) for x in xs)
    map(f, repeat(c), xs)               ->  (f(c, x) for x in xs)
    map(f, xs, ys)                      ->  (f(x, y) for (x, y) in zip(xs, ys))
    filter(p, xs) / filter(None, xs)    ->  (x for x in xs if p(x)) / (x for x in xs if x)
    filterfalse(p, xs)                  ->  (x for x in xs if not p(x))
    chain.from_iterable(e for ..)       ->  (y for .. for y in e)          chain.from_iterable(X) -> (y for g in X for y in g)
    chain(a, b)                         ->  [*a, *b]                        chain(*X)              -> like from_iterable(X)
    starmap(f, ((a, b) for ..))         ->  (f(a, b) for ..)

and applications are beta-reduced:

    (lambda m: E)(x) -> E[m := x]       attrgetter("a")(x) -> x.a           attrgetter("a", "b")(x) -> (x.a, x.b)
    itemgetter(i)(x) -> x[i]            methodcaller("m", a)(x) -> x.m(a)   partial(f, a)(b) -> f(a, b)
    getitem(a, b) -> a[b]               not_(x) -> not x                    contains(a, b) -> b in a
    getattr(x, "name") -> x.name        str.lower(x) -> x.lower()
    NAME(x) where NAME is a module-level constant bound to one of the above (`_identifier_of = attrgetter("identifier")`)

Only syntax is rewritten (nothing is executed); a name is taken for the library function only when the module imports it under
that name and the view never rebinds it.  Every rewrite preserves which elements are produced and under which conditions.
"""

from __future__ import annotations

import ast

from core.loader import FuncInfo, Repo, set_parents

OPERATOR_BINOPS = {"add": ast.Add, "sub": ast.Sub, "or_": ast.BitOr, "and_": ast.BitAnd, "concat": ast.Add}
OPERATOR_CMPS = {"eq": ast.Eq, "ne": ast.NotEq, "lt": ast.Lt, "le": ast.LtE, "gt": ast.Gt, "ge": ast.GtE, "is_": ast.Is, "is_not": ast.IsNot}


def _clone(e):
    if isinstance(e, list):
        return [_clone(x) for x in e]
    if not isinstance(e, ast.AST):
        return e
    new = type(e)()
    for f in e._fields:
        if hasattr(e, f):
            setattr(new, f, _clone(getattr(e, f)))
    for a in ("lineno", "col_offset", "end_lineno", "end_col_offset"):
        if hasattr(e, a):
            setattr(new, a, getattr(e, a))
    for a in ("_src", "_hoisted", "_func", "_modctx"):
        if hasattr(e, a):
            setattr(new, a, getattr(e, a))
    return new


class _Subst(ast.NodeTransformer):
    def __init__(self, env: dict[str, ast.expr]) -> None:
        self.env = env

    def visit_Name(self, n: ast.Name):  # noqa: N802
        if isinstance(n.ctx, ast.Load) and n.id in self.env:
            return _clone(self.env[n.id])
        return n

    def visit_Lambda(self, n: ast.Lambda):  # noqa: N802
        bound = {a.arg for a in [*n.args.posonlyargs, *n.args.args, *n.args.kwonlyargs]}
        inner = {k: v for k, v in self.env.items() if k not in bound}
        if inner:
            n.body = _Subst(inner).visit(n.body)
        return n


class Functional(ast.NodeTransformer):
    def __init__(self, repo: Repo, view: FuncInfo) -> None:
        self.repo, self.view = repo, view
        self.rebound = {n.id for n in ast.walk(view.node) if isinstance(n, ast.Name) and isinstance(n.ctx, ast.Store)} | {a.arg for a in ast.walk(view.node) if isinstance(a, ast.arg)}
        self.taken = {n.id for n in ast.walk(view.node) if isinstance(n, ast.Name)} | self.rebound
        self.changed = False

    # ------------------------------------------------------------------ helpers
    def _module(self, e: ast.AST):
        m = getattr(e, "_modctx", None)
        if m is not None:
            return m
        src = getattr(e, "_src", None)
        return src[0].module if src is not None else self.view.module

    def fq(self, e: ast.expr) -> str | None:
        """Library function an expression names: 'map', 'itertools.chain.from_iterable', 'operator.attrgetter' ..."""
        root = e
        while isinstance(root, ast.Attribute):
            root = root.value
        if not isinstance(root, ast.Name) or root.id in self.rebound:
            return None
        mod = self._module(e)
        if isinstance(e, ast.Name) and e.id in ("map", "filter", "zip", "getattr", "str") and e.id not in mod.imports and e.id not in mod.functions and e.id not in mod.classes:
            return e.id
        if isinstance(e, ast.Attribute) and isinstance(e.value, ast.Name) and e.value.id == "str" and "str" not in mod.imports:
            return f"str.{e.attr}"
        try:
            return self.repo.resolve_name(mod, e)
        except Exception:  # noqa: BLE001
            return None

    def constant(self, e: ast.expr) -> ast.expr | None:
        """The expression a module-level constant is bound to (`_identifier_of = attrgetter("identifier")`)."""
        if isinstance(e, ast.Name) and e.id not in self.rebound:
            mod = self._module(e)
            c = mod.constants.get(e.id)
            if c is not None:
                c = _clone(c)
                for x in ast.walk(c):
                    x._modctx = mod  # type: ignore[attr-defined]
                return c
            fq = None
            try:
                fq = self.repo.resolve_name(mod, e)
            except Exception:  # noqa: BLE001
                pass
            if fq:
                modname, _, attr = fq.rpartition(".")
                m = self.repo.modules.get(modname)
                if m is not None and attr in m.constants:
                    c = _clone(m.constants[attr])
                    for x in ast.walk(c):
                        x._modctx = m  # type: ignore[attr-defined]
                    return c
        return None

    def fresh(self, base: str) -> str:
        name, i = base, 2
        while name in self.taken:
            name = f"{base}{i}"
            i += 1
        self.taken.add(name)
        return name

    @staticmethod
    def at(new: ast.AST, old: ast.AST) -> ast.AST:
        for x in ast.walk(new):
            if not hasattr(x, "lineno"):
                ast.copy_location(x, old)
            if not hasattr(x, "_src") and hasattr(old, "_src") and not isinstance(x, (ast.expr_context, ast.comprehension)):
                pass
        return new

    # ------------------------------------------------------------------ application
    def apply(self, f: ast.expr, args: list[ast.expr], keywords: list[ast.keyword], at: ast.AST, depth: int = 0) -> ast.expr | None:
        """f(*args) beta-reduced; None when `f` is not one of the recognised forms."""
        if depth > 4 or any(isinstance(a, ast.Starred) for a in args) or any(k.arg is None for k in keywords):
            return None
        if isinstance(f, ast.Lambda):
            a = f.args
            params = [p.arg for p in [*a.posonlyargs, *a.args]]
            if a.vararg or a.kwarg or a.kwonlyargs or len(args) > len(params) or keywords:
                return None
            env = dict(zip(params, args))
            for p, d in zip(params[len(params) - len(a.defaults):], a.defaults):
                env.setdefault(p, d)
            if set(params) - set(env):
                return None
            return self.visit(_Subst(env).visit(_clone(f.body)))
        if isinstance(f, ast.Name):
            c = self.constant(f)
            if isinstance(c, (ast.Call, ast.Lambda)):
                return self.apply(c, args, keywords, at, depth + 1)
        if isinstance(f, (ast.Name, ast.Attribute)):
            fq = self.fq(f)
            if fq is None:
                return None
            if fq == "operator.getitem" and len(args) == 2 and not keywords:
                return self.at(ast.Subscript(value=args[0], slice=args[1], ctx=ast.Load()), at)
            if fq in ("operator.not_",) and len(args) == 1:
                return self.at(ast.UnaryOp(op=ast.Not(), operand=args[0]), at)
            if fq == "operator.truth" and len(args) == 1:
                return args[0]
            if fq == "operator.contains" and len(args) == 2:
                return self.at(ast.Compare(left=args[1], ops=[ast.In()], comparators=[args[0]]), at)
            if fq.startswith("operator.") and fq[9:] in OPERATOR_BINOPS and len(args) == 2:
                return self.at(ast.BinOp(left=args[0], op=OPERATOR_BINOPS[fq[9:]](), right=args[1]), at)
            if fq.startswith("operator.") and fq[9:] in OPERATOR_CMPS and len(args) == 2:
                return self.at(ast.Compare(left=args[0], ops=[OPERATOR_CMPS[fq[9:]]()], comparators=[args[1]]), at)
            if fq == "getattr" and len(args) == 2 and isinstance(args[1], ast.Constant) and isinstance(args[1].value, str) and args[1].value.isidentifier():
                return self.at(ast.Attribute(value=args[0], attr=args[1].value, ctx=ast.Load()), at)
            if fq.startswith("str.") and args and not keywords:
                return self.at(ast.Call(func=ast.Attribute(value=args[0], attr=fq[4:], ctx=ast.Load()), args=args[1:], keywords=[]), at)
            return None
        if isinstance(f, ast.Call):
            ffq = self.fq(f.func) if isinstance(f.func, (ast.Name, ast.Attribute)) else None
            if ffq == "operator.attrgetter" and len(args) == 1 and not keywords and f.args and all(isinstance(a, ast.Constant) and isinstance(a.value, str) for a in f.args) and not f.keywords:
                outs = []
                for a in f.args:
                    x: ast.expr = _clone(args[0]) if len(f.args) > 1 else args[0]
                    for part in a.value.split("."):
                        if not part.isidentifier():
                            return None
                        x = ast.Attribute(value=x, attr=part, ctx=ast.Load())
                    outs.append(x)
                return self.at(outs[0] if len(outs) == 1 else ast.Tuple(elts=outs, ctx=ast.Load()), at)
            if ffq == "operator.itemgetter" and len(args) == 1 and not keywords and f.args and not f.keywords:
                outs = [ast.Subscript(value=_clone(args[0]) if len(f.args) > 1 else args[0], slice=_clone(a), ctx=ast.Load()) for a in f.args]
                return self.at(outs[0] if len(outs) == 1 else ast.Tuple(elts=outs, ctx=ast.Load()), at)
            if ffq == "operator.methodcaller" and len(args) == 1 and not keywords and f.args and isinstance(f.args[0], ast.Constant) and isinstance(f.args[0].value, str):
                return self.at(ast.Call(func=ast.Attribute(value=args[0], attr=f.args[0].value, ctx=ast.Load()), args=[_clone(a) for a in f.args[1:]], keywords=[_clone(k) for k in f.keywords]), at)
            if ffq == "functools.partial" and f.args and not any(isinstance(a, ast.Starred) for a in f.args):
                g = f.args[0]
                all_args = [*[_clone(a) for a in f.args[1:]], *args]
                all_kw = [*[_clone(k) for k in f.keywords], *keywords]
                got = self.apply(g, all_args, all_kw, at, depth + 1)
                if got is not None:
                    return got
                return self.at(ast.Call(func=_clone(g), args=all_args, keywords=all_kw), at)
        return None

    def call_of(self, f: ast.expr, args: list[ast.expr], at: ast.AST) -> ast.expr:
        got = self.apply(f, args, [], at)
        if got is not None:
            return got
        c = ast.Call(func=_clone(f), args=args, keywords=[])
        if hasattr(at, "_src"):
            pass
        return self.at(c, at)

    # ------------------------------------------------------------------ rewriting
    def visit_Lambda(self, n: ast.Lambda):  # noqa: N802
        return n  # bodies of lambdas that stay lambdas are left alone

    def comp(self, target: ast.expr, it: ast.expr, ifs: list[ast.expr] | None = None) -> ast.comprehension:
        return ast.comprehension(target=target, iter=it, ifs=ifs or [], is_async=0)

    def visit_Call(self, node: ast.Call):  # noqa: N802
        node = self.generic_visit(node)
        f = node.func
        fq = self.fq(f) if isinstance(f, (ast.Name, ast.Attribute)) else None
        new: ast.expr | None = None
        plain = not node.keywords and not any(isinstance(a, ast.Starred) for a in node.args)
        if fq == "map" and plain and len(node.args) >= 2:
            fn, its = node.args[0], node.args[1:]
            consts: dict[int, ast.expr] = {}
            for i, it in enumerate(its):
                if isinstance(it, ast.Call) and isinstance(it.func, (ast.Name, ast.Attribute)) and self.fq(it.func) == "itertools.repeat" and len(it.args) == 1 and not it.keywords:
                    consts[i] = it.args[0]
            iters = [(i, it) for i, it in enumerate(its) if i not in consts]
            if iters:
                names = {i: self.fresh("item") for i, _ in iters}
                args = [(_clone(consts[i]) if i in consts else ast.Name(id=names[i], ctx=ast.Load())) for i in range(len(its))]
                elt = self.call_of(fn, args, node)
                if len(iters) == 1:
                    i, it = iters[0]
                    gen = self.comp(ast.Name(id=names[i], ctx=ast.Store()), it)
                else:
                    tgt = ast.Tuple(elts=[ast.Name(id=names[i], ctx=ast.Store()) for i, _ in iters], ctx=ast.Store())
                    gen = self.comp(tgt, ast.Call(func=ast.Name(id="zip", ctx=ast.Load()), args=[it for _, it in iters], keywords=[]))
                new = ast.GeneratorExp(elt=elt, generators=[gen])
        elif fq in ("filter", "itertools.filterfalse") and plain and len(node.args) == 2:
            name = self.fresh("item")
            pred = node.args[0]
            if isinstance(pred, ast.Constant) and pred.value is None:
                test: ast.expr = ast.Name(id=name, ctx=ast.Load())
            else:
                test = self.call_of(pred, [ast.Name(id=name, ctx=ast.Load())], node)
            if fq != "filter":
                test = ast.UnaryOp(op=ast.Not(), operand=test)
            new = ast.GeneratorExp(elt=ast.Name(id=name, ctx=ast.Load()), generators=[self.comp(ast.Name(id=name, ctx=ast.Store()), node.args[1], [test])])
        elif (fq == "itertools.chain.from_iterable" and plain and len(node.args) == 1) or (fq == "itertools.chain" and not node.keywords and len(node.args) == 1 and isinstance(node.args[0], ast.Starred)):
            x = node.args[0].value if isinstance(node.args[0], ast.Starred) else node.args[0]
            y = self.fresh("element")
            if isinstance(x, (ast.GeneratorExp, ast.ListComp)):
                new = ast.GeneratorExp(elt=ast.Name(id=y, ctx=ast.Load()), generators=[*x.generators, self.comp(ast.Name(id=y, ctx=ast.Store()), x.elt)])
            else:
                g = self.fresh("group")
                new = ast.GeneratorExp(elt=ast.Name(id=y, ctx=ast.Load()), generators=[self.comp(ast.Name(id=g, ctx=ast.Store()), x), self.comp(ast.Name(id=y, ctx=ast.Store()), ast.Name(id=g, ctx=ast.Load()))])
        elif fq == "itertools.chain" and plain and node.args:
            new = ast.List(elts=[ast.Starred(value=a, ctx=ast.Load()) for a in node.args], ctx=ast.Load())
        elif fq == "itertools.starmap" and plain and len(node.args) == 2 and isinstance(node.args[1], (ast.GeneratorExp, ast.ListComp)) and isinstance(node.args[1].elt, ast.Tuple) and not any(isinstance(e, ast.Starred) for e in node.args[1].elt.elts):
            src = node.args[1]
            new = ast.GeneratorExp(elt=self.call_of(node.args[0], list(src.elt.elts), node), generators=src.generators)
        else:
            got = self.apply(f, list(node.args), list(node.keywords), node)
            if got is not None:
                new = got
        if new is None:
            return node
        self.changed = True
        ast.copy_location(new, node)
        for x in ast.walk(new):
            if not hasattr(x, "lineno") and isinstance(x, (ast.expr, ast.stmt)):
                ast.copy_location(x, node)
        if hasattr(node, "_src") and not hasattr(new, "_src"):
            new._rewritten_from = node._src  # type: ignore[attr-defined]
        return new


def normalise_view(repo: Repo, view: FuncInfo) -> bool:
    """Rewrites the functional idioms of the view in place; True when something changed."""
    if isinstance(view.node, ast.Lambda):
        return False
    tr = Functional(repo, view)
    view.node.body = [tr.visit(s) for s in view.node.body]
    if tr.changed:
        ast.fix_missing_locations(view.node)
        set_parents(view.node)
    return tr.changed
