"""Functional idioms rewritten as comprehensions, on an inline view (before any rule looks at it).

The C05 rules read *events* ("this element is produced for every x of xs under condition c") off loops and comprehensions.  The
same events written with `map` / `filter` / `itertools` / `operator` say the same thing:

    map(f, xs)                          ->  (f(x) for x in xs)
    map(f, repeat(c), xs)               ->  (f(c, x) for x in xs)
    map(f, xs, ys)                      ->  (f(x, y) for (x, y) in zip(xs, ys))
    filter(p, xs) / filter(None, xs)    ->  (x for x in xs if p(x)) / (x for x in xs if x)
    filterfalse(p, xs)                  ->  (x for x in xs if not p(x))
    chain.from_iterable(e for ..)       ->  (y for .. for y in e)          chain.from_iterable(X) -> (y for g in X for y in g)
    chain(a, b)                         ->  [*a, *b]                        chain(*X)              -> like from_iterable(X)
    starmap(f, ((a, b) for ..))         ->  (f(a, b) for ..)

and applications are beta-reduced:

    (lambda m: E)(x) -> E[m := x]       attrgetter("a")(x) -> x.a           attrgetter("a", "b")(x) -> (x.a, x.b)
    itemgetter(i)(x) -> x[i]            methodcaller("m", a)(x) -> x.m(a)   partial(f, a)(b) -> f(a, b)
    getitem(a, b) -> a[b]               not_(x) -> not x                    contains(a, b) -> b in a
    getattr(x, "name") -> x.name        str.lower(x) -> x.lower()
    NAME(x) where NAME is a module-level constant bound to one of the above (`_identifier_of = attrgetter("identifier")`)

Only syntax is rewritten (nothing is executed); a name is taken for the library function only when the module imports it under
that name and the view never rebinds it.  Every rewrite preserves which elements are produced and under which conditions.
"""

from __future__ import annotations

import ast

from core.loader import FuncInfo, Repo, set_parents

OPERATOR_BINOPS = {"add": ast.Add, "sub": ast.Sub, "or_": ast.BitOr, "and_": ast.BitAnd, "concat": ast.Add}
OPERATOR_CMPS = {"eq": ast.Eq, "ne": ast.NotEq, "lt": ast.Lt, "le": ast.LtE, "gt": ast.Gt, "ge": ast.GtE, "is_": ast.Is, "is_not": ast.IsNot}


def _clone(e):
    if isinstance(e, list):
        return [_clone(x) for x in e]
    if not isinstance(e, ast.AST):
        return e
    new = type(e)()
    for f in e._fields:
        if hasattr(e, f):
            setattr(new, f, _clone(getattr(e, f)))
    for a in ("lineno", "col_offset", "end_lineno", "end_col_offset"):
        if hasattr(e, a):
            setattr(new, a, getattr(e, a))
    for a in ("_src", "_hoisted", "_func", "_modctx"):
        if hasattr(e, a):
            setattr(new, a, getattr(e, a))
    return new


class _Subst(ast.NodeTransformer):
    def __init__(self, env: dict[str, ast.expr]) -> None:
        self.env = env

    def visit_Name(self, n: ast.Name):  # noqa: N802
        if isinstance(n.ctx, ast.Load) and n.id in self.env:
            return _clone(self.env[n.id])
        return n

    def visit_Lambda(self, n: ast.Lambda):  # noqa: N802
        bound = {a.arg for a in [*n.args.posonlyargs, *n.args.args, *n.args.kwonlyargs]}
        inner = {k: v for k, v in self.env.items() if k not in bound}
        if inner:
            n.body = _Subst(inner).visit(n.body)
        return n


class Functional(ast.NodeTransformer):
    def __init__(self, repo: Repo, view: FuncInfo) -> None:
        self.repo, self.view = repo, view
        self.rebound = {n.id for n in ast.walk(view.node) if isinstance(n, ast.Name) and isinstance(n.ctx, ast.Store)} | {a.arg for a in ast.walk(view.node) if isinstance(a, ast.arg)}
        self.taken = {n.id for n in ast.walk(view.node) if isinstance(n, ast.Name)} | self.rebound
        self.changed = False

    # ------------------------------------------------------------------ helpers
    def _module(self, e: ast.AST):
        m = getattr(e, "_modctx", None)
        if m is not None:
            return m
        src = getattr(e, "_src", None)
        return src[0].module if src is not None else self.view.module

    def fq(self, e: ast.expr) -> str | None:
        """Library function an expression names: 'map', 'itertools.chain.from_iterable', 'operator.attrgetter' ..."""
        root = e
        while isinstance(root, ast.Attribute):
            root = root.value
        if not isinstance(root, ast.Name) or root.id in self.rebound:
            return None
        mod = self._module(e)
        if isinstance(e, ast.Name) and e.id in ("map", "filter", "zip", "getattr", "str") and e.id not in mod.imports and e.id not in mod.functions and e.id not in mod.classes:
            return e.id
        if isinstance(e, ast.Attribute) and isinstance(e.value, ast.Name) and e.value.id == "str" and "str" not in mod.imports:
            return f"str.{e.attr}"
        try:
            return self.repo.resolve_name(mod, e)
        except Exception:  # noqa: BLE001
            return None

    def constant(self, e: ast.expr) -> ast.expr | None:
        """The expression a module-level constant is bound to (`_identifier_of = attrgetter("identifier")`)."""
        if isinstance(e, ast.Name) and e.id not in self.rebound:
            mod = self._module(e)
            c = mod.constants.get(e.id)
            if c is not None:
                c = _clone(c)
                for x in ast.walk(c):
                    x._modctx = mod  # type: ignore[attr-defined]
                return c
            fq = None
            try:
                fq = self.repo.resolve_name(mod, e)
            except Exception:  # noqa: BLE001
                pass
            if fq:
                modname, _, attr = fq.rpartition(".")
                m = self.repo.modules.get(modname)
                if m is not None and attr in m.constants:
                    c = _clone(m.constants[attr])
                    for x in ast.walk(c):
                        x._modctx = m  # type: ignore[attr-defined]
                    return c
        return None

    def local_callable(self, name: str) -> ast.expr | None:
        """The callable a local is bound to exactly once in the view (a callback parameter of an inlined helper:
        `rule_step = methodcaller("_add_modules", modules)` ... `rule_step(rule)`): a lambda or one of the operator /
        functools factories."""
        stores = [n for n in ast.walk(self.view.node) if isinstance(n, ast.Name) and n.id == name and isinstance(n.ctx, ast.Store)]
        if len(stores) != 1 or any(a.arg == name for a in ast.walk(self.view.node) if isinstance(a, ast.arg)):
            return None
        for n in ast.walk(self.view.node):
            if isinstance(n, (ast.Assign, ast.AnnAssign)) and n.value is not None:
                tgs = n.targets if isinstance(n, ast.Assign) else [n.target]
                if any(t is stores[0] for t in tgs) and len(tgs) == 1:
                    v = n.value
                    if isinstance(v, ast.Lambda):
                        return v
                    if isinstance(v, ast.Call) and isinstance(v.func, (ast.Name, ast.Attribute)) and self.fq(v.func) in ("operator.methodcaller", "operator.attrgetter", "operator.itemgetter", "functools.partial"):
                        return v
        return None

    def fresh(self, base: str) -> str:
        name, i = base, 2
        while name in self.taken:
            name = f"{base}{i}"
            i += 1
        self.taken.add(name)
        return name

    @staticmethod
    def at(new: ast.AST, old: ast.AST) -> ast.AST:
        for x in ast.walk(new):
            if not hasattr(x, "lineno"):
                ast.copy_location(x, old)
            if not hasattr(x, "_src") and hasattr(old, "_src") and not isinstance(x, (ast.expr_context, ast.comprehension)):
                pass
        return new

    # ------------------------------------------------------------------ application
    def apply(self, f: ast.expr, args: list[ast.expr], keywords: list[ast.keyword], at: ast.AST, depth: int = 0) -> ast.expr | None:
        """f(*args) beta-reduced; None when `f` is not one of the recognised forms."""
        if depth > 4 or any(isinstance(a, ast.Starred) for a in args) or any(k.arg is None for k in keywords):
            return None
        if isinstance(f, ast.Lambda):
            a = f.args
            params = [p.arg for p in [*a.posonlyargs, *a.args]]
            if a.vararg or a.kwarg or a.kwonlyargs or len(args) > len(params) or keywords:
                return None
            env = dict(zip(params, args))
            for p, d in zip(params[len(params) - len(a.defaults):], a.defaults):
                env.setdefault(p, d)
            if set(params) - set(env):
                return None
            return self.visit(_Subst(env).visit(_clone(f.body)))
        if isinstance(f, ast.Name):
            c = self.constant(f)
            if isinstance(c, (ast.Call, ast.Lambda)):
                return self.apply(c, args, keywords, at, depth + 1)
            c = self.local_callable(f.id)
            if c is not None:
                got = self.apply(_clone(c), args, keywords, at, depth + 1)
                if got is not None and isinstance(c, ast.Lambda):
                    c._applied = True  # type: ignore[attr-defined]  # its body now stands where it was applied
                return got
        if isinstance(f, (ast.Name, ast.Attribute)):
            fq = self.fq(f)
            if fq is None:
                return None
            if isinstance(f, ast.Attribute) and args:
                # `Class.method(obj, a)` with a class of the repo: the unbound spelling of `obj.method(a)`
                ci = self.repo.classes.get(fq.rpartition(".")[0])
                if ci is not None:
                    m = self.repo.lookup_method(ci, f.attr)
                    if m is not None and not m.is_staticmethod and not m.is_classmethod and not m.is_property:
                        return self.at(ast.Call(func=ast.Attribute(value=args[0], attr=f.attr, ctx=ast.Load()), args=args[1:], keywords=keywords), at)
            if fq == "operator.getitem" and len(args) == 2 and not keywords:
                return self.at(ast.Subscript(value=args[0], slice=args[1], ctx=ast.Load()), at)
            if fq in ("operator.not_",) and len(args) == 1:
                return self.at(ast.UnaryOp(op=ast.Not(), operand=args[0]), at)
            if fq == "operator.truth" and len(args) == 1:
                return args[0]
            if fq == "operator.contains" and len(args) == 2:
                return self.at(ast.Compare(left=args[1], ops=[ast.In()], comparators=[args[0]]), at)
            if fq.startswith("operator.") and fq[9:] in OPERATOR_BINOPS and len(args) == 2:
                return self.at(ast.BinOp(left=args[0], op=OPERATOR_BINOPS[fq[9:]](), right=args[1]), at)
            if fq.startswith("operator.") and fq[9:] in OPERATOR_CMPS and len(args) == 2:
                return self.at(ast.Compare(left=args[0], ops=[OPERATOR_CMPS[fq[9:]]()], comparators=[args[1]]), at)
            if fq == "getattr" and len(args) == 2 and isinstance(args[1], ast.Constant) and isinstance(args[1].value, str) and args[1].value.isidentifier():
                return self.at(ast.Attribute(value=args[0], attr=args[1].value, ctx=ast.Load()), at)
            if fq.startswith("str.") and args and not keywords:
                return self.at(ast.Call(func=ast.Attribute(value=args[0], attr=fq[4:], ctx=ast.Load()), args=args[1:], keywords=[]), at)
            return None
        if isinstance(f, ast.Call):
            ffq = self.fq(f.func) if isinstance(f.func, (ast.Name, ast.Attribute)) else None
            if ffq == "operator.attrgetter" and len(args) == 1 and not keywords and f.args and all(isinstance(a, ast.Constant) and isinstance(a.value, str) for a in f.args) and not f.keywords:
                outs = []
                for a in f.args:
                    x: ast.expr = _clone(args[0]) if len(f.args) > 1 else args[0]
                    for part in a.value.split("."):
                        if not part.isidentifier():
                            return None
                        x = ast.Attribute(value=x, attr=part, ctx=ast.Load())
                    outs.append(x)
                return self.at(outs[0] if len(outs) == 1 else ast.Tuple(elts=outs, ctx=ast.Load()), at)
            if ffq == "operator.itemgetter" and len(args) == 1 and not keywords and f.args and not f.keywords:
                outs = [ast.Subscript(value=_clone(args[0]) if len(f.args) > 1 else args[0], slice=_clone(a), ctx=ast.Load()) for a in f.args]
                return self.at(outs[0] if len(outs) == 1 else ast.Tuple(elts=outs, ctx=ast.Load()), at)
            if ffq == "operator.methodcaller" and len(args) == 1 and not keywords and f.args and isinstance(f.args[0], ast.Constant) and isinstance(f.args[0].value, str):
                return self.at(ast.Call(func=ast.Attribute(value=args[0], attr=f.args[0].value, ctx=ast.Load()), args=[_clone(a) for a in f.args[1:]], keywords=[_clone(k) for k in f.keywords]), at)
            if ffq == "functools.partial" and f.args and not any(isinstance(a, ast.Starred) for a in f.args):
                g = f.args[0]
                all_args = [*[_clone(a) for a in f.args[1:]], *args]
                all_kw = [*[_clone(k) for k in f.keywords], *keywords]
                got = self.apply(g, all_args, all_kw, at, depth + 1)
                if got is not None:
                    return got
                return self.at(ast.Call(func=_clone(g), args=all_args, keywords=all_kw), at)
        return None

    def call_of(self, f: ast.expr, args: list[ast.expr], at: ast.AST) -> ast.expr:
        got = self.apply(f, args, [], at)
        if got is not None:
            return got
        c = ast.Call(func=_clone(f), args=args, keywords=[])
        if hasattr(at, "_src"):
            pass
        return self.at(c, at)

    # ------------------------------------------------------------------ rewriting
    def visit_Lambda(self, n: ast.Lambda):  # noqa: N802
        return n  # bodies of lambdas that stay lambdas are left alone

    def comp(self, target: ast.expr, it: ast.expr, ifs: list[ast.expr] | None = None) -> ast.comprehension:
        return ast.comprehension(target=target, iter=it, ifs=ifs or [], is_async=0)

    def visit_Call(self, node: ast.Call):  # noqa: N802
        node = self.generic_visit(node)
        f = node.func
        fq = self.fq(f) if isinstance(f, (ast.Name, ast.Attribute)) else None
        new: ast.expr | None = None
        plain = not node.keywords and not any(isinstance(a, ast.Starred) for a in node.args)
        if fq == "map" and plain and len(node.args) >= 2:
            fn, its = node.args[0], node.args[1:]
            consts: dict[int, ast.expr] = {}
            for i, it in enumerate(its):
                if isinstance(it, ast.Call) and isinstance(it.func, (ast.Name, ast.Attribute)) and self.fq(it.func) == "itertools.repeat" and len(it.args) == 1 and not it.keywords:
                    consts[i] = it.args[0]
            iters = [(i, it) for i, it in enumerate(its) if i not in consts]
            if iters:
                names = {i: self.fresh("item") for i, _ in iters}
                args = [(_clone(consts[i]) if i in consts else ast.Name(id=names[i], ctx=ast.Load())) for i in range(len(its))]
                elt = self.call_of(fn, args, node)
                if len(iters) == 1:
                    i, it = iters[0]
                    gen = self.comp(ast.Name(id=names[i], ctx=ast.Store()), it)
                else:
                    tgt = ast.Tuple(elts=[ast.Name(id=names[i], ctx=ast.Store()) for i, _ in iters], ctx=ast.Store())
                    gen = self.comp(tgt, ast.Call(func=ast.Name(id="zip", ctx=ast.Load()), args=[it for _, it in iters], keywords=[]))
                new = ast.GeneratorExp(elt=elt, generators=[gen])
        elif fq in ("filter", "itertools.filterfalse") and plain and len(node.args) == 2:
            name = self.fresh("item")
            pred = node.args[0]
            if isinstance(pred, ast.Constant) and pred.value is None:
                test: ast.expr = ast.Name(id=name, ctx=ast.Load())
            else:
                test = self.call_of(pred, [ast.Name(id=name, ctx=ast.Load())], node)
            if fq != "filter":
                test = ast.UnaryOp(op=ast.Not(), operand=test)
            new = ast.GeneratorExp(elt=ast.Name(id=name, ctx=ast.Load()), generators=[self.comp(ast.Name(id=name, ctx=ast.Store()), node.args[1], [test])])
        elif (fq == "itertools.chain.from_iterable" and plain and len(node.args) == 1) or (fq == "itertools.chain" and not node.keywords and len(node.args) == 1 and isinstance(node.args[0], ast.Starred)):
            x = node.args[0].value if isinstance(node.args[0], ast.Starred) else node.args[0]
            y = self.fresh("element")
            if isinstance(x, (ast.GeneratorExp, ast.ListComp)):
                new = ast.GeneratorExp(elt=ast.Name(id=y, ctx=ast.Load()), generators=[*x.generators, self.comp(ast.Name(id=y, ctx=ast.Store()), x.elt)])
            else:
                g = self.fresh("group")
                new = ast.GeneratorExp(elt=ast.Name(id=y, ctx=ast.Load()), generators=[self.comp(ast.Name(id=g, ctx=ast.Store()), x), self.comp(ast.Name(id=y, ctx=ast.Store()), ast.Name(id=g, ctx=ast.Load()))])
        elif fq == "itertools.chain" and plain and node.args:
            new = ast.List(elts=[ast.Starred(value=a, ctx=ast.Load()) for a in node.args], ctx=ast.Load())
        elif fq == "itertools.starmap" and plain and len(node.args) == 2 and isinstance(node.args[1], (ast.GeneratorExp, ast.ListComp)) and isinstance(node.args[1].elt, ast.Tuple) and not any(isinstance(e, ast.Starred) for e in node.args[1].elt.elts):
            src = node.args[1]
            new = ast.GeneratorExp(elt=self.call_of(node.args[0], list(src.elt.elts), node), generators=src.generators)
        else:
            got = self.apply(f, list(node.args), list(node.keywords), node)
            if got is not None:
                new = got
        if new is None:
            return node
        self.changed = True
        ast.copy_location(new, node)
        for x in ast.walk(new):
            if not hasattr(x, "lineno") and isinstance(x, (ast.expr, ast.stmt)):
                ast.copy_location(x, node)
        if hasattr(node, "_src") and not hasattr(new, "_src"):
            new._rewritten_from = node._src  # type: ignore[attr-defined]
        return new


def normalise_view(repo: Repo, view: FuncInfo) -> bool:
    """Rewrites the functional idioms of the view in place; True when something changed."""
    if isinstance(view.node, ast.Lambda):
        return False
    tr = Functional(repo, view)
    view.node.body = [tr.visit(s) for s in view.node.body]
    if tr.changed:
        ast.fix_missing_locations(view.node)
        set_parents(view.node)
    return tr.changed


# --------------------------------------------------------------------------- per-key records split into one table per field


def split_records(repo: Repo, view: FuncInfo) -> bool:
    """A local `table = defaultdict(Record)` of small records (dataclass with list fields and boolean flags) that is only used
    through `r = table[key]` / `r = table.get(key)`, `r.items.append(v)`, `r.flag = r.flag or cond`, `r.flag`, `r.items`,
    `r is not None` is rewritten as one table per field:

        r.items.append(v)             ->  table__items.setdefault(key, []).append(v)
        r.flag = r.flag or cond       ->  if cond: table__flag.add(key)
        r.flag / r.items              ->  key in table__flag / table__items.get(key, ())
        r is not None / r is None     ->  True / False   (an absent record contributes an empty `items`, i.e. nothing)

    which is the group-by-key / any-per-key shape the detector rules read.  Nothing is rewritten unless *every* use of the table
    and of its record aliases fits (checked afterwards); True when the view was changed."""
    if isinstance(view.node, ast.Lambda):
        return False
    mod = view.module
    tables: dict[str, dict[str, str]] = {}
    for n in ast.walk(view.node):
        if isinstance(n, (ast.Assign, ast.AnnAssign)) and n.value is not None:
            tgs = n.targets if isinstance(n, ast.Assign) else [n.target]
            v = n.value
            if len(tgs) == 1 and isinstance(tgs[0], ast.Name) and isinstance(v, ast.Call) and isinstance(v.func, ast.Name) and v.func.id == "defaultdict" and len(v.args) == 1 and isinstance(v.args[0], ast.Name) and not v.keywords:
                ci = mod.classes.get(v.args[0].id)
                src = getattr(v, "_src", None)
                if ci is None and src is not None:
                    ci = src[0].module.classes.get(v.args[0].id)
                kinds = _record_fields(ci) if ci is not None else None
                if kinds:
                    tables[tgs[0].id] = kinds
    if not tables:
        return False
    work = _clone(view.node)
    ok = True

    def fname(t: str, f: str) -> str:
        return f"{t}__{f}"

    class Use(ast.NodeTransformer):
        def __init__(self, env: dict) -> None:
            self.env = env  # alias -> (table, key expr)

        def rec(self, e):
            return self.env.get(e.id) if isinstance(e, ast.Name) and isinstance(e.ctx, ast.Load) else None

        def visit_Attribute(self, n: ast.Attribute):  # noqa: N802
            r = self.rec(n.value)
            if r is not None and isinstance(n.ctx, ast.Load):
                t, key = r
                kind = tables[t].get(n.attr)
                if kind == "flag":
                    return ast.copy_location(ast.Compare(left=_clone(key), ops=[ast.In()], comparators=[ast.Name(id=fname(t, n.attr), ctx=ast.Load())]), n)
                if kind == "list":
                    return ast.copy_location(ast.Call(func=ast.Attribute(value=ast.Name(id=fname(t, n.attr), ctx=ast.Load()), attr="get", ctx=ast.Load()), args=[_clone(key), ast.Tuple(elts=[], ctx=ast.Load())], keywords=[]), n)
            return self.generic_visit(n)

        def visit_Compare(self, n: ast.Compare):  # noqa: N802
            if len(n.ops) == 1 and isinstance(n.ops[0], (ast.Is, ast.IsNot)) and isinstance(n.comparators[0], ast.Constant) and n.comparators[0].value is None and self.rec(n.left) is not None:
                return ast.copy_location(ast.Constant(value=isinstance(n.ops[0], ast.IsNot)), n)
            return self.generic_visit(n)

        def visit_Lambda(self, n):  # noqa: N802
            return n

    def alias_of(st: ast.stmt):
        """(alias, table, key) for `r = table[key]` / `r = table.get(key)`."""
        if isinstance(st, (ast.Assign, ast.AnnAssign)) and st.value is not None:
            tgs = st.targets if isinstance(st, ast.Assign) else [st.target]
            v = st.value
            if len(tgs) == 1 and isinstance(tgs[0], ast.Name):
                if isinstance(v, ast.Subscript) and isinstance(v.value, ast.Name) and v.value.id in tables and isinstance(v.slice, ast.Name):
                    return tgs[0].id, v.value.id, v.slice
                if isinstance(v, ast.Call) and isinstance(v.func, ast.Attribute) and v.func.attr == "get" and isinstance(v.func.value, ast.Name) and v.func.value.id in tables and len(v.args) == 1 and isinstance(v.args[0], ast.Name):
                    return tgs[0].id, v.func.value.id, v.args[0]
        return None

    def block(stmts: list[ast.stmt], env: dict) -> list[ast.stmt]:
        nonlocal ok
        out: list[ast.stmt] = []
        for st in stmts:
            # declaration of the table
            if isinstance(st, (ast.Assign, ast.AnnAssign)) and st.value is not None:
                tgs = st.targets if isinstance(st, ast.Assign) else [st.target]
                if len(tgs) == 1 and isinstance(tgs[0], ast.Name) and tgs[0].id in tables and isinstance(st.value, ast.Call) and isinstance(st.value.func, ast.Name) and st.value.func.id == "defaultdict":
                    for f, kind in tables[tgs[0].id].items():
                        val = ast.Dict(keys=[], values=[]) if kind == "list" else ast.Call(func=ast.Name(id="set", ctx=ast.Load()), args=[], keywords=[])
                        out.append(ast.copy_location(ast.Assign(targets=[ast.Name(id=fname(tgs[0].id, f), ctx=ast.Store())], value=val), st))
                    continue
            al = alias_of(st)
            if al is not None:
                env[al[0]] = (al[1], al[2])
                continue
            # rebinding an alias to something else ends it
            for x in ast.walk(st):
                if isinstance(x, ast.Name) and isinstance(x.ctx, ast.Store) and x.id in env and not isinstance(st, (ast.For, ast.While, ast.If, ast.With, ast.Try)):
                    env.pop(x.id, None)
            # r.items.append(v)
            if isinstance(st, ast.Expr) and isinstance(st.value, ast.Call) and isinstance(st.value.func, ast.Attribute) and isinstance(st.value.func.value, ast.Attribute) and isinstance(st.value.func.value.value, ast.Name) and st.value.func.value.value.id in env:
                t, key = env[st.value.func.value.value.id]
                f = st.value.func.value.attr
                if tables[t].get(f) == "list" and st.value.func.attr in ("append", "extend", "add", "insert"):
                    recv = ast.Call(func=ast.Attribute(value=ast.Name(id=fname(t, f), ctx=ast.Load()), attr="setdefault", ctx=ast.Load()), args=[_clone(key), ast.List(elts=[], ctx=ast.Load())], keywords=[])
                    call = ast.Call(func=ast.Attribute(value=recv, attr=st.value.func.attr, ctx=ast.Load()), args=[Use(env).visit(a) for a in st.value.args], keywords=[])
                    out.append(ast.copy_location(ast.Expr(value=call), st))
                    continue
            # r.flag = r.flag or cond / r.flag = True / r.flag |= cond
            tgt = st.targets[0] if isinstance(st, ast.Assign) and len(st.targets) == 1 else st.target if isinstance(st, (ast.AugAssign, ast.AnnAssign)) else None
            if isinstance(tgt, ast.Attribute) and isinstance(tgt.value, ast.Name) and tgt.value.id in env and getattr(st, "value", None) is not None:
                t, key = env[tgt.value.id]
                if tables[t].get(tgt.attr) == "flag":
                    v = st.value
                    conds_: list[ast.expr] | None = None

                    def same(e) -> bool:
                        return isinstance(e, ast.Attribute) and e.attr == tgt.attr and isinstance(e.value, ast.Name) and e.value.id == tgt.value.id

                    if isinstance(st, ast.AugAssign) and isinstance(st.op, ast.BitOr):
                        conds_ = [v]
                    elif isinstance(v, ast.BoolOp) and isinstance(v.op, ast.Or) and any(same(x) for x in v.values):
                        conds_ = [x for x in v.values if not same(x)]
                    elif isinstance(v, ast.Constant) and v.value is True:
                        conds_ = []
                    if conds_ is not None:
                        add = ast.Expr(value=ast.Call(func=ast.Attribute(value=ast.Name(id=fname(t, tgt.attr), ctx=ast.Load()), attr="add", ctx=ast.Load()), args=[_clone(key)], keywords=[]))
                        ast.copy_location(add, st)
                        if conds_:
                            test = Use(env).visit(conds_[0]) if len(conds_) == 1 else ast.BoolOp(op=ast.Or(), values=[Use(env).visit(c) for c in conds_])
                            out.append(ast.copy_location(ast.If(test=test, body=[add], orelse=[]), st))
                        else:
                            out.append(add)
                        continue
                ok = False
            # compound statements: rewrite the header expressions, recurse into the blocks
            if isinstance(st, (ast.If, ast.While)):
                st.test = Use(env).visit(st.test)
            elif isinstance(st, (ast.For, ast.AsyncFor)):
                st.iter = Use(env).visit(st.iter)
            if isinstance(st, (ast.If, ast.While, ast.For, ast.AsyncFor, ast.With, ast.AsyncWith, ast.Try)):
                for fld in ("body", "orelse", "finalbody"):
                    b = getattr(st, fld, None)
                    if isinstance(b, list) and b:
                        setattr(st, fld, block(b, env if fld == "body" and isinstance(st, (ast.For, ast.AsyncFor, ast.While, ast.With)) else dict(env)) or [ast.copy_location(ast.Pass(), st)])
                for h in getattr(st, "handlers", []):
                    h.body = block(h.body, dict(env)) or [ast.copy_location(ast.Pass(), st)]
                out.append(st)
                continue
            out.append(Use(env).visit(st))
        return out

    work.body = block(work.body, {})
    # every use must have been rewritten: no mention of a table, no record alias read as a whole
    aliases = set()
    for n in ast.walk(view.node):
        if isinstance(n, ast.stmt):
            a = alias_of(n)
            if a is not None:
                aliases.add(a[0])
    for n in ast.walk(work):
        if isinstance(n, ast.Name) and (n.id in tables or (n.id in aliases and isinstance(n.ctx, ast.Load))):
            ok = False
    if not ok:
        return False
    view.node.body = work.body
    ast.fix_missing_locations(view.node)
    set_parents(view.node)
    return True


def _record_fields(ci) -> dict[str, str] | None:
    """{field: 'list' | 'flag'} for a small record class (annotated class attributes with list / False defaults)."""
    node = getattr(ci, "node", None)
    if node is None:
        return None
    out: dict[str, str] = {}
    for st in node.body:
        if isinstance(st, ast.AnnAssign) and isinstance(st.target, ast.Name):
            v = st.value
            if isinstance(v, ast.Constant) and v.value is False:
                out[st.target.id] = "flag"
            elif isinstance(v, ast.Call) and isinstance(v.func, ast.Name) and v.func.id == "field" and any(k.arg == "default_factory" and isinstance(k.value, ast.Name) and k.value.id == "list" for k in v.keywords):
                out[st.target.id] = "list"
            else:
                return None
        elif isinstance(st, ast.Expr) and isinstance(st.value, ast.Constant):
            continue
        elif isinstance(st, ast.Pass):
            continue
        else:
            return None
    return out or None


def flatten_groups(view: FuncInfo) -> bool:
    """A local list that only collects whole groups (`groups.append(g)`) and is only read by `for g in groups: <use every element
    of g>` (one statement: `r.update({f(x) for x in g})` / `r.extend(... for x in g)` / `for x in g: ...`) is flattened:
    `groups.extend(g)` and the statement ranges over `groups` itself.  The same elements reach the same sink under the same
    conditions; True when the view was changed."""
    if isinstance(view.node, ast.Lambda):
        return False
    fn = view.node
    changed = False
    for _round in range(3):
        names = {n.id for n in ast.walk(fn) if isinstance(n, ast.Name) and isinstance(n.ctx, ast.Store)}
        done = False
        for x in sorted(names):
            stores = [n for n in ast.walk(fn) if isinstance(n, ast.Name) and n.id == x and isinstance(n.ctx, ast.Store)]
            if len(stores) != 1:
                continue
            # aliases `y = x` (hoisted results)
            alias = [st for st in ast.walk(fn) if isinstance(st, ast.Assign) and len(st.targets) == 1 and isinstance(st.targets[0], ast.Name) and isinstance(st.value, ast.Name) and st.value.id == x]
            readers = {x} | {st.targets[0].id for st in alias if sum(1 for n in ast.walk(fn) if isinstance(n, ast.Name) and n.id == st.targets[0].id and isinstance(n.ctx, ast.Store)) == 1}
            loads = [n for n in ast.walk(fn) if isinstance(n, ast.Name) and n.id in readers and isinstance(n.ctx, ast.Load)]
            appends, loops, other = [], [], []
            for n in loads:
                p = getattr(n, "_parent", None)
                if isinstance(p, ast.Attribute) and p.attr == "append" and isinstance(getattr(p, "_parent", None), ast.Call) and p._parent.func is p and len(p._parent.args) == 1 and n.id == x:
                    appends.append(p._parent)
                elif isinstance(p, ast.For) and p.iter is n and isinstance(p.target, ast.Name) and not p.orelse:
                    loops.append(p)
                elif isinstance(p, ast.Assign) and p in alias and p.value is n:
                    continue
                else:
                    other.append(n)
            if not appends or not loops or other:
                continue
            ok = True
            for lp in loops:
                g = lp.target.id
                if len(lp.body) != 1:
                    ok = False
                    break
                uses = [n for n in ast.walk(lp.body[0]) if isinstance(n, ast.Name) and n.id == g]
                if len(uses) != 1 or not isinstance(uses[0].ctx, ast.Load):
                    ok = False
                    break
                up = getattr(uses[0], "_parent", None)
                if not ((isinstance(up, ast.comprehension) and up.iter is uses[0]) or (isinstance(up, ast.For) and up.iter is uses[0])):
                    ok = False
                    break
                if isinstance(up, ast.comprehension):
                    comp = getattr(up, "_parent", None)
                    if not (isinstance(comp, (ast.SetComp, ast.ListComp, ast.GeneratorExp)) and len(comp.generators) == 1):
                        ok = False
                        break
            if not ok:
                continue
            for c in appends:
                c.func.attr = "extend"
            for lp in loops:
                g = lp.target.id
                src = lp.iter
                for n in ast.walk(lp.body[0]):
                    for fld, val in ast.iter_fields(n):
                        if isinstance(val, ast.Name) and val.id == g and isinstance(val.ctx, ast.Load):
                            setattr(n, fld, _clone(src))
                # replace the loop statement by its single body statement
                par = getattr(lp, "_parent", None)
                for fld in ("body", "orelse", "finalbody"):
                    blk = getattr(par, fld, None)
                    if isinstance(blk, list) and lp in blk:
                        blk[blk.index(lp)] = lp.body[0]
            ast.fix_missing_locations(fn)
            set_parents(fn)
            changed = done = True
            break
        if not done:
            break
    return changed
