"""C05.R1 - the layer rule is lowered to the documented module rule.

Anchors are the public fluent API only (method names of `LayerRule` / `Rule` fixed by query_language/base_language.py and used by
tests and docs), the public filter classes and their public properties `identifier` / `identifier_is_regex`.  Private helpers
are never named: every analysis runs on the inline view of a public method.
"""

from __future__ import annotations

import ast

from core.guards import atom, atoms_of, conds_formula, f_and, f_not, implies, satisfiable, to_formula
from core.loader import ClassInfo, FuncInfo, Repo, norm, own_nodes, parent
from core.report import Result
from core.types import members

from .c05_views import (
    family,
    Production,
    all_nodes,
    cond_origin,
    dview,
    key_of,
    names_in,
    productions,
    single_value,
    target_names,
    value_cases,
    where_of,
)
from .common import conds, types_of, where

LAYER_RULE = "pytestarch.query_language.layered_architecture_rule"
RULE = "pytestarch.query_language.rule"
EVAL_ARCH = "pytestarch.eval_structure.evaluable_architecture"

# the documented morphism: access -> import, layers -> modules, be_accessed_by -> be_imported_by, any_layer -> anything
LOWERING = {
    "should": "should",
    "should_only": "should_only",
    "should_not": "should_not",
    "access_layers_that": "import_modules_that",
    "be_accessed_by_layers_that": "be_imported_by_modules_that",
    "access_layers_except_layers_that": "import_modules_except_modules_that",
    "be_accessed_by_layers_except_layers_that": "be_imported_by_modules_except_modules_that",
    "access_any_layer": "import_anything",
    "be_accessed_by_any_layer": "be_imported_by_anything",
    "assert_applies": "assert_applies",
}


def _language_of(repo: Repo, rule: ClassInfo) -> set[str]:
    """Public fluent methods of Rule (everything the abstract language classes declare plus Rule's own public methods)."""
    out: set[str] = set()
    for c in repo.mro(rule):
        for n, m in c.methods.items():
            if not n.startswith("_") and not m.is_property:
                out.add(n)
    return out


def _is_self_like(e: ast.expr) -> bool:
    if isinstance(e, ast.Name) and e.id in ("self", "cls"):
        return True
    return isinstance(e, ast.Call) and isinstance(e.func, ast.Name) and e.func.id == "super"


def _types_rule(repo: Repo, T, view: FuncInfo, e: ast.expr, rule: ClassInfo) -> bool | None:
    """True: the expression denotes the wrapped Rule (instance or class); False: provably something else; None: unknown."""
    try:
        t = T.expr(view, e)
    except Exception:  # noqa: BLE001
        return None
    ms = members(t)
    known = [m for m in ms if m[0] in ("cls", "type")]
    if any(repo.classes.get(m[1]) is not None and (repo.is_subclass(repo.classes[m[1]], rule.fq) or repo.is_subclass(rule, m[1])) for m in known):
        return True
    if known and len(known) == len([m for m in ms if m != ("b", "none", ())]):
        return False
    return None


def rule_mentions(repo: Repo, T, view: FuncInfo, rule: ClassInfo, language: set[str], depth: int = 0) -> list[tuple[str, ast.AST]]:
    """Uses of the module-rule language inside the view: `<rule>.m` (called, or passed on as a bound / unbound method) and
    `getattr(<rule>, "m")`."""
    out: list[tuple[str, ast.AST]] = []
    for n in all_nodes(view):
        if isinstance(n, ast.Attribute) and isinstance(n.ctx, ast.Load) and n.attr in language and not _is_self_like(n.value):
            if _types_rule(repo, T, view, n.value, rule) is False:
                # a same-named method of another repo class (a wrapper around the rule): what it mentions counts
                if depth < 2:
                    src = getattr(n, "_src", None)
                    ctx, orig = src if src is not None else (view, n)
                    try:
                        t = T.expr(ctx, orig.value)
                    except Exception:  # noqa: BLE001
                        t = None
                    for m_ in (members(t) if t is not None else []):
                        ci = repo.classes.get(m_[1]) if m_[0] == "cls" else None
                        meth = repo.lookup_method(ci, n.attr) if ci is not None else None
                        if meth is not None and not meth.is_abstract:
                            inner = rule_mentions(repo, T, dview(repo, meth, ci, family(repo, ci), tag="wrap"), rule, language, depth + 1)
                            out += [(a, n) for a, _x in inner]
                continue
            out.append((n.attr, n))
        elif isinstance(n, ast.Call) and isinstance(n.func, ast.Name) and n.func.id == "getattr" and len(n.args) >= 2 and isinstance(n.args[1], ast.Constant) and n.args[1].value in language:
            if not _is_self_like(n.args[0]):
                out.append((n.args[1].value, n))
        elif isinstance(n, ast.Call) and isinstance(n.func, ast.Name) and n.func.id in ("methodcaller", "attrgetter") and n.args and isinstance(n.args[0], ast.Constant) and n.args[0].value in language:
            out.append((n.args[0].value, n))
        elif isinstance(n, ast.Subscript) and isinstance(n.ctx, ast.Load) and isinstance(n.slice, ast.Constant):
            # a literal dispatch table (module constant / class attribute) indexed by a constant: its entry is what is used
            entry = _table_entry(repo, view, n)
            if isinstance(entry, ast.Attribute) and entry.attr in language and not _is_self_like(entry.value):
                out.append((entry.attr, n))
            elif isinstance(entry, ast.Constant) and entry.value in language:
                out.append((entry.value, n))
    return out


def _table_entry(repo: Repo, view: FuncInfo, sub: ast.Subscript) -> ast.expr | None:
    tbl = None
    v = sub.value
    src = getattr(v, "_src", None)
    mod = src[0].module if src is not None else view.module
    if isinstance(v, ast.Name):
        tbl = mod.constants.get(v.id)
    elif isinstance(v, ast.Attribute) and isinstance(v.value, ast.Name):
        ctx = src[0] if src is not None else view
        owners = []
        if v.value.id in ("self", "cls") and ctx.cls is not None:
            owners = repo.mro(ctx.cls)
        elif v.value.id in mod.classes:
            owners = repo.mro(mod.classes[v.value.id])
        for c in owners:
            if v.attr in c.class_attrs:
                tbl = c.class_attrs[v.attr]
                break
    if isinstance(tbl, ast.Dict):
        for k, val in zip(tbl.keys, tbl.values):
            if isinstance(k, ast.Constant) and k.value == sub.slice.value:
                return val
    return None


def _opaque_dispatch(view: FuncInfo) -> ast.AST | None:
    """A call whose target cannot be read off the view (dispatch through a table / computed attribute)."""
    for n in all_nodes(view):
        if isinstance(n, ast.Call):
            f = n.func
            if isinstance(f, ast.Subscript) or (isinstance(f, ast.Call) and not (isinstance(f.func, ast.Name) and f.func.id == "super")):
                return n
            if isinstance(f, ast.Name) and f.id == "getattr" and len(n.args) >= 2 and not isinstance(n.args[1], ast.Constant):
                return n
    return None


def check_delegation(repo: Repo, res: Result) -> None:
    T = types_of(repo)
    lr = repo.cls(LAYER_RULE, "LayerRule")
    rule = repo.cls(RULE, "Rule")
    language = _language_of(repo, rule)
    lr_mro = {c.fq for c in repo.mro(lr)}

    allow = family(repo, lr)

    for name, want in LOWERING.items():
        m = repo.lookup_method(lr, name)
        construct = f"{lr.module.relpath}::LayerRule.{name}::delegation"
        if m is None or m.is_abstract:
            res.add("C05.R1", construct, False, f"LayerRule.{name} no longer exists", kind="structural")
            continue
        if want not in language:
            res.add("C05.R1", construct, False, f"Rule.{want} (the documented image of LayerRule.{name}) no longer exists", where(m, m.node), kind="structural")
            continue
        view = dview(repo, m, lr, allow, tag="lr")
        ments = rule_mentions(repo, T, view, rule, language)
        used = sorted({a for a, _n in ments})
        if used == [want]:
            ok, detail = True, f"{name} -> Rule.{want}"
            if name == "assert_applies":
                # the evaluable handed in is the one that is judged
                ev = m.param_names[1] if len(m.param_names) > 1 else None
                calls = [parent(n) for a, n in ments if isinstance(parent(n), ast.Call) and parent(n).func is n]
                passed = [c for c in calls if any(isinstance(x, ast.Name) and x.id == ev for x in [*c.args, *[k.value for k in c.keywords]])]
                if calls and not passed:
                    ok, detail = False, f"LayerRule.assert_applies does not pass its `{ev}` argument on to Rule.assert_applies"
                elif not calls:
                    res.undecide("C05.R1", construct, "Rule.assert_applies is referenced but its call (and the evaluable passed to it) was not found", where(m, m.node))
                    continue
            res.add("C05.R1", construct, ok, detail, where(m, m.node), kind="structural")
        elif not used:
            od = _opaque_dispatch(view)
            if od is not None:
                res.undecide("C05.R1", construct, f"LayerRule.{name} dispatches through `{norm(od, 60)}`: the module-rule method it reaches cannot be read off the code", where_of(view, od))
            else:
                res.add("C05.R1", construct, False, f"LayerRule.{name} delegates to []: the documented lowering is Rule.{want}", where(m, m.node), kind="structural")
        else:
            res.add("C05.R1", construct, False, f"LayerRule.{name} delegates to {used}: the documented lowering is Rule.{want}", where(m, m.node), kind="structural")


# --------------------------------------------------------------------------- are_named: layer -> all its module filters


def _strip_transparent(e: ast.expr) -> ast.expr:
    while isinstance(e, ast.Call) and isinstance(e.func, ast.Name) and e.func.id in ("list", "tuple", "sorted", "reversed", "iter", "set", "frozenset") and len(e.args) == 1:
        e = e.args[0]
    return e


def _derives_from_param(view: FuncInfo, e: ast.expr, param: str, depth: int = 0) -> bool:
    """The collection is the parameter itself, `[param]`, a conditional choice between those, or a copy of one of them."""
    if depth > 6:
        return False
    e = _strip_transparent(e)
    if isinstance(e, ast.Name):
        if e.id == param:
            from .c05_views import assignments_of

            asg = assignments_of(view, param)
            if asg is None:
                return False
            # `layers = layers if isinstance(layers, list) else [layers]` re-binds the parameter to its own listified form
            return all(_derives_from_param_value(view, v, param, depth + 1) for _s, v in asg)
        from .c05_views import assignments_of

        asg = assignments_of(view, e.id)
        if not asg:
            return False
        return all(_derives_from_param(view, v, param, depth + 1) for _s, v in asg)
    return _derives_from_param_value(view, e, param, depth)


def _derives_from_param_value(view: FuncInfo, e: ast.expr, param: str, depth: int) -> bool:
    e = _strip_transparent(e)
    if isinstance(e, ast.Name):
        if e.id == param:
            return True
        return _derives_from_param(view, e, param, depth + 1)
    if isinstance(e, (ast.List, ast.Tuple)) and len(e.elts) == 1:
        x = e.elts[0]
        if isinstance(x, ast.Starred):
            return _derives_from_param_value(view, x.value, param, depth + 1)
        return isinstance(x, ast.Name) and x.id == param
    if isinstance(e, ast.IfExp):
        return _derives_from_param_value(view, e.body, param, depth + 1) and _derives_from_param_value(view, e.orelse, param, depth + 1)
    if isinstance(e, ast.Call) and depth < 6:
        # a small "listify" helper: its single return expression derives from one of its parameters, which receives the value
        from .c05_views import _bind_call

        T = types_of(view.module.repo)  # type: ignore[attr-defined]
        src = getattr(e, "_src", None)
        ctx, orig = src if src is not None else (view, e)
        try:
            cs, how = T.callees(ctx, orig, byname_fallback=False)
        except Exception:  # noqa: BLE001
            cs, how = [], ""
        cs = [c for c in cs if not c.is_abstract and not isinstance(c.node, ast.Lambda)]
        if len(cs) == 1 and how == "repo":
            body = [st for st in cs[0].node.body if not (isinstance(st, ast.Expr) and isinstance(st.value, ast.Constant))]
            binding = _bind_call(cs[0], e)
            if len(body) == 1 and isinstance(body[0], ast.Return) and body[0].value is not None and binding:
                for q, a in binding.items():
                    if _derives_from_param_value(cs[0], body[0].value, q, depth + 1) and _derives_from_param_value(view, a, param, depth + 1):
                        return True
    return False


def _layer_filters_source(repo: Repo, T, view: FuncInfo, it: ast.expr, layer_var: set[str]) -> tuple[str, str]:
    """Classifies the iteration source of the module-filter loop.

    ('all', text)      every module filter of the layer named by the loop variable: `<architecture>[layer]`,
                       `<layer mapping>.get_module_filters(layer)`
    ('part', text)     a restriction of that (slice, single element, filter(), conditional)
    ('unknown', text)  something else
    """
    e = _strip_transparent(single_value(view, it))
    text = norm(e, 70)

    def is_arch(x: ast.expr) -> bool:
        x = single_value(view, x)
        try:
            t = T.expr(view, x)
        except Exception:  # noqa: BLE001
            return False
        for m in members(t):
            if m[0] == "cls" and m[1].rsplit(".", 1)[-1] in ("LayeredArchitecture", "LayerMapping"):
                return True
        # a field holding the per-layer dict of the architecture
        if isinstance(x, ast.Attribute):
            return is_arch(x.value)
        return False

    def of_layer(idx: ast.expr) -> bool:
        return isinstance(idx, ast.Name) and idx.id in layer_var

    if isinstance(e, ast.Subscript):
        if isinstance(e.slice, ast.Slice):
            inner = _layer_filters_source(repo, T, view, e.value, layer_var)
            return ("part", text) if inner[0] in ("all", "part") else ("unknown", text)
        if of_layer(e.slice) and is_arch(e.value):
            return "all", text
        inner = _layer_filters_source(repo, T, view, e.value, layer_var)
        if inner[0] in ("all", "part"):
            return "part", text
    if isinstance(e, ast.Call) and isinstance(e.func, ast.Attribute):
        if e.func.attr in ("get_module_filters", "__getitem__") and len(e.args) == 1 and of_layer(e.args[0]) and is_arch(e.func.value):
            return "all", text
        if e.func.attr == "get" and e.args and of_layer(e.args[0]) and is_arch(e.func.value):
            return "part", text  # silently yields nothing for an unknown layer
    if isinstance(e, ast.Call) and isinstance(e.func, ast.Name) and e.func.id in ("filter", "islice") and e.args:
        inner = _layer_filters_source(repo, T, view, e.args[-1] if e.func.id == "filter" else e.args[0], layer_var)
        if inner[0] in ("all", "part"):
            return "part", text
    if isinstance(e, (ast.List, ast.Tuple)) and len(e.elts) == 1 and not isinstance(e.elts[0], ast.Starred):
        # one element per layer: an element picked out of the layer's filters is a part of them
        x = single_value(view, e.elts[0])
        if isinstance(x, ast.Subscript) and not isinstance(x.slice, ast.Slice):
            inner = _layer_filters_source(repo, T, view, x.value, layer_var)
            if inner[0] in ("all", "part"):
                return "part", text
        if isinstance(x, ast.Call) and isinstance(x.func, ast.Name) and x.func.id in ("next", "min", "max") and x.args:
            inner = _layer_filters_source(repo, T, view, x.args[0], layer_var)
            if inner[0] in ("all", "part"):
                return "part", text
    if isinstance(e, ast.IfExp):
        a = _layer_filters_source(repo, T, view, e.body, layer_var)
        b = _layer_filters_source(repo, T, view, e.orelse, layer_var)
        if a[0] == "all" and b[0] == "all":
            return "all", text
        if a[0] in ("all", "part") or b[0] in ("all", "part"):
            return "part", text
    return "unknown", text


def _whole_layer_handed_over(repo: Repo, T, view: FuncInfo, p: Production) -> Production:
    """`rule._add_modules(architecture[layer])` inside a loop over the named layers: the layer's filter list is handed over
    wholesale - the same event as "every filter m of architecture[layer]" (filter objects of their own kind)."""
    if p.elt is not None or p.merged is None:
        return p
    pv = p.view or view
    loops = list(p.loops)
    if not loops:
        return p
    layer_vars: set[str] = set()
    for t, _it in loops:
        layer_vars |= target_names(t)
    kind, _text = _layer_filters_source(repo, T, pv, p.merged, layer_vars)
    if kind not in ("all", "part"):
        return p
    var = "layer_module_filter__"
    q = Production(ast.Name(id=var, ctx=ast.Load()), loops + [(ast.Name(id=var, ctx=ast.Store()), p.merged)], list(p.conds), p.node, view=p.view, binding=p.binding, caller=p.caller)
    return q


def check_are_named(repo: Repo, res: Result) -> FuncInfo | None:
    """are_named: every named layer contributes *all* of its module filters as (identifier, is-regex) to the wrapped rule.
    Returns the Rule method that receives them."""
    T = types_of(repo)
    lr = repo.cls(LAYER_RULE, "LayerRule")
    rule = repo.cls(RULE, "Rule")
    lr_mro = {c.fq for c in repo.mro(lr)}
    an = repo.lookup_method(lr, "are_named")
    construct = f"{lr.module.relpath}::LayerRule.are_named::layers lowered to module filters"
    if an is None or an.is_abstract:
        res.add("C05.R1", construct, False, "LayerRule.are_named no longer exists", kind="structural")
        return None
    view = dview(repo, an, lr, family(repo, lr), tag="lr", normalise=True)
    layers_param = an.param_names[1] if len(an.param_names) > 1 else None
    # the call that hands module specifications to the wrapped rule: a Rule method called with an argument
    handoffs: list[tuple[ast.Call, FuncInfo]] = []
    for n in all_nodes(view):
        if isinstance(n, ast.Call) and isinstance(n.func, ast.Attribute) and (n.args or n.keywords) and not (isinstance(n.func.value, ast.Name) and n.func.value.id in ("self", "cls")):
            src = getattr(n, "_src", None)
            ctx, orig = src if src is not None else (view, n)
            try:
                cs, how = T.callees(ctx, orig, byname_fallback=False)
            except Exception:  # noqa: BLE001
                cs, how = [], ""
            cs = [c for c in cs if c.cls is not None and repo.is_subclass(rule, c.cls.fq) or (c.cls is not None and repo.is_subclass(c.cls, rule.fq))]
            if cs and how == "repo":
                handoffs.append((n, cs[0]))
            elif not cs:
                # the receiver's type could not be resolved (`rule = self._rule` whose type depends on this very call): a method
                # that exists on Rule, called on something that is not provably another class, is the hand-off
                cand = repo.lookup_method(rule, n.func.attr)
                recv = single_value(view, n.func.value)
                if cand is not None and not cand.is_property and not _is_self_like(recv) and _types_rule(repo, T, view, n.func.value, rule) is not False and (_types_rule(repo, T, view, recv, rule) is not False):
                    handoffs.append((n, cand))
    if len(handoffs) != 1:
        if not handoffs:
            res.add("C05.R1", construct, False, "LayerRule.are_named hands no module specifications to the wrapped rule", where(an, an.node), kind="flow")
        else:
            res.undecide("C05.R1", construct, f"{len(handoffs)} calls hand arguments to the wrapped rule: {[norm(c, 50) for c, _ in handoffs]}", where(an, an.node))
        return None
    call, receiver = handoffs[0]
    arg = call.args[0] if call.args else call.keywords[0].value

    def follow(v: FuncInfo, c: ast.Call):
        src = getattr(c, "_src", None)
        ctx, orig = src if src is not None else (v, c)
        try:
            cs, how = T.callees(ctx, orig, byname_fallback=False)
        except Exception:  # noqa: BLE001
            return None
        cs = [x for x in cs if not x.is_abstract and (x.cls is None or x.cls.fq in lr_mro)]
        if len(cs) != 1 or how != "repo" or isinstance(cs[0].node, ast.Lambda):
            return None
        return dview(repo, cs[0], lr, family(repo, lr), tag="lr", normalise=True)

    prods = [_whole_layer_handed_over(repo, T, view, p) for p in productions(view, arg, follow=follow)]
    if not prods or any(p.elt is None for p in prods):
        bad = next((p for p in prods if p.elt is None), None)
        res.undecide("C05.R1", construct, f"cannot follow how the module specifications `{norm(arg, 60)}` are built" + (f" (`{norm(bad.merged, 60)}`)" if bad is not None and bad.merged is not None else ""), where_of(view, call))
        receiver.c05_mode = "UNDECIDED"  # type: ignore[attr-defined]  # what the receiver gets (pairs / filter objects) is not known
        return receiver
    ok_all = True
    any_undecided = False
    for p in prods:
        pv = p.view or view
        verdict, detail = _judge_lowering(repo, T, view, p, layers_param)
        if verdict == "undecided":
            any_undecided = True
            res.undecide("C05.R1", key_of(repo, pv, p.node, " [layer lowering]"), detail, where_of(pv, p.node))
            ok_all = False
        elif verdict == "violated":
            res.add("C05.R1", key_of(repo, pv, p.node, " [layer lowering]"), False, detail, where_of(pv, p.node), kind="flow")
            ok_all = False
    if ok_all:
        as_filters = any(getattr(p, "mode", "") == "filters" for p in prods)
        res.add("C05.R1", construct, True, "every module filter of every named layer reaches the wrapped rule as " + ("a module filter of its own kind" if as_filters else "(identifier, identifier_is_regex)"), where(an, an.node), kind="flow")
        if as_filters:
            receiver.c05_mode = "FILTERS"  # type: ignore[attr-defined]
    elif any_undecided:
        receiver.c05_mode = "UNDECIDED"  # type: ignore[attr-defined]
    return receiver


def _flatten_loops(view: FuncInfo, loops: list, cnds: list, rounds: int = 4, alias: dict | None = None) -> tuple[list, list]:
    """Rewrites the innermost loop when it ranges over an intermediate collection, so that two-step constructions
    (`filters = [m for l in layers for m in A[l]]`, `chain.from_iterable(A[l] for l in layers)`) read like the nested loops."""
    loops, cnds = list(loops), list(cnds)
    for _ in range(rounds):
        if not loops:
            break
        t, it = loops[-1]
        src = _strip_transparent(single_value(view, it))
        comp = None
        flat = False
        if isinstance(src, ast.Call):
            fn = src.func
            nm = fn.attr if isinstance(fn, ast.Attribute) else fn.id if isinstance(fn, ast.Name) else ""
            if nm == "from_iterable" and len(src.args) == 1:
                comp, flat = _strip_transparent(single_value(view, src.args[0])), True
            elif nm == "chain" and len(src.args) == 1 and isinstance(src.args[0], ast.Starred):
                comp, flat = _strip_transparent(single_value(view, src.args[0].value)), True
            elif nm == "sum" and len(src.args) == 2 and isinstance(src.args[1], (ast.List, ast.Tuple)) and not src.args[1].elts:
                comp, flat = _strip_transparent(single_value(view, src.args[0])), True
        elif isinstance(src, (ast.ListComp, ast.GeneratorExp, ast.SetComp)):
            comp = src
        elif isinstance(src, ast.Name) and any(isinstance(tk, ast.Name) and tk.id == src.id for tk, _ik in loops[:-1]):
            # the innermost loop ranges over the variable of an enclosing loop (`for group in groups: for m in group`): when the
            # enclosing loop ranges over a comprehension / a collection with one producing event, `group` stands for its element
            k = max(i for i, (tk, _ik) in enumerate(loops[:-1]) if isinstance(tk, ast.Name) and tk.id == src.id)
            outer_src = _strip_transparent(single_value(view, loops[k][1]))
            gens_k = elt_k = None
            ifs_k: list = []
            if isinstance(outer_src, (ast.ListComp, ast.GeneratorExp, ast.SetComp)):
                gens_k = [(g.target, g.iter) for g in outer_src.generators]
                ifs_k = [(c, True) for g in outer_src.generators for c in g.ifs]
                elt_k = outer_src.elt
            elif isinstance(outer_src, ast.Name) and outer_src.id not in view.param_names:
                prods_k = productions(view, outer_src)
                if len(prods_k) == 1 and prods_k[0].elt is not None and prods_k[0].loops:
                    gens_k, ifs_k, elt_k = list(prods_k[0].loops), list(prods_k[0].conds), prods_k[0].elt
            if gens_k is None or elt_k is None:
                break
            loops = loops[:k] + gens_k + loops[k + 1:-1] + [(t, elt_k)]
            cnds = ifs_k + cnds
            continue
        elif isinstance(src, ast.Name) and src.id not in view.param_names:
            prods = productions(view, src)
            if len(prods) == 1 and prods[0].elt is not None and prods[0].loops:
                q = prods[0]
                if alias is not None and isinstance(q.elt, ast.Tuple) and isinstance(t, ast.Tuple) and len(t.elts) == len(q.elt.elts) and all(isinstance(x, ast.Name) for x in t.elts):
                    # `for name, flag in specs` over `specs = [(m.identifier, m.identifier_is_regex) for ...]`: the targets stand for
                    # the components of the inner element
                    for x, v in zip(t.elts, q.elt.elts):
                        alias[x.id] = v
                    loops = loops[:-1] + q.loops
                elif isinstance(q.elt, ast.Name) and q.elt.id in target_names(q.loops[-1][0]) and isinstance(q.loops[-1][0], ast.Name):
                    loops = loops[:-1] + q.loops[:-1] + [(t, q.loops[-1][1])]
                    if alias is not None and isinstance(t, ast.Name) and t.id != q.elt.id:
                        alias[q.elt.id] = ast.Name(id=t.id, ctx=ast.Load())
                else:
                    loops = loops[:-1] + q.loops + [(t, ast.List(elts=[q.elt], ctx=ast.Load()))]
                cnds = q.conds + cnds
                continue
            break
        if not isinstance(comp, (ast.ListComp, ast.GeneratorExp, ast.SetComp)):
            break
        gens = [(g.target, g.iter) for g in comp.generators]
        ifs = [(c, True) for g in comp.generators for c in g.ifs]
        if flat:
            loops = loops[:-1] + gens + [(t, comp.elt)]
        elif alias is not None and isinstance(comp.elt, ast.Tuple) and isinstance(t, ast.Tuple) and len(t.elts) == len(comp.elt.elts) and all(isinstance(x, ast.Name) for x in t.elts):
            for x, v in zip(t.elts, comp.elt.elts):
                alias[x.id] = v
            loops = loops[:-1] + gens
        elif isinstance(comp.elt, ast.Name) and isinstance(gens[-1][0], ast.Name) and comp.elt.id == gens[-1][0].id:
            loops = loops[:-1] + gens[:-1] + [(t, gens[-1][1])]
            if alias is not None and isinstance(t, ast.Name) and t.id != comp.elt.id:
                alias[comp.elt.id] = ast.Name(id=t.id, ctx=ast.Load())  # conditions written on the inner variable speak about t
        else:
            loops = loops[:-1] + gens + [(t, ast.List(elts=[comp.elt], ctx=ast.Load()))]
        cnds = ifs + cnds
    return loops, cnds


def _other_filter_attribute(repo: Repo, flag: ast.expr, mvars: set[str]) -> bool:
    """`m.<attr>` for a member of the ModuleFilter classes other than identifier_is_regex (identifier_is_parent_module ...)."""
    if not (isinstance(flag, ast.Attribute) and isinstance(flag.value, ast.Name) and flag.value.id in mvars and flag.attr != "identifier_is_regex"):
        return False
    base = repo.classes.get("pytestarch.eval_structure.evaluable_architecture.ModuleFilter")
    if base is None:
        return False
    for ci in [base, *repo.subclasses(base)]:
        if flag.attr in ci.methods or flag.attr in getattr(ci, "ann_attrs", []):
            return True
    return False


def _judge_lowering(repo: Repo, T, view: FuncInfo, p: Production, layers_param: str | None) -> tuple[str, str]:
    pv = p.view or view
    elt = p.elt
    alias: dict[str, ast.expr] = {}
    loops, cnds = _flatten_loops(pv, p.loops, p.conds, alias=alias)
    if alias:
        from .c05_views import substitute

        elt = substitute(elt, alias)
    if not loops:
        return "undecided", f"`{norm(elt, 60)}` is not produced per module filter of a layer"
    # innermost loop: the module filter
    mt, mit = loops[-1]
    mvars = target_names(mt)
    if isinstance(elt, ast.Tuple) and len(elt.elts) == 2:
        ident, flag = (single_value(pv, x) for x in elt.elts)
        if not (isinstance(ident, ast.Attribute) and ident.attr == "identifier" and isinstance(ident.value, ast.Name) and ident.value.id in mvars):
            return ("violated" if not (names_in(ident) & mvars) else "undecided"), f"the first component `{norm(ident, 50)}` is not the identifier of the layer's module filter"
        mvar = ident.value.id

        def flagsub(e: ast.expr):
            if isinstance(e, ast.Attribute) and e.attr == "identifier_is_regex" and isinstance(e.value, ast.Name) and e.value.id == mvar:
                return atom("IS_REGEX")
            return None

        ff = to_formula(flag, flagsub)
        if atoms_of(ff) <= {"IS_REGEX"}:
            from core.guards import equivalent

            if not equivalent(ff, atom("IS_REGEX")):
                return "violated", f"the regex flag handed to the rule is `{norm(flag, 40)}`, not the module filter's own `identifier_is_regex`: a layer is not lowered to its module filters with their own regex flag"
        elif not (names_in(flag) & mvars) or _other_filter_attribute(repo, flag, mvars):
            return "violated", f"the regex flag handed to the rule is `{norm(flag, 40)}`, not the module filter's own `identifier_is_regex`: a layer is not lowered to its module filters with their own regex flag"
        else:
            return "undecided", f"the regex flag `{norm(flag, 50)}` is derived from the module filter in an unrecognised way"
    else:
        # module *filter objects* are handed to the rule: the layer's own filters, or filters re-created from them
        e = single_value(pv, elt)
        p.mode = "filters"  # type: ignore[attr-defined]
        if isinstance(e, ast.Name) and e.id in mvars:
            pass
        else:
            mv = sorted(mvars)

            def fsub(x: ast.expr):
                if isinstance(x, ast.Attribute) and x.attr == "identifier_is_regex" and isinstance(x.value, ast.Name) and x.value.id in mvars:
                    return atom("FLAG")
                if isinstance(x, ast.Name) and isinstance(x.ctx, ast.Load):
                    v = single_value(pv, x)
                    if v is not x and isinstance(v, ast.Attribute) and v.attr == "identifier_is_regex" and isinstance(v.value, ast.Name) and v.value.id in mvars:
                        return atom("FLAG")
                return None

            sites: list = []
            from core.guards import TRUE

            comp = Components(pv, [], {})
            comp.flagsub = fsub  # type: ignore[method-assign]
            comp.tag = lambda x: ("FLAG" if fsub(x) is not None else None)  # type: ignore[method-assign]
            _maker_sites(repo, T, pv, list(ast.walk(elt)) if e is elt else list(ast.walk(elt)) + list(ast.walk(e)), _filter_classes(repo), comp, TRUE, 0, sites)
            kinds = {k for k, _f, _n, _c in sites}
            if not kinds or "unknown" in kinds:
                return "undecided", f"`{norm(elt, 60)}` is neither an (identifier, is-regex) pair nor a recognisable module filter of the layer ({', '.join(mv)})"
            if "regex" not in kinds or "name" not in kinds:
                return "violated", f"`{norm(elt, 60)}` re-creates the layer's module filters without distinguishing regex filters from name filters"
            for kind, f, n, _c in sites:
                if not satisfiable(f):
                    continue
                if (kind == "regex" and not implies(f, atom("FLAG"))) or (kind == "name" and not implies(f, f_not(atom("FLAG")))):
                    return "violated", f"`{norm(n, 50)}` re-creates a {kind} filter for a module filter whose identifier_is_regex says otherwise"
    # the loop over the named layers
    outer = loops[:-1]
    layer_vars: set[str] = set()
    for t, _it in outer:
        layer_vars |= target_names(t)
    kind, text = _layer_filters_source(repo, T, pv, mit, layer_vars)
    if kind == "part":
        return "violated", f"only a part of the layer's module filters is lowered (`{text}`): a layer is the union of *all* its listed modules"
    if kind == "unknown":
        return "undecided", f"the module filters iterate over `{text}`, which is not recognised as the filters of the named layer"
    if len(outer) != 1:
        return "undecided", f"{len(outer)} loops around the module-filter loop (expected one loop over the named layers)"
    lt, lit = outer[0]
    # conditions that can drop an element
    loop_vars = layer_vars | mvars | set(alias)
    filters = [c for c, pol in cnds if names_in(c) & loop_vars and cond_origin(pv, c) == "filter"]
    if filters:
        return "violated", f"`{norm(filters[0], 60)}` decides whether a module filter of a named layer is lowered at all: named layers (or some of their modules) can be dropped silently"
    over_param = False
    if p.view is not None and p.binding is not None:
        # the loop ranges over a parameter of the helper; the caller passes (the listified form of) its own parameter
        for q, a in p.binding.items():
            if _derives_from_param(pv, lit, q) and layers_param is not None and _derives_from_param(p.caller or view, a, layers_param):
                over_param = True
    else:
        over_param = layers_param is not None and _derives_from_param(pv, lit, layers_param)
    if not over_param:
        return "undecided", f"the layer loop iterates `{norm(lit, 60)}`, not the layers named in the rule"
    return "ok", ""


# --------------------------------------------------------------------------- Rule side: the regex flag selects the filter class


def _filter_classes(repo: Repo) -> dict[str, str]:
    out = {}
    for n, kind in (("ModuleNameFilter", "name"), ("ModuleNameRegexFilter", "regex"), ("ParentModuleNameFilter", "parent")):
        ci = repo.classes.get(f"{EVAL_ARCH}.{n}")
        if ci is not None:
            out[ci.fq] = kind
    return out


# Components of the module specifications inside the receiving Rule method (and the helpers it uses):
#   SPECS  the sequence of (identifier, is-regex) pairs     SPEC  one pair      NAME / FLAG  its two components
#   NAMES / FLAGS  the two sequences obtained by `zip(*specs)`               ZIPPED  the result of that zip
class Components:
    def __init__(self, ctx: FuncInfo, nodes: list[ast.AST], seeds: dict[str, str]) -> None:
        self.ctx = ctx
        self.env: dict[str, str] = dict(seeds)
        for _ in range(4):
            before = dict(self.env)
            for n in nodes:
                if isinstance(n, (ast.For, ast.AsyncFor, ast.comprehension)):
                    self.bind(n.target, self.elem(self.tag(n.iter)))
                    if isinstance(n.iter, ast.Call) and isinstance(n.iter.func, ast.Name) and n.iter.func.id == "zip" and isinstance(n.target, (ast.Tuple, ast.List)) and len(n.target.elts) == len(n.iter.args) and not any(isinstance(a, ast.Starred) for a in n.iter.args):
                        # for a, b in zip(xs, ys): component-wise
                        for tg, a in zip(n.target.elts, n.iter.args):
                            self.bind(tg, self.elem(self.tag(a)))
                elif isinstance(n, ast.Assign):
                    t = self.tag(n.value)
                    for tg in n.targets:
                        self.bind(tg, t)
                elif isinstance(n, ast.AnnAssign) and n.value is not None:
                    self.bind(n.target, self.tag(n.value))
                elif isinstance(n, ast.NamedExpr):
                    self.bind(n.target, self.tag(n.value))
                elif isinstance(n, ast.Call) and isinstance(n.func, (ast.Name, ast.Lambda)) and not n.keywords:
                    # application of a lambda (directly, or bound to a local / parameter alias once): parameters take the
                    # components of the arguments
                    lam = n.func if isinstance(n.func, ast.Lambda) else self._lambda_of(n.func.id, nodes)
                    if lam is not None and not any(isinstance(a, ast.Starred) for a in n.args):
                        for p_, a in zip([*lam.args.posonlyargs, *lam.args.args], n.args):
                            self.join(f"{p_.arg}@{id(lam)}", self.tag(a))
                elif isinstance(n, (ast.Lambda, ast.FunctionDef)) and n is not getattr(ctx, "node", None):
                    args = n.args
                    pos = [*args.posonlyargs, *args.args]
                    for p_, d in zip(pos[len(pos) - len(args.defaults):], args.defaults):
                        t = self.tag(d)
                        if t:
                            self.env.setdefault(p_.arg, t)
                            if isinstance(n, ast.Lambda):
                                self.env.setdefault(f"{p_.arg}@{id(n)}", t)
                    for p_, d in zip(args.kwonlyargs, args.kw_defaults):
                        if d is not None and self.tag(d):
                            self.env.setdefault(p_.arg, self.tag(d))
            if self.env == before:
                break

    def _lambda_of(self, name: str, nodes: list[ast.AST], depth: int = 0) -> ast.Lambda | None:
        """The one lambda a local name stands for: bound by assignment, or the loop variable over a collection all of whose
        elements are made by one lambda expression (`[lambda n: F(n) for _ in names]`, possibly through zip)."""
        vals = [n.value for n in nodes if isinstance(n, (ast.Assign, ast.AnnAssign)) and n.value is not None and any(isinstance(t, ast.Name) and t.id == name for t in (n.targets if isinstance(n, ast.Assign) else [n.target]))]
        if len(vals) == 1 and isinstance(vals[0], ast.Lambda):
            return vals[0]
        if vals or depth > 3:
            return None
        srcs: list[ast.expr] = []
        for n in nodes:
            if isinstance(n, (ast.For, ast.AsyncFor, ast.comprehension)):
                if isinstance(n.target, ast.Name) and n.target.id == name:
                    srcs.append(n.iter)
                elif isinstance(n.target, (ast.Tuple, ast.List)) and isinstance(n.iter, ast.Call) and isinstance(n.iter.func, ast.Name) and n.iter.func.id == "zip" and len(n.target.elts) == len(n.iter.args):
                    for tg, a in zip(n.target.elts, n.iter.args):
                        if isinstance(tg, ast.Name) and tg.id == name:
                            srcs.append(a)
        if len(srcs) != 1:
            return None
        src = srcs[0]
        while isinstance(src, ast.Call) and isinstance(src.func, ast.Name) and src.func.id in ("list", "tuple", "iter") and len(src.args) == 1:
            src = src.args[0]
        if isinstance(src, ast.Name):
            coll = [n.value for n in nodes if isinstance(n, (ast.Assign, ast.AnnAssign)) and n.value is not None and any(isinstance(t, ast.Name) and t.id == src.id for t in (n.targets if isinstance(n, ast.Assign) else [n.target]))]
            if len(coll) != 1:
                return None
            src = coll[0]
            if isinstance(src, ast.Name):
                return None
        if isinstance(src, (ast.ListComp, ast.GeneratorExp)) and isinstance(src.elt, ast.Lambda):
            return src.elt
        if isinstance(src, (ast.List, ast.Tuple)) and len(src.elts) == 1 and isinstance(src.elts[0], ast.Lambda):
            return src.elts[0]
        if isinstance(src, ast.BinOp) and isinstance(src.op, ast.Mult) and isinstance(src.left, (ast.List, ast.Tuple)) and len(src.left.elts) == 1 and isinstance(src.left.elts[0], ast.Lambda):
            return src.left.elts[0]
        return None

    def join(self, name: str, t: str | None) -> None:
        """A name that receives components from several places: the same component keeps its tag, a name of a regex pair and a
        name of a non-regex pair make a plain NAME, anything else is unknown."""
        if not t:
            return
        old = self.env.get(name)
        if old is None or old == t:
            self.env[name] = t
        elif old.split(":")[0] == t.split(":")[0]:
            self.env[name] = old.split(":")[0]
        else:
            self.env[name] = "?"

    @staticmethod
    def elem(t: str | None) -> str | None:
        base, _, pol = (t or "").partition(":")
        e = {"SPECS": "SPEC", "NAMES": "NAME", "FLAGS": "FLAG", "ENUM-SPECS": "ENUM-SPEC", "FILTERS": "FILTER"}.get(base)
        return f"{e}:{pol}" if e and pol and e in ("NAME", "SPEC") else e

    def _selected(self, e: ast.expr) -> str | None:
        """`[name for name, flag in specs if flag]` / `[spec for spec in specs if not spec[1]]`: the names (pairs) of the pairs
        whose flag is true (NAMES:+ / SPECS:+) resp. false (:-)."""
        if not isinstance(e, (ast.ListComp, ast.GeneratorExp, ast.SetComp)) or len(e.generators) != 1:
            return None
        g = e.generators[0]
        it = self.tag(g.iter)
        if it not in ("SPECS", "SPECS:+", "SPECS:-"):
            return None
        saved = dict(self.env)
        try:
            self.bind(g.target, self.elem(it))
            what = (self.tag(e.elt) or "").split(":")[0]
            pol = it.partition(":")[2]
            if g.ifs:
                f = f_and([to_formula(c, self.flagsub) for c in g.ifs])
                if atoms_of(f) <= {"FLAG"} and atoms_of(f):
                    if implies(f, atom("FLAG")):
                        pol = "+"
                    elif implies(f, f_not(atom("FLAG"))):
                        pol = "-"
                    else:
                        pol = pol
                elif atoms_of(f):
                    return None  # selected by something else: not modelled
        finally:
            self.env = saved
        if what == "NAME":
            return "NAMES" + (f":{pol}" if pol else "")
        if what == "SPEC":
            return "SPECS" + (f":{pol}" if pol else "")
        if what == "FLAG":
            return "FLAGS"
        return None

    def tag(self, e: ast.expr | None) -> str | None:
        if e is None:
            return None
        if isinstance(e, ast.Name):
            # a parameter of an enclosing lambda is that lambda's own (two lambdas may both call theirs `name`)
            node: ast.AST | None = parent(e)
            hops = 0
            while node is not None and hops < 12:
                if isinstance(node, ast.Lambda) and any(a.arg == e.id for a in [*node.args.posonlyargs, *node.args.args, *node.args.kwonlyargs]):
                    t = self.env.get(f"{e.id}@{id(node)}")
                    if t is not None:
                        return None if t == "?" else t
                    break
                node = parent(node)
                hops += 1
            t = self.env.get(e.id)
            return None if t == "?" else t
        if isinstance(e, (ast.ListComp, ast.GeneratorExp, ast.SetComp)):
            return self._selected(e)
        if isinstance(e, ast.Attribute) and self.tag(e.value) == "FILTER":
            return {"identifier_is_regex": "FLAG", "identifier": "NAME", "name": "NAME"}.get(e.attr)
        if isinstance(e, ast.Subscript) and isinstance(e.slice, ast.Constant) and (self.tag(e.value) or "").split(":")[0] == "SPEC":
            comp_ = {0: "NAME", 1: "FLAG", -1: "FLAG", -2: "NAME"}.get(e.slice.value)
            pol_ = (self.tag(e.value) or "").partition(":")[2]
            return f"{comp_}:{pol_}" if comp_ == "NAME" and pol_ else comp_
        if isinstance(e, ast.Subscript) and isinstance(e.slice, ast.Slice):
            return self.tag(e.value)
        if isinstance(e, ast.Subscript) and isinstance(e.slice, ast.Constant) and self.tag(e.value) == "ZIPPED":
            return {0: "NAMES", 1: "FLAGS"}.get(e.slice.value)
        if isinstance(e, ast.Subscript):
            return self.elem(self.tag(e.value))
        if isinstance(e, ast.IfExp):
            return self.tag(e.body) or self.tag(e.orelse)
        if isinstance(e, ast.Call) and isinstance(e.func, ast.Name):
            f = e.func.id
            if f in ("list", "tuple", "sorted", "reversed", "iter") and e.args:
                return self.tag(e.args[0])
            if f == "enumerate" and e.args and self.tag(e.args[0]) == "SPECS":
                return "ENUM-SPECS"
            if f == "zip" and len(e.args) == 1 and isinstance(e.args[0], ast.Starred) and self.tag(e.args[0].value) == "SPECS":
                return "ZIPPED"
            if f == "zip" and len(e.args) == 2 and self.tag(e.args[0]) == "NAMES" and self.tag(e.args[1]) == "FLAGS":
                return "SPECS"
            if f == "bool" and e.args and self.tag(e.args[0]) == "FLAG":
                return "FLAG"
        return None

    def bind(self, target: ast.expr, t: str | None) -> None:
        if isinstance(target, ast.Name):
            if t:
                self.env.setdefault(target.id, t)
        elif isinstance(target, (ast.Tuple, ast.List)) and len(target.elts) == 2:
            a, b = target.elts
            if t and t.split(":")[0] == "SPEC":
                pol = t.partition(":")[2]
                self.bind(a, "NAME" + (f":{pol}" if pol else ""))
                self.bind(b, "FLAG")
            elif t == "ZIPPED":
                self.bind(a, "NAMES")
                self.bind(b, "FLAGS")
            elif t == "ENUM-SPEC":
                self.bind(b, "SPEC")

    def flagsub(self, e: ast.expr):
        if self.tag(e) == "FLAG":
            return atom("FLAG")
        if isinstance(e, ast.Compare) and len(e.ops) == 1 and self.tag(e.left) == "FLAG" and isinstance(e.comparators[0], ast.Constant) and isinstance(e.comparators[0].value, bool):
            pos = isinstance(e.ops[0], (ast.Is, ast.Eq)) == bool(e.comparators[0].value)
            return atom("FLAG") if pos else f_not(atom("FLAG"))
        return None


def _nodes_of(ctx: FuncInfo) -> list[ast.AST]:
    if hasattr(ctx, "base"):
        return list(all_nodes(ctx))
    if isinstance(ctx.node, ast.Lambda):
        return list(ast.walk(ctx.node.body))
    return [x for st in ctx.node.body for x in ast.walk(st)]


def _maker_sites(repo: Repo, T, ctx: FuncInfo, node_iter, classes: dict[str, str], comp: Components, pre, depth: int, out: list) -> None:
    """Collects (kind, formula, node, ctx) for every place a module filter is created in `ctx` (and in helpers it calls).
    `pre` is the formula under which `ctx` itself runs (conditions of the call sites passed through so far)."""
    if depth > 4:
        return
    flagsub = comp.flagsub
    for n in node_iter:
        if isinstance(n, ast.Call):
            src = getattr(n, "_src", None)
            c_ctx, orig = src if src is not None else (ctx, n)
            ci = None
            try:
                ci = T.ctor_class(c_ctx, orig)
            except Exception:  # noqa: BLE001
                ci = None
            if ci is not None and ci.fq in classes:
                if _direct_ref(repo, T, c_ctx, orig.func):
                    f_site = _site_formula(ctx, n, pre, flagsub)
                    # the pair the created filter belongs to: a name taken from the pairs whose flag is known (a partition of
                    # the pairs by the flag) carries that knowledge; a name of unknown provenance carries none
                    name_arg = n.args[0] if n.args else next((k.value for k in n.keywords if k.arg in ("name", "identifier", "parent_module")), None)
                    nt = comp.tag(name_arg) if name_arg is not None else None
                    kind = classes[ci.fq]
                    if nt in ("NAME:+", "NAME:-"):
                        f_site = f_and([f_site, atom("FLAG") if nt.endswith("+") else f_not(atom("FLAG"))])
                    elif nt is None and kind in ("regex", "name") and "FLAG" not in atoms_of(f_site) and getattr(comp, "track_names", False):
                        kind = "untracked:" + kind
                    out.append((kind, f_site, n, ctx))
                # else: a class held in a variable / table is called - the places where it was chosen are the sites
                continue
            # helper that creates the filter (not inlined because it sits in an expression): follow it with the components of
            # its arguments
            callee, seeds = None, {}
            fname = (repo.resolve_name(c_ctx.module, orig.func) or "") if isinstance(orig.func, (ast.Name, ast.Attribute)) else ""
            if fname == "functools.partial" and n.args:
                callee = _fn_of(T, c_ctx, orig.args[0])
                if callee is not None:
                    seeds = _seed(callee, list(n.args[1:]), n.keywords, comp)
            elif isinstance(orig.func, ast.Name) and orig.func.id == "map" and len(n.args) == 2 and "map" not in T.locals(c_ctx):
                callee = _fn_of(T, c_ctx, orig.args[0])
                if callee is not None:
                    ps = _positional(callee)
                    el = comp.elem(comp.tag(n.args[1]))
                    seeds = {ps[0]: el} if ps and el else {}
            elif isinstance(orig.func, (ast.Name, ast.Attribute)) and (orig.func.id if isinstance(orig.func, ast.Name) else orig.func.attr) == "starmap" and len(n.args) == 2:
                # starmap(factory, specs): factory(*spec) for every (identifier, is-regex) pair
                callee = _fn_of(T, c_ctx, orig.args[0])
                if callee is not None and comp.elem(comp.tag(n.args[1])) == "SPEC":
                    ps = _positional(callee)
                    seeds = {p_: t_ for p_, t_ in zip(ps, ("NAME", "FLAG"))}
            else:
                try:
                    cs, how = T.callees(c_ctx, orig, byname_fallback=False)
                except Exception:  # noqa: BLE001
                    cs, how = [], ""
                cs = [c for c in cs if not c.is_abstract]
                if len(cs) == 1 and how == "repo" and not isinstance(cs[0].node, ast.Lambda):
                    callee = cs[0]
                    seeds = _seed(callee, list(n.args), n.keywords, comp)
            if callee is not None and not isinstance(callee.node, ast.Lambda) and any(isinstance(x, ast.Call) and _ctor_kind(repo, T, callee, x, classes) for x in ast.walk(callee.node)):
                nodes = _nodes_of(callee)
                sub = Components(callee, nodes, seeds)
                here = f_and([pre, conds_formula(_site_conds(ctx, n), flagsub)])
                _maker_sites(repo, T, callee, nodes, classes, sub, here, depth + 1, out)
        elif isinstance(n, (ast.Attribute, ast.Name)) and isinstance(n.ctx, ast.Load) and not (isinstance(parent(n), ast.Call) and parent(n).func is n):
            # a *direct* reference to a filter class / factory function / bound method that is called later (a local variable
            # holding such a reference is not a site of its own: the places where it was bound are)
            src = getattr(n, "_src", None)
            c_ctx, orig = src if src is not None else (ctx, n)
            if not _direct_ref(repo, T, c_ctx, orig):
                continue
            p = parent(n)
            if isinstance(p, ast.Call) and p.args and p.args[0] is n and (p.func.id if isinstance(p.func, ast.Name) else getattr(p.func, "attr", "")) in ("map", "partial", "starmap"):
                continue  # handled with the call
            try:
                t = T.expr(c_ctx, orig)
            except Exception:  # noqa: BLE001
                continue
            for m in members(t):
                kind = None
                if m[0] == "fn" and isinstance(m[1], FuncInfo) and not isinstance(m[1].node, ast.Lambda):
                    kinds = {_ctor_kind(repo, T, m[1], x, classes) for x in ast.walk(m[1].node) if isinstance(x, ast.Call)} - {None}
                    rets = [r for r in own_nodes(m[1].node) if isinstance(r, ast.Return)]
                    if len(kinds) == 1 and len(rets) == 1:
                        kind = kinds.pop()
                elif m[0] == "type" and m[1] in classes:
                    kind = classes[m[1]]
                if kind is None:
                    continue
                sel = _selector_formula(ctx, n, flagsub)
                if sel == "unknown":
                    out.append(("unknown", None, n, ctx))
                else:
                    f = _site_formula(ctx, n, pre, flagsub)
                    out.append((kind, f if sel is None else f_and([f, sel]), n, ctx))


def _fn_of(T, ctx: FuncInfo, e: ast.expr) -> FuncInfo | None:
    try:
        t = T.expr(ctx, e)
    except Exception:  # noqa: BLE001
        return None
    fs = [m[1] for m in members(t) if m[0] == "fn"]
    return fs[0] if len(fs) == 1 else None


def _positional(callee: FuncInfo) -> list[str]:
    a = callee.node.args
    pos = [p.arg for p in [*a.posonlyargs, *a.args]]
    if callee.cls is not None and callee.outer is None and not callee.is_staticmethod and pos:
        pos = pos[1:]
    return pos


def _seed(callee: FuncInfo, args: list, keywords: list, comp: Components) -> dict[str, str]:
    out: dict[str, str] = {}
    for p_, a in zip(_positional(callee), args):
        if not isinstance(a, ast.Starred) and comp.tag(a):
            out[p_] = comp.tag(a)
    for k in keywords:
        if k.arg and comp.tag(k.value):
            out[k.arg] = comp.tag(k.value)
    return out


def _direct_ref(repo: Repo, T, c_ctx: FuncInfo, e: ast.expr) -> bool:
    """The expression names a class / function itself (module-level name, import, `self.method`), not a variable holding one."""
    if isinstance(e, ast.Name):
        if not isinstance(c_ctx.node, ast.Lambda) and e.id in T.locals(c_ctx) and e.id not in c_ctx.module.classes and e.id not in c_ctx.module.imports and e.id not in c_ctx.module.functions:
            return False
        f = c_ctx.outer
        while f is not None:
            if not isinstance(f.node, ast.Lambda) and e.id in T.locals(f) and e.id not in c_ctx.module.classes and e.id not in c_ctx.module.imports:
                return False
            f = f.outer
        fq = repo.resolve_name(c_ctx.module, e)
        return e.id in c_ctx.module.classes or e.id in c_ctx.module.functions or (fq is not None and (fq in repo.classes or fq.rpartition(".")[0] in repo.modules))
    if isinstance(e, ast.Attribute) and isinstance(e.value, ast.Name):
        return e.value.id in ("self", "cls") or e.value.id in c_ctx.module.classes or e.value.id in c_ctx.module.imports
    return False


def _selector_formula(ctx: FuncInfo, n: ast.AST, flagsub):
    """A class / factory stored in a literal table `{True: A, False: B}` / `(B, A)` is selected by the subscript of the table:
    formula under which this entry is picked; None when `n` is not a table entry; 'unknown' when the selection was not found."""
    p = parent(n)
    want = None
    if isinstance(p, ast.Dict) and n in p.values:
        k = p.keys[p.values.index(n)]
        if isinstance(k, ast.Constant) and isinstance(k.value, (bool, int)) and k.value in (0, 1, True, False):
            want = bool(k.value)
        else:
            return "unknown"
    elif isinstance(p, (ast.Tuple, ast.List)) and n in p.elts and len(p.elts) == 2 and isinstance(parent(p), (ast.Subscript, ast.Assign, ast.AnnAssign)):
        want = bool(p.elts.index(n))
    else:
        return None
    selectors: list[ast.expr] = []
    gp = parent(p)
    if isinstance(gp, ast.Subscript) and gp.value is p:
        selectors.append(gp.slice)
    elif isinstance(gp, (ast.Assign, ast.AnnAssign)):
        tgt = gp.targets[0] if isinstance(gp, ast.Assign) else gp.target
        if isinstance(tgt, ast.Name):
            for x in all_nodes(ctx):
                if isinstance(x, ast.Subscript) and isinstance(x.ctx, ast.Load) and isinstance(x.value, ast.Name) and x.value.id == tgt.id:
                    selectors.append(x.slice)
                elif isinstance(x, ast.Call) and isinstance(x.func, ast.Attribute) and x.func.attr == "get" and isinstance(x.func.value, ast.Name) and x.func.value.id == tgt.id and x.args:
                    selectors.append(x.args[0])
    if not selectors:
        return "unknown"
    from core.guards import f_or

    fs = [to_formula(sel, flagsub) for sel in selectors]
    f = f_or(fs) if want else f_and([f_not(x) for x in fs])
    return f if len(selectors) == 1 else (f_or(fs) if want else f_or([f_not(x) for x in fs]))


def _ctor_kind(repo: Repo, T, ctx: FuncInfo, call: ast.Call, classes: dict[str, str]) -> str | None:
    try:
        ci = T.ctor_class(ctx, call)
    except Exception:  # noqa: BLE001
        return None
    return classes.get(ci.fq) if ci is not None else None


def _bind_args(callee: FuncInfo, call: ast.Call) -> dict[str, ast.expr] | None:
    a = callee.node.args
    if a.vararg or a.kwarg or any(isinstance(x, ast.Starred) for x in call.args) or any(k.arg is None for k in call.keywords):
        return None
    pos = [p.arg for p in [*a.posonlyargs, *a.args]]
    if callee.cls is not None and callee.outer is None and not callee.is_staticmethod and pos:
        pos = pos[1:]
    if len(call.args) > len(pos):
        return None
    out = dict(zip(pos, call.args))
    for k in call.keywords:
        out[k.arg] = k.value
    return out


def _site_conds(ctx: FuncInfo, node: ast.AST) -> list:
    return list(conds(ctx, node))


def _site_formula(ctx: FuncInfo, node: ast.AST, pre, flagsub):
    return f_and([pre, conds_formula(_site_conds(ctx, node), flagsub)])


def check_filter_selection(repo: Repo, res: Result, receiver: FuncInfo | None) -> None:
    """In the Rule method that receives the (identifier, is-regex) pairs, a regex filter is created only for a true flag and a
    name filter only for a false one."""
    T = types_of(repo)
    rule = repo.cls(RULE, "Rule")
    classes = _filter_classes(repo)
    if receiver is None:
        return
    construct = f"{receiver.relpath}::{receiver.qualname}::regex flag selects the filter class"
    rule_mro = {c.fq for c in repo.mro(rule)}
    view = dview(repo, receiver, rule, family(repo, rule), tag="rule")
    params = [p for p in receiver.param_names if p not in ("self", "cls")]
    if not params:
        res.undecide("C05.R1", construct, "the receiving Rule method has no parameter for the module specifications", where(receiver, receiver.node))
        return
    nodes = list(all_nodes(view))
    mode = getattr(receiver, "c05_mode", "SPECS")
    if mode == "UNDECIDED":
        # the lowering on the LayerRule side was left undecided (already reported): whether pairs or filter objects arrive here
        # is not known, so a missing filter construction is no evidence of anything
        return
    comp = Components(view, nodes, {params[0]: mode})
    comp.track_names = True  # type: ignore[attr-defined]
    sites: list = []
    from core.guards import TRUE

    _maker_sites(repo, T, view, nodes, classes, comp, TRUE, 0, sites)
    untracked = [(k, n) for k, _f, n, _c in sites if k.startswith("untracked:")]
    if untracked:
        # a filter is created from a name whose pair (and therefore whose flag) the analysis lost track of: neither "selected by
        # the flag" nor "not selected by the flag" is established
        res.undecide("C05.R1", construct, f"`{norm(untracked[0][1], 60)}` creates a {untracked[0][0].split(':')[1]} filter from a name whose (identifier, is-regex) pair could not be followed, and no test of the flag guards it", where_of(view, untracked[0][1]))
        return
    kinds = {k for k, _f, _n, _c in sites}
    if mode == "FILTERS" and not sites:
        res.add("C05.R1", construct, True, "the layer's own module filters are taken over as they are (their kind is preserved)", where(receiver, receiver.node), kind="structural")
        return
    if not any("FLAG" in atoms_of(f) for _k, f, _n, _c in sites if f is not None) and ("regex" in kinds and "name" in kinds) and "FLAG" not in comp.env.values():
        res.undecide("C05.R1", construct, f"cannot find where the (identifier, is-regex) pairs of `{params[0]}` are taken apart", where(receiver, receiver.node))
        return
    unknown = [n for k, _f, n, _c in sites if k == "unknown"]
    if unknown:
        res.undecide("C05.R1", construct, f"a filter class is kept in a table (`{norm(parent(unknown[0]), 60)}`) whose selection by the is-regex flag was not found", where_of(view, unknown[0]))
        return
    if "regex" not in kinds or "name" not in kinds:
        missing = sorted({"regex", "name"} - kinds)
        res.add("C05.R1", construct, False, f"no {' / '.join(missing)} filter is created from the (identifier, is-regex) pairs: the regex flag does not select ModuleNameRegexFilter vs ModuleNameFilter", where(receiver, receiver.node), kind="structural")
        return
    bad = []
    for kind, f, n, c in sites:
        if not satisfiable(f):
            continue
        if kind == "regex" and not implies(f, atom("FLAG")):
            bad.append(f"`{norm(n, 50)}` creates a regex filter although the is-regex flag may be false")
        elif kind == "name" and not implies(f, f_not(atom("FLAG"))):
            bad.append(f"`{norm(n, 50)}` creates a name filter although the is-regex flag may be true")
        elif kind == "parent":
            bad.append(f"`{norm(n, 50)}` creates a parent-module filter from a layer's (identifier, is-regex) pair")
    ok = not bad
    res.add("C05.R1", construct, ok, "regex modules become regex filters, named modules name filters" if ok else "the regex flag does not select ModuleNameRegexFilter vs ModuleNameFilter: " + "; ".join(bad[:2]), where(receiver, receiver.node), kind="dominance")


def _mentions_param(view: FuncInfo, e: ast.AST, param: str, depth: int = 0, seen: frozenset = frozenset()) -> bool:
    """The value is computed from the parameter (through locals, loops and comprehensions)."""
    if depth > 6:
        return False
    from .c05_views import assignments_of, stores_of

    for x in ast.walk(e):
        if not (isinstance(x, ast.Name) and isinstance(x.ctx, ast.Load)):
            continue
        if x.id == param:
            return True
        if x.id in seen or x.id in ("self", "cls"):
            continue
        for st in stores_of(view, x.id):
            p_ = parent(st)
            while isinstance(p_, (ast.Tuple, ast.List, ast.Starred)):
                p_ = parent(p_)
            src = None
            if isinstance(p_, (ast.Assign, ast.AnnAssign, ast.AugAssign, ast.NamedExpr)):
                src = p_.value
            elif isinstance(p_, (ast.For, ast.AsyncFor, ast.comprehension)):
                src = p_.iter
            if src is not None and _mentions_param(view, src, param, depth + 1, seen | {x.id}):
                return True
    return False


def check_handoff_accumulates(repo: Repo, res: Result, receiver: FuncInfo | None) -> None:
    """What the wrapped rule receives for one `are_named` call ends up in its configuration *as a whole*: a configuration field
    that is assigned filters made from the hand-over is not assigned again, on the same path, by a statement that does not take
    the field's current content along (second group overwrites the first; a loop keeps the last element only)."""
    if receiver is None:
        return
    from core.cfg import CFG
    import networkx as nx

    rule = repo.cls(RULE, "Rule")
    view = dview(repo, receiver, rule, family(repo, rule), tag="rule")
    params = [p for p in receiver.param_names if p not in ("self", "cls")]
    if not params or isinstance(view.node, ast.Lambda):
        return
    param = params[0]
    stores: dict[str, list[tuple[ast.stmt, ast.expr, ast.expr]]] = {}
    for n in all_nodes(view):
        if isinstance(n, (ast.Assign, ast.AnnAssign)) and n.value is not None:
            for t in (n.targets if isinstance(n, ast.Assign) else [n.target]):
                root = t
                while isinstance(root, ast.Attribute):
                    root = root.value
                if isinstance(t, ast.Attribute) and isinstance(root, ast.Name) and root.id in ("self", "cls") and _mentions_param(view, n.value, param):
                    stores.setdefault(norm(t), []).append((n, t, n.value))
    if not stores:
        return
    try:
        cfg = CFG(view.node)
    except Exception:  # noqa: BLE001
        return

    def takes_along(value: ast.expr, text: str) -> bool:
        for x in ast.walk(value):
            if isinstance(x, ast.Attribute) and isinstance(x.ctx, ast.Load) and norm(x) == text:
                return True
            if isinstance(x, ast.Name) and isinstance(x.ctx, ast.Load):
                v = single_value(view, x)
                if v is not x and any(isinstance(y, ast.Attribute) and norm(y) == text for y in ast.walk(v)):
                    return True
        return False

    def guarded_by_field(st: ast.stmt, text: str) -> bool:
        return any(any(isinstance(y, ast.Attribute) and norm(y) == text for y in ast.walk(c)) for c, _pol in conds(view, st))

    construct = f"{receiver.relpath}::{receiver.qualname}::everything handed over is kept"
    bad = None
    for text, sts in stores.items():
        for i, (s1, _t1, _v1) in enumerate(sts):
            # (a) inside a loop over the hand-over: the next iteration assigns again
            loop = next((a for a in _ancestors(s1) if isinstance(a, (ast.For, ast.AsyncFor, ast.While)) and a is not view.node), None)
            if loop is not None and not isinstance(loop, ast.While) and _mentions_param(view, loop.iter, param) and not takes_along(_v1, text) and not guarded_by_field(s1, text):
                bad = bad or (s1, s1, text, "every iteration of the loop assigns the field anew: only the filters of the last iteration are kept")
            for s2, _t2, v2 in sts[i + 1:]:
                if s1 is s2 or takes_along(v2, text) or guarded_by_field(s2, text):
                    continue
                if s1 not in cfg.g or s2 not in cfg.g or not nx.has_path(cfg.g, s1, s2):
                    continue
                if not satisfiable(conds_formula(list(conds(view, s1)) + list(conds(view, s2)), lambda e: None)):
                    continue
                bad = bad or (s1, s2, text, f"`{norm(s2, 70)}` replaces what `{norm(s1, 70)}` stored on the same path: the module filters of the first group of named layers are lost")
    if bad is not None:
        s1, s2, text, why = bad
        res.add("C05.R1", key_of(repo, view, s2, " [hand-over overwritten]"), False, f"`{text}` receives module filters made from the layers handed over, but {why}", where_of(view, s2), kind="flow")
    else:
        res.add("C05.R1", construct, True, f"{sum(len(v) for v in stores.values())} assignment(s) of hand-over-derived filters to configuration fields; none is overwritten on the same path", where(receiver, receiver.node), kind="flow")


def _ancestors(n: ast.AST):
    from core.loader import ancestors

    return ancestors(n)


# --------------------------------------------------------------------------- layers_that: the wrapped rule judges with the layer matcher


def layer_matcher_factory(repo: Repo) -> dict:
    """How `LayerRule.layers_that` equips the wrapped Rule with a matcher.  Whatever the spelling of the factory handed to
    `Rule(...)` - functools.partial, lambda, bound method, nested function, module-level function - the analysis looks at the
    *constructions of a matcher* the factory performs when it is called:

      status   'ok' | 'violated' | 'undecided'        detail  explanation        node / view  where
      kept     name of the field in which the factory keeps the matcher it built (the same matcher serves later evaluations), or None
    """
    key = ("c05-matcher-factory", id(repo))
    cache = repo.__dict__.setdefault("_c05_cache", {})
    if key in cache:
        return cache[key]
    out = cache[key] = _layer_matcher_factory(repo)
    return out


def _layer_matcher_factory(repo: Repo) -> dict:
    from core.guards import TRUE

    from .common import guard_formula

    T = types_of(repo)
    lr = repo.cls(LAYER_RULE, "LayerRule")
    rule = repo.cls(RULE, "Rule")
    m = repo.lookup_method(lr, "layers_that")
    if m is None or m.is_abstract:
        return {"status": "violated", "detail": "LayerRule.layers_that no longer exists", "view": None, "node": None, "kept": None, "method": None}
    view = dview(repo, m, lr, family(repo, lr), tag="lr")
    base = {"view": view, "node": m.node, "kept": None, "method": m}
    ctors = []
    for n in all_nodes(view):
        if isinstance(n, ast.Call):
            src = getattr(n, "_src", None)
            ctx, orig = src if src is not None else (view, n)
            try:
                ci = T.ctor_class(ctx, orig)
            except Exception:  # noqa: BLE001
                ci = None
            if ci is not None and ci.fq == rule.fq:
                ctors.append(n)
    if len(ctors) != 1:
        return {**base, "status": "undecided", "detail": f"{len(ctors)} constructions of Rule in the inlined view of layers_that (expected one)"}
    c = ctors[0]
    base["node"] = c
    arg = next((k.value for k in c.keywords if k.arg and "matcher" in k.arg), None) or (c.args[0] if c.args else None)
    if arg is None:
        return {**base, "status": "violated", "detail": "the wrapped Rule is built with the default (module) matcher: the lenient one-unit-per-layer judgement is not applied"}
    v = single_value(view, arg)

    def typ(fv: FuncInfo, x: ast.expr):
        src = getattr(x, "_src", None)
        ctx, orig = src if src is not None else (fv, x)
        try:
            return T.expr(ctx, orig)
        except Exception:  # noqa: BLE001
            return None

    def is_layer_mapping(fv: FuncInfo, x: ast.expr) -> bool:
        x = single_value(fv, x)
        if isinstance(x, ast.Attribute) and x.attr == "layer_mapping":
            return True
        t = typ(fv, x)
        return t is not None and any(mm[0] == "cls" and mm[1].endswith(".LayerMapping") for mm in members(t))

    def is_matcher_class(fv: FuncInfo, x: ast.expr) -> bool | None:
        x = single_value(fv, x)
        t = typ(fv, x)
        kinds = [mm for mm in members(t) if mm[0] == "type"] if t is not None else []
        if not kinds:
            return None
        names_ = {mm[1].rsplit(".", 1)[-1] for mm in kinds}
        if not any(repo.classes.get(mm[1]) is not None and any(c_.name == "RuleMatcher" for c_ in repo.mro(repo.classes[mm[1]])) for mm in kinds):
            return None
        return "LayerRuleMatcher" in names_ or any(n_ not in ("DefaultRuleMatcher", "RuleMatcher") for n_ in names_)

    # ---- the constructions of a matcher performed by the factory: (view they live in, call, arguments incl. bound ones)
    builds: list[tuple[FuncInfo, ast.expr, list[ast.expr]]] = []
    fview: FuncInfo | None = None
    spelling = ""
    if isinstance(v, ast.Call) and (v.func.attr if isinstance(v.func, ast.Attribute) else getattr(v.func, "id", "")) == "partial" and v.args:
        spelling = "partial"
        builds.append((view, v.args[0], [*v.args[1:], *[k.value for k in v.keywords]]))
    elif isinstance(v, ast.Lambda):
        spelling = "lambda"
        for x in ast.walk(v.body):
            if isinstance(x, ast.Call) and is_matcher_class(view, x.func) is not None:
                builds.append((view, x.func, [*x.args, *[k.value for k in x.keywords]]))
        if not builds and isinstance(v.body, ast.Call):
            builds.append((view, v.body.func, [*v.body.args, *[k.value for k in v.body.keywords]]))
    else:
        fn: FuncInfo | None = None
        if isinstance(v, ast.Attribute) and isinstance(v.value, ast.Name) and v.value.id == (m.param_names[0] if m.param_names else "self"):
            fn = repo.lookup_method(lr, v.attr)
        if fn is None:
            t = typ(view, v)
            fs = [mm[1] for mm in members(t) if mm[0] == "fn"] if t is not None else []
            fn = fs[0] if len(fs) == 1 else None
        if fn is None or isinstance(fn.node, ast.Lambda):
            mc = is_matcher_class(view, v)
            if mc is not None:
                return {**base, "status": "violated", "detail": f"the wrapped Rule is built with `{norm(v, 40)}` itself: " + ("the matcher is not bound to the layer mapping of the architecture" if mc else "not the layer matcher - the one-unit-per-layer judgement is not applied")}
            return {**base, "status": "undecided", "detail": f"cannot resolve the matcher factory `{norm(v, 60)}` handed to the wrapped Rule"}
        spelling = f"`{fn.qualname}`"
        fview = dview(repo, fn, lr if fn.cls is not None else None, family(repo, lr), tag="lr")
        for x in all_nodes(fview):
            if isinstance(x, ast.Call) and is_matcher_class(fview, x.func) is not None:
                builds.append((fview, x.func, [*x.args, *[k.value for k in x.keywords]]))
        # does the factory keep what it built?  (returns a field that is only filled while it is still empty / never here)
        decos = set(fn.decorators)
        if decos & {"cache", "lru_cache", "cached_property"}:
            base["kept"] = f"{fn.name} (memoised by functools)"
        selfname = fn.param_names[0] if fn.param_names and fn.cls is not None else None
        for r in [x for x in all_nodes(fview) if isinstance(x, ast.Return) and x.value is not None]:
            for _cs, rv in value_cases(fview, r.value):
                if selfname and isinstance(rv, ast.Attribute) and isinstance(rv.value, ast.Name) and rv.value.id == selfname:
                    stores = [x for x in all_nodes(fview) if isinstance(x, ast.Attribute) and isinstance(x.ctx, ast.Store) and norm(x) == norm(rv)]
                    if not any(implies(TRUE, guard_formula(fview, st)) for st in stores):
                        base["kept"] = rv.attr
    if not builds:
        return {**base, "status": "undecided", "detail": f"no construction of a matcher found in the factory ({spelling}) handed to the wrapped Rule"}
    bad_cls = [(fv, f) for fv, f, _a in builds if is_matcher_class(fv, f) is False]
    if bad_cls:
        return {**base, "status": "violated", "detail": f"the wrapped Rule is built with `{norm(bad_cls[0][1], 40)}`, not with the layer matcher: the one-unit-per-layer judgement is not applied"}
    unbound = [(fv, f) for fv, f, a in builds if not any(is_layer_mapping(fv, x) for x in a)]
    if unbound:
        return {**base, "status": "violated", "detail": "the matcher of the wrapped Rule is not bound to the layer mapping of the architecture"}
    if any(is_matcher_class(fv, f) is None for fv, f, _a in builds):
        return {**base, "status": "undecided", "detail": f"cannot tell which matcher class `{norm(builds[0][1], 40)}` denotes"}
    return {**base, "status": "ok", "detail": f"the wrapped Rule judges with the configured layer matcher, bound to the architecture's layer mapping (factory: {spelling}" + (f", which keeps the matcher in `{base['kept']}`" if base["kept"] else "") + ")"}


def check_matcher_wiring(repo: Repo, res: Result) -> None:
    """`layers_that` builds the wrapped Rule with the configured (layer) matcher class bound to the layer mapping of the
    architecture: without it the module rule is judged per module, not per layer."""
    lr = repo.cls(LAYER_RULE, "LayerRule")
    construct = f"{lr.module.relpath}::LayerRule.layers_that::matcher bound to the layer mapping"
    info = layer_matcher_factory(repo)
    wh = where_of(info["view"], info["node"]) if info["view"] is not None and info["node"] is not None else ""
    if info["status"] == "undecided":
        res.undecide("C05.R1", construct, info["detail"], wh)
    else:
        res.add("C05.R1", construct, info["status"] == "ok", info["detail"], wh, kind="flow")


# --------------------------------------------------------------------------- the layer mapping a rule evaluates with is current


MUTATING = {"update", "setdefault", "pop", "popitem", "clear", "__setitem__", "__delitem__"}


def check_layer_mapping_current(repo: Repo, res: Result) -> None:
    """The `LayerMapping` a LayerRule binds its matcher to is derived from the architecture's *current* layer definition: if the
    provider (`LayeredArchitecture.layer_mapping`) serves stored state that is a snapshot of the definition, every public method
    that assigns modules to a layer must invalidate or refresh that state."""
    T = types_of(repo)
    arch = repo.cls(LAYER_RULE, "LayeredArchitecture")
    lmap = repo.classes.get(f"{EVAL_ARCH}.LayerMapping")
    provider = repo.lookup_method(arch, "layer_mapping")
    construct = f"{arch.module.relpath}::LayeredArchitecture.layer_mapping::derived from the current layer definition"
    if provider is None or lmap is None:
        res.undecide("C05.R2", construct, "LayeredArchitecture.layer_mapping (the mapping LayerRule.layers_that binds the matcher to) not found", where(arch.methods.get("__init__") or next(iter(arch.methods.values())), arch.node))
        return
    fam = family(repo, arch)
    pv = dview(repo, provider, arch, fam, tag="arch")
    selfname = provider.param_names[0] if provider.param_names else "self"

    def self_field(e: ast.expr) -> str | None:
        return e.attr if isinstance(e, ast.Attribute) and isinstance(e.value, ast.Name) and e.value.id == selfname else None

    def is_ctor(e: ast.expr, view: FuncInfo) -> bool:
        if not isinstance(e, ast.Call):
            return False
        src = getattr(e, "_src", None)
        ctx, orig = src if src is not None else (view, e)
        try:
            ci = T.ctor_class(ctx, orig)
        except Exception:  # noqa: BLE001
            return False
        return ci is not None and ci.fq == lmap.fq

    # ---- what the provider returns: a mapping built now, or stored state
    cached: set[str] = set()
    ctors: list[ast.Call] = []
    for n in all_nodes(pv):
        if isinstance(n, ast.Return) and n.value is not None:
            for _cs, v in value_cases(pv, n.value):
                f = self_field(v)
                if f is not None:
                    cached.add(f)
                elif is_ctor(v, pv):
                    ctors.append(v)
        if isinstance(n, ast.Call) and is_ctor(n, pv):
            ctors.append(n)
    memoised = any(d in ("cached_property", "cache", "lru_cache") for d in provider.decorators)
    if memoised:
        cached.add(provider.name)  # functools keeps the first result: `del self.<name>` / cache_clear() are the invalidations
    if not cached:
        res.add("C05.R2", construct, True, "the layer mapping is built from the layer definition on every access", where(provider, provider.node), kind="flow")
        return
    # ---- the container of the layer definition: what the LayerMapping is constructed from
    containers: set[str] = set()
    copied_by_provider = False
    for c in ctors:
        for a in [*c.args, *[k.value for k in c.keywords]]:
            f = self_field(single_value(pv, a))
            if f is not None:
                containers.add(f)
            else:
                for x in ast.walk(a):
                    f = self_field(x)
                    if f is not None and f not in cached:
                        containers.add(f)
                        copied_by_provider = True
    if not containers:
        res.undecide("C05.R2", construct, f"`{', '.join(sorted(cached))}` is served as the layer mapping, but the layer definition it is built from was not found", where(provider, provider.node))
        return
    # ---- is the stored mapping a live view of the definition, or a snapshot?
    snapshot = copied_by_provider
    init = repo.lookup_method(lmap, "__init__")
    if init is not None and not snapshot:
        iv = dview(repo, init, lmap, family(repo, lmap), tag="lmap")
        param = init.param_names[1] if len(init.param_names) > 1 else None
        read: set[str] = set()
        for nm in ("all_layers", "get_module_filters"):
            m = repo.lookup_method(lmap, nm)
            if m is not None:
                mv = dview(repo, m, lmap, family(repo, lmap), tag="lmap")
                for x in all_nodes(mv):
                    if isinstance(x, ast.Attribute) and isinstance(x.value, ast.Name) and x.value.id == m.param_names[0] and isinstance(x.ctx, ast.Load):
                        read.add(x.attr)
        for x in all_nodes(iv):
            if isinstance(x, (ast.Assign, ast.AnnAssign)) and x.value is not None:
                tg = x.targets[0] if isinstance(x, ast.Assign) else x.target
                if isinstance(tg, ast.Attribute) and isinstance(tg.value, ast.Name) and tg.value.id == init.param_names[0] and tg.attr in read:
                    v = single_value(iv, x.value)
                    if not (isinstance(v, ast.Name) and v.id == param):
                        snapshot = True
    if not snapshot:
        res.add("C05.R2", construct, True, f"`{', '.join(sorted(cached))}` is kept, but the mapping is a live view of the layer definition (all_layers / get_module_filters read the architecture's own dictionary)", where(provider, provider.node), kind="flow")
        return
    # ---- every public method that assigns modules to a layer invalidates / refreshes the stored mapping
    lacking: list[str] = []
    writers = 0
    for c in repo.mro(arch):
        for name, m in c.methods.items():
            if name.startswith("_") or m.is_property or m.is_abstract or repo.lookup_method(arch, name) is not m:
                continue
            mv = dview(repo, m, arch, fam, tag="arch")
            sn = m.param_names[0] if m.param_names else "self"
            writes: list[ast.AST] = []
            resets: list[ast.AST] = []
            for x in all_nodes(mv):
                if isinstance(x, (ast.Assign, ast.AugAssign, ast.AnnAssign)):
                    tgs = x.targets if isinstance(x, ast.Assign) else [x.target]
                    val = x.value
                    for tg in tgs:
                        base = tg
                        while isinstance(base, ast.Subscript):
                            base = base.value
                        if isinstance(base, ast.Attribute) and isinstance(base.value, ast.Name) and base.value.id == sn:
                            if base.attr in containers and val is not None and not _empty_value(val):
                                writes.append(x)
                            elif base.attr in cached and tg is base:
                                resets.append(x)
                elif isinstance(x, ast.Call) and isinstance(x.func, ast.Attribute) and x.func.attr in MUTATING:
                    b = x.func.value
                    if isinstance(b, ast.Attribute) and isinstance(b.value, ast.Name) and b.value.id == sn and b.attr in containers:
                        writes.append(x)
                    elif x.func.attr == "pop" and isinstance(b, ast.Attribute) and b.attr == "__dict__" and x.args and isinstance(x.args[0], ast.Constant) and x.args[0].value in cached:
                        resets.append(x)
                elif isinstance(x, ast.Call) and isinstance(x.func, ast.Attribute) and x.func.attr == "cache_clear" and memoised:
                    resets.append(x)
                elif isinstance(x, ast.Delete):
                    for tg in x.targets:
                        if isinstance(tg, ast.Attribute) and isinstance(tg.value, ast.Name) and tg.value.id == sn and tg.attr in cached:
                            resets.append(x)
            if not writes:
                continue
            writers += 1
            ok = False
            for w in writes:
                gw = conds_formula(conds(mv, w))
                ok = any(implies(gw, conds_formula(conds(mv, r))) for r in resets)
                if not ok:
                    break
            if not ok:
                lacking.append(name)
    if lacking:
        res.add("C05.R2", construct, False, f"`{', '.join(sorted(cached))}` holds a snapshot of the layer definition that is served to every rule, but `{'`, `'.join(sorted(lacking))}` assign(s) modules to a layer without invalidating it: a rule started before such a call evaluates with a mapping that lacks that layer (its modules are in 'no layer', an access requirement on it can never be violated)", where(provider, provider.node), kind="flow")
    else:
        res.add("C05.R2", construct, True, f"the stored layer mapping is invalidated by all {writers} method(s) that assign modules to a layer", where(provider, provider.node), kind="flow")


def _empty_value(v: ast.expr) -> bool:
    if isinstance(v, (ast.List, ast.Tuple, ast.Set)):
        return not v.elts
    if isinstance(v, ast.Dict):
        return not v.keys
    return isinstance(v, ast.Call) and isinstance(v.func, ast.Name) and v.func.id in ("list", "tuple", "set", "dict") and not v.args
