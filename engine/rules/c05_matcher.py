"""C05.R2 / C05.R7 - what the layer rule matcher hands to the layer detector.

  R2  the layer mapping given to the detector is rebuilt for *every* layer of the architecture, and every lookup into the
      regex -> modules conversion map made while rebuilding it is total (the map only knows the regexes of the rule's subjects
      and objects; the layers range over all layers, however they were defined)
  R7  regex layers are resolved against the evaluable that is being judged: per evaluation either a fresh matcher is built or
      the regex conversion runs unconditionally

Anchors: the public classes LayerRuleMatcher / RuleMatcher / LayerRuleViolationDetector / LayerMapping / ModuleNameConverter,
the public members `match`, `all_layers`, `convert`, `assert_applies`; helpers are found by data flow from those.
"""

from __future__ import annotations

import ast

from core.flow import Flow, Spec
from core.guards import TRUE, atom, atoms_of, implies
from core.loader import AnalysisError, FuncInfo, Repo, ancestors, norm, own_nodes, parent
from core.report import Result

from .c05_views import family, all_nodes, assignments_of, dview, key_of, productions, single_value, where_of
from .common import guard_formula, reachable_funcs, stmt_of, types_of, where

MATCHER = "pytestarch.rule_assessment.rule_check.rule_matcher"
LAYER_DETECTOR = "pytestarch.rule_assessment.rule_check.layer_rule_violation_detector"
EVAL_ARCH = "pytestarch.eval_structure.evaluable_architecture"
RULE = "pytestarch.query_language.rule"
CONVERTER = "pytestarch.eval_structure.module_name_converter"


def _ctor_calls(repo: Repo, T, fi: FuncInfo, cls_fq: str, nodes=None) -> list[ast.Call]:
    out = []
    for n in (nodes if nodes is not None else own_nodes(fi.node)):
        if isinstance(n, ast.Call):
            src = getattr(n, "_src", None)
            ctx, orig = src if src is not None else (fi, n)
            try:
                ci = T.ctor_class(ctx, orig)
            except Exception:  # noqa: BLE001
                ci = None
            if ci is not None and ci.fq == cls_fq:
                out.append(n)
    return out


def _attr_alias(view: FuncInfo, e: ast.expr) -> ast.expr:
    """`self.x` read after a single `self.x = <expr>` in the same view stands for <expr>."""
    for _ in range(4):
        e = single_value(view, e)
        if isinstance(e, ast.Attribute) and isinstance(e.ctx, ast.Load):
            text = norm(e)
            stores = [n for n in all_nodes(view) if isinstance(n, ast.Attribute) and isinstance(n.ctx, ast.Store) and norm(n) == text]
            if len(stores) == 1 and isinstance(parent(stores[0]), ast.Assign) and len(parent(stores[0]).targets) == 1:
                e = parent(stores[0]).value
                continue
        break
    return e


def check_layer_mapping_update(repo: Repo, res: Result) -> None:
    T = types_of(repo)
    lm = repo.cls(MATCHER, "LayerRuleMatcher")
    det = repo.cls(LAYER_DETECTOR, "LayerRuleViolationDetector")
    lmap = repo.cls(EVAL_ARCH, "LayerMapping")
    lm_mro = {c.fq for c in repo.mro(lm)}
    # the factory: the matcher method that builds the layer detector
    factory = None
    for c in repo.mro(lm):
        for m in c.methods.values():
            if not m.is_abstract and _ctor_calls(repo, T, m, det.fq):
                factory = factory or m
    if factory is None:
        # the construction was extracted into a helper: the most specific method whose inlined view contains it
        best = None
        for c in repo.mro(lm):
            for m in c.methods.values():
                if m.is_abstract or m.is_property or len(m.param_names) < 2:
                    continue
                v = dview(repo, m, lm, family(repo, lm), tag="lm")
                if _ctor_calls(repo, T, v, det.fq, list(all_nodes(v))):
                    size = sum(1 for _ in all_nodes(v))
                    if best is None or size < best[0]:
                        best = (size, m)
        factory = best[1] if best else None
    if factory is None:
        raise AnalysisError("LayerRuleMatcher: no method constructs a LayerRuleViolationDetector (anchor of C05.R2 vanished)")
    view = dview(repo, factory, lm, family(repo, lm), tag="lm")
    ctors = _ctor_calls(repo, T, view, det.fq, list(all_nodes(view)))
    if len(ctors) != 1:
        raise AnalysisError(f"{factory.fq}: {len(ctors)} constructions of LayerRuleViolationDetector in the inlined view (expected one)")
    ctor = ctors[0]
    init = repo.lookup_method(det, "__init__")
    pnames = [p for p in (init.param_names[1:] if init is not None else [])]
    arg = None
    for k in ctor.keywords:
        if k.arg and "layer" in k.arg:
            arg = k.value
    if arg is None:
        idx = next((i for i, p in enumerate(pnames) if "layer" in p), 2)
        if idx < len(ctor.args):
            arg = ctor.args[idx]
    construct = f"{factory.relpath}::{factory.qualname}::layer mapping handed to the detector"
    if arg is None:
        res.undecide("C05.R2", construct, f"cannot find the layer-mapping argument of `{norm(ctor, 70)}`", where_of(view, ctor))
        return
    val = _attr_alias(view, arg)
    built = isinstance(val, ast.Call) and _ctor_calls(repo, T, view, lmap.fq, [val])
    if not built:
        if isinstance(val, ast.Attribute) and not any(isinstance(n, ast.Attribute) and isinstance(n.ctx, ast.Store) and norm(n) == norm(val) for n in all_nodes(view)):
            res.add("C05.R2", construct, False, f"the detector receives `{norm(val, 50)}` - the layer mapping as defined by the user, regex layers are not replaced by the modules they match", where_of(view, ctor), kind="flow")
        else:
            res.undecide("C05.R2", construct, f"the detector's layer mapping `{norm(val, 60)}` is not a LayerMapping built in this method", where_of(view, ctor))
        return
    darg = val.args[0] if val.args else (val.keywords[0].value if val.keywords else None)
    prods = productions(view, darg) if darg is not None else []
    ok = bool(prods)
    detail = ""
    for p in prods:
        if p.elt is None or p.key is None:
            ok, detail = None, f"cannot follow how the per-layer entries `{norm(p.merged if p.merged is not None else p.node, 60)}` are built"
            break
        loops = [(t, it) for t, it in p.loops if isinstance(p.key, ast.Name) and p.key.id in {n.id for n in ast.walk(t) if isinstance(n, ast.Name)}]
        if len(loops) != 1:
            ok, detail = None, f"the key `{norm(p.key, 40)}` of the rebuilt mapping is not a loop variable"
            break
        it = single_value(view, loops[0][1])
        while isinstance(it, ast.Call) and isinstance(it.func, ast.Name) and it.func.id in ("list", "sorted", "tuple", "set", "iter") and len(it.args) == 1:
            it = it.args[0]
        all_l = isinstance(it, ast.Attribute) and it.attr == "all_layers"
        filt = [c for c, pol in p.conds if p.key.id in {n.id for n in ast.walk(c) if isinstance(n, ast.Name)}]
        if not all_l:
            ok, detail = None, f"the rebuilt mapping iterates `{norm(it, 60)}` (expected the `all_layers` of the user's layer mapping)"
            break
        if filt:
            ok, detail = False, f"`{norm(filt[0], 60)}` leaves layers out of the rebuilt mapping"
            break
    if ok is None:
        res.undecide("C05.R2", construct, detail, where_of(view, ctor))
    else:
        res.add("C05.R2", f"{factory.relpath}::{factory.qualname}::all layers updated", bool(ok), "the layer mapping handed to the detector is rebuilt for every layer of the architecture" if ok else (detail or "the updated layer mapping no longer covers all layers"), where_of(view, ctor), kind="structural")
    # ---- lookups into the regex conversion map, wherever the rebuilding code consults it
    mparams = [p for p in factory.param_names[1:]]
    if not mparams:
        res.undecide("C05.R2", construct, "the detector factory has no parameter for the regex conversion map", where(factory, factory.node))
        return
    mp = mparams[0]
    seeds = {}
    for c in [lm, *repo.subclasses(lm)]:
        m = c.methods.get(factory.name)
        if m is not None and len(m.param_names) > 1:
            seeds[(m.fq, m.param_names[1])] = {"MAP"}
    seeds[(factory.fq, mp)] = {"MAP"}

    holder: list = []

    def transfer(f, call, names_, args, recv, kwargs):
        fq_ = repo.resolve_name(f.module, call.func) if isinstance(call.func, (ast.Name, ast.Attribute)) else None
        if fq_ == "functools.partial" and call.args and holder:
            # partial(helper, conversion=mapping): the helper's parameters receive the bound arguments; the callable itself
            # carries no data
            try:
                ft = T.expr(f, call.args[0])
            except Exception:  # noqa: BLE001
                ft = None
            from core.types import members as _members

            for m_ in (_members(ft) if ft is not None else []):
                if m_[0] == "fn":
                    holder[0]._bind_call(m_[1], args[1:], kwargs, None, None)
            return set()
        if isinstance(call.func, ast.Name) and call.func.id in ("map", "filter", "starmap") and not names_:
            return set()
        # results of reading the map are module lists, not the map
        if isinstance(call.func, ast.Attribute) and call.func.attr in ("get", "pop", "setdefault", "keys", "values", "items", "copy") and "MAP" in recv:
            return {"MAP"} if call.func.attr == "copy" else set()
        if isinstance(call.func, ast.Name) and call.func.id in ("dict", "defaultdict") and any("MAP" in a for a in args):
            return {"MAP", "TOTAL"} if call.func.id == "defaultdict" else {"MAP"}
        return None

    reach = {g.fq for g in reachable_funcs(repo, [factory], byname=False)}
    flow = Flow(repo, T, Spec(transfer=transfer, param_seeds=seeds, iter_map={"MAP": "", "TOTAL": ""}, objects_carry=False, scope=lambda f: f.module.name.startswith(("pytestarch.rule_assessment", "pytestarch.eval_structure.utils", "pytestarch.utils"))))
    holder.append(flow)
    flow._run()
    n = 0
    for f in repo.all_functions():
        if isinstance(f.node, ast.Lambda) or f.fq not in reach:
            continue
        for node in own_nodes(f.node):
            if isinstance(node, ast.Subscript) and isinstance(node.ctx, ast.Load) and "MAP" in flow.tags(node.value):
                n += 1
                key = norm(node.slice)
                mtxt = norm(node.value)
                total = "TOTAL" in flow.tags(node.value)
                g = guard_formula(f, node)
                ok = total or implies(g, atom(f"{key} in {mtxt}")) or _in_keyerror_try(node)
                res.add("C05.R2", repo.key(f, stmt_of(node)) + " [lookup]", ok, "raising subscript guarded by a membership test" if ok else f"`{norm(node)}` is a raising lookup, but `{mtxt}` only contains the regexes of the rule's subjects and objects while the key ranges over the filters of *all* layers: a regex-defined layer the rule does not mention raises KeyError", where(f, node), kind="dominance")
            if isinstance(node, ast.Call) and isinstance(node.func, ast.Attribute) and node.func.attr == "get" and "MAP" in flow.tags(node.func.value):
                n += 1
                p = parent(node)
                ok = len(node.args) + len(node.keywords) == 2 or (isinstance(p, ast.BoolOp) and isinstance(p.op, ast.Or) and p.values[0] is node)
                res.add("C05.R2", repo.key(f, stmt_of(node)) + " [lookup]", ok, "total lookup with a default" if ok else f"`{norm(node)}` yields None for layers the rule does not mention", where(f, node), kind="structural")
    if n == 0:
        # the map may be searched instead of indexed (`for regex, modules in mapping.items(): if regex == ...`): total by construction
        for f in repo.all_functions():
            if isinstance(f.node, ast.Lambda) or f.fq not in reach:
                continue
            for node in own_nodes(f.node):
                if isinstance(node, ast.Call) and isinstance(node.func, ast.Attribute) and node.func.attr in ("items", "keys") and "MAP" in flow.tags(node.func.value) and isinstance(parent(node), (ast.For, ast.comprehension)):
                    n += 1
                    res.add("C05.R2", repo.key(f, stmt_of(node)) + " [lookup]", True, "the conversion map is searched by iteration: nothing can raise for a layer the rule does not mention", where(f, node), kind="structural")
    res.floor("C05.R2", 1, n)


def _in_keyerror_try(node: ast.AST) -> bool:
    child = node
    for a in ancestors(node):
        if isinstance(a, ast.Try) and child in a.body:
            for h in a.handlers:
                t = norm(h.type) if h.type is not None else ""
                if h.type is None or "KeyError" in t or "LookupError" in t or t == "Exception":
                    return True
        child = a
    return False


# --------------------------------------------------------------------------- R7


def check_regex_resolution_per_evaluation(repo: Repo, res: Result) -> None:
    T = types_of(repo)
    rule = repo.cls(RULE, "Rule")
    rm = repo.cls(MATCHER, "RuleMatcher")
    lm = repo.cls(MATCHER, "LayerRuleMatcher")
    conv = repo.classes.get(f"{CONVERTER}.ModuleNameConverter")
    aa = repo.lookup_method(rule, "assert_applies")
    match = repo.lookup_method(lm, "match")
    if aa is None or match is None or conv is None:
        raise AnalysisError("Rule.assert_applies / RuleMatcher.match / ModuleNameConverter not found (anchors of C05.R7)")
    rule_mro = {c.fq for c in repo.mro(rule)}
    lm_mro = {c.fq for c in repo.mro(lm)}
    # (a) is the matcher that judges built for this evaluation?
    va = dview(repo, aa, rule, family(repo, rule), tag="rule")
    mcalls = [n for n in all_nodes(va) if isinstance(n, ast.Call) and isinstance(n.func, ast.Attribute) and n.func.attr == "match"]
    fresh = None
    why_a = ""
    if len(mcalls) == 1:
        recv = mcalls[0].func.value
        cases = []
        if isinstance(recv, ast.Name):
            asg = assignments_of(va, recv.id)
            cases = asg or []
        if isinstance(recv, ast.Name) and cases and all(_is_matcher_construction(v, repo, T, va) for _s, v in cases):
            fresh = True
        elif isinstance(recv, ast.Call) and _is_matcher_construction(recv, repo, T, va):
            fresh = True
        elif isinstance(recv, ast.Attribute) or (isinstance(recv, ast.Name) and cases and any(isinstance(single_value(va, v), ast.Attribute) for _s, v in cases)):
            fresh = False
            why_a = f"Rule.assert_applies evaluates with the stored matcher `{norm(recv, 40)}`"
    # (a') for a *layer* rule the "matcher class" the wrapped Rule calls is the factory LayerRule hands over: a factory that
    #      keeps the matcher it built serves the same matcher to every later assert_applies
    from .c05_lowering import layer_matcher_factory

    kept = layer_matcher_factory(repo).get("kept")
    if kept and fresh is not False:
        fresh = False
        why_a = f"the matcher factory LayerRule hands to the wrapped Rule keeps the matcher it built (`{kept}`), so every assert_applies of a layer rule evaluates with the same matcher"
    # (b) does every match() resolve the regexes against its evaluable?
    vm = dview(repo, match, lm, family(repo, lm), tag="lm")
    if not _converter_calls(repo, T, vm, conv):
        # the resolution was moved into a helper object (`requirement.resolved_against(evaluable)`, `Resolution.resolve(..)`,
        # a NamedTuple / dataclass factory): inline the methods of other classes through which a conversion is reached
        vm = dview(repo, match, lm, resolution_policy(repo, lm, conv), tag="lm-resolution")
    ev = match.param_names[1] if len(match.param_names) > 1 else None
    convs = []
    rebuilt: list[ast.Call] = []
    for n in all_nodes(vm):
        if isinstance(n, ast.Call):
            src = getattr(n, "_src", None)
            ctx, orig = src if src is not None else (vm, n)
            try:
                cs, how = T.callees(ctx, orig, byname_fallback=False)
            except Exception:  # noqa: BLE001
                cs = []
            if any(c.cls is not None and c.cls.fq == conv.fq and not c.name.startswith("_") for c in cs):
                convs.append(n)
            else:
                # the layer mapping with regex layers replaced by matched modules is part of the per-evaluation resolution
                try:
                    ci = T.ctor_class(ctx, orig)
                except Exception:  # noqa: BLE001
                    ci = None
                if ci is not None and ci.fq == f"{EVAL_ARCH}.LayerMapping":
                    rebuilt.append(n)
    construct = f"{match.relpath}::RuleMatcher.match::regexes resolved against the evaluable being judged"
    if not convs:
        res.undecide("C05.R7", construct, "no call of ModuleNameConverter reachable in the inlined view of RuleMatcher.match", where(match, match.node))
        return
    stateful = []
    # state that match() itself writes: a condition on it makes the conversion depend on earlier evaluations
    written = {norm(n) for n in all_nodes(vm) if isinstance(n, ast.Attribute) and isinstance(n.ctx, ast.Store)}
    for c in [*convs, *rebuilt]:
        g = guard_formula(vm, c)
        state_atoms = sorted(a for a in atoms_of(g) if any(w in a for w in written) or "getattr(self" in a or "hasattr(self" in a)
        if state_atoms and not implies(TRUE, g):
            short = [a for a in state_atoms if len(a) < 90]
            stateful.append((c, short or [a[:87] + "..." for a in state_atoms[:1]]))
        if c in convs and ev is not None and not any(isinstance(x, ast.Name) and x.id == ev for a in [*c.args, *[k.value for k in c.keywords]] for x in ast.walk(a)):
            stateful.append((c, [f"the evaluable `{ev}` is not an argument"]))
    if not stateful:
        res.add("C05.R7", construct, True, f"{len(convs)} regex conversion(s) run unconditionally on every match, on the evaluable handed in", where(match, match.node), kind="dominance")
        return
    c, atoms_ = stateful[0]
    if fresh:
        res.add("C05.R7", construct, True, "the per-evaluation resolution depends on matcher state, but a fresh matcher is built for every evaluation", where_of(vm, c), kind="dominance")
        res.observe(f"C05.R7 `{norm(c, 60)}` is skipped depending on {atoms_} (harmless while every evaluation builds a new matcher)")
    elif fresh is False:
        what = "regex conversion" if c in convs else "layer mapping"
        res.add("C05.R7", key_of(repo, vm, c, f" [{what}]"), False, f"`{norm(c, 60)}` is skipped depending on the matcher's own state ({', '.join(atoms_)}) and {why_a}: a layer rule applied to a second evaluable judges it with the modules its regex layers matched in the first one", where_of(vm, c), kind="dominance")
    else:
        res.undecide("C05.R7", construct, f"`{norm(c, 60)}` depends on matcher state ({', '.join(atoms_)}) and it could not be established whether Rule.assert_applies builds a new matcher per evaluation", where_of(vm, c))


def _converter_calls(repo: Repo, T, view: FuncInfo, conv) -> list[ast.Call]:
    out = []
    for n in all_nodes(view):
        if isinstance(n, ast.Call):
            src = getattr(n, "_src", None)
            ctx, orig = src if src is not None else (view, n)
            try:
                cs, _how = T.callees(ctx, orig, byname_fallback=False)
            except Exception:  # noqa: BLE001
                cs = []
            if any(c.cls is not None and c.cls.fq == conv.fq and not c.name.startswith("_") for c in cs):
                out.append(n)
    return out


def resolution_policy(repo: Repo, lm, conv, helper_classes: bool = False):
    """Inlining policy `family(LayerRuleMatcher)` widened by the methods of *other* classes (and classmethods / factories) from
    which a public method of ModuleNameConverter is reachable - the path the regex resolution takes when it lives in a helper
    object.  The converter itself, the detectors and the evaluable stay calls (they are the vocabulary of the rules)."""
    cache = repo.__dict__.setdefault("_c05_resolution_policy", {})
    if ("allow", helper_classes) in cache:
        return cache[("allow", helper_classes)]
    from .common import callees_of

    base = family(repo, lm)
    targets = {m.fq for m in conv.methods.values() if not m.name.startswith("_")}
    funcs = [f for f in repo.all_functions() if not isinstance(f.node, ast.Lambda)]
    edges: dict[str, set[str]] = {}
    for f in funcs:
        try:
            edges[f.fq] = {c.fq for c in callees_of(repo, f, byname=False)}
        except Exception:  # noqa: BLE001
            edges[f.fq] = set()
    reaches = set(targets)
    changed = True
    while changed:
        changed = False
        for fq, cs in edges.items():
            if fq not in reaches and cs & reaches:
                reaches.add(fq)
                changed = True
    keep_out = ("pytestarch.eval_structure.module_name_converter", "pytestarch.eval_structure.evaluable_graph", "pytestarch.eval_structure.networkxgraph")

    # classes that host a part of the resolution (a method from which the converter is reached): records of the resolution
    hosts = {f.cls.fq for f in funcs if f.fq in reaches and f.fq not in targets and f.cls is not None and f.cls.fq not in {c.fq for c in repo.mro(lm)} and not f.module.name.startswith("pytestarch.query_language")}

    def allow(caller: FuncInfo, callee: FuncInfo) -> bool:
        if base(caller, callee):
            return True
        if callee.module.name in keep_out or callee.fq in targets:
            return False
        if callee.fq in reaches:
            return True
        return helper_classes and callee.cls is not None and callee.cls.fq in hosts and callee.module.name.startswith("pytestarch.rule_assessment.rule_check.rule_matcher")

    cache[("allow", helper_classes)] = allow
    return allow


def _is_matcher_construction(v: ast.expr, repo: Repo | None = None, T=None, view: FuncInfo | None = None) -> bool:
    """A call of the configured matcher class / factory (`self._rule_matcher_class(...)`, `XMatcher(...)`)."""
    if not isinstance(v, ast.Call):
        return False
    if repo is not None and T is not None and view is not None:
        src = getattr(v, "_src", None)
        ctx, orig = src if src is not None else (view, v)
        try:
            cs, _how = T.callees(ctx, orig, byname_fallback=False)
        except Exception:  # noqa: BLE001
            cs = []
        rm = repo.classes.get(f"{MATCHER}.RuleMatcher")
        if rm is not None and any(c.name == "__init__" and c.cls is not None and repo.is_subclass(c.cls, rm.fq) for c in cs):
            return True
    f = v.func
    if isinstance(f, ast.Attribute) and isinstance(f.value, ast.Name) and f.value.id == "self" and ("matcher" in f.attr.lower()) and ("class" in f.attr.lower() or "factory" in f.attr.lower() or "cls" in f.attr.lower()):
        return True
    if isinstance(f, ast.Name) and f.id.endswith("Matcher"):
        return True
    return False


# --------------------------------------------------------------------------- R2: the conversion map knows subjects *and* objects; only the layer detector judges


def check_conversion_map_complete(repo: Repo, res: Result) -> None:
    """The regex -> modules map handed to the detector factory contains the conversions of both sides of the rule (every regex
    conversion made for this evaluation flows into it on every path), and the factory builds nothing but the layer detector."""
    from core.guards import conds_formula, f_not

    from .c05_views import value_cases

    T = types_of(repo)
    lm = repo.cls(MATCHER, "LayerRuleMatcher")
    det = repo.cls(LAYER_DETECTOR, "LayerRuleViolationDetector")
    conv = repo.classes.get(f"{CONVERTER}.ModuleNameConverter")
    match = repo.lookup_method(lm, "match")
    if match is None or conv is None:
        return
    vm = dview(repo, match, lm, family(repo, lm), tag="lm")
    nodes = list(all_nodes(vm))
    construct = f"{match.relpath}::RuleMatcher.match::conversion map of both sides reaches the layer matcher"
    # ---- every detector built on behalf of a layer rule is the layer detector
    base_det = repo.classes.get("pytestarch.rule_assessment.rule_check.rule_violation_detector.RuleViolationBaseDetector")
    others = []
    for n in nodes:
        if isinstance(n, ast.Call):
            src = getattr(n, "_src", None)
            ctx, orig = src if src is not None else (vm, n)
            try:
                ci = T.ctor_class(ctx, orig)
            except Exception:  # noqa: BLE001
                ci = None
            if ci is not None and base_det is not None and repo.is_subclass(ci, base_det.fq) and not repo.is_subclass(ci, det.fq):
                others.append((n, ci))
    for n, ci in others:
        res.add("C05.R2", key_of(repo, vm, n, " [detector]"), False, f"the layer matcher builds a `{ci.name}` here: on this path the rule is judged per module, without the same-layer filter and the one-unit-per-layer leniency", where_of(vm, n), kind="structural")
    # ---- the maps produced by the regex conversion
    policy = family(repo, lm)
    wide = False
    if not _converter_calls(repo, T, vm, conv):
        # the conversion lives in a helper object (NamedTuple / dataclass factory, a method of the module requirement): follow it
        policy = resolution_policy(repo, lm, conv, helper_classes=True)
        vm = dview(repo, match, lm, policy, tag="lm-resolution-classes")
        nodes = list(all_nodes(vm))
        wide = True
    maps: list[str] = []
    for n in nodes:
        if isinstance(n, ast.Assign) and isinstance(n.value, ast.Call):
            src = getattr(n.value, "_src", None)
            ctx, orig = src if src is not None else (vm, n.value)
            try:
                cs, _how = T.callees(ctx, orig, byname_fallback=False)
            except Exception:  # noqa: BLE001
                cs = []
            if any(c.cls is not None and c.cls.fq == conv.fq and not c.name.startswith("_") for c in cs):
                t = n.targets[0]
                if isinstance(t, ast.Tuple) and len(t.elts) == 2:
                    maps.append(norm(t.elts[1]))
                else:
                    maps.append(norm(t) + "[1]")
    # ---- the variable that holds the factory's map parameter in the view
    factory = None
    for c in repo.mro(lm):
        for m in c.methods.values():
            if not m.is_abstract and _ctor_calls(repo, T, m, det.fq):
                factory = factory or m
    if factory is None or len(factory.param_names) < 2 or not maps:
        return  # reported by check_layer_mapping_update / nothing to relate
    # a view of match() in which the factory stays a call: its argument is the map
    fam = policy
    vm = dview(repo, match, lm, lambda a, b: fam(a, b) and b.fq != factory.fq, tag="lm-factory-kept" + ("-resolution" if wide else ""))
    calls = [n for n in all_nodes(vm) if isinstance(n, ast.Call) and isinstance(n.func, ast.Attribute) and n.func.attr == factory.name and (n.args or n.keywords)]
    if len(calls) != 1:
        res.undecide("C05.R2", construct, f"{len(calls)} calls of the detector factory in the inlined view of match (expected one)", where(match, match.node))
        return
    var_expr = calls[0].args[0] if calls[0].args else calls[0].keywords[0].value

    # other names of the same maps (`self._conversion_mapping_importers = importer_mapping`)
    aliases: dict[str, set[str]] = {m_: {m_} for m_ in maps}
    for _ in range(3):
        for n in all_nodes(vm):
            if isinstance(n, ast.Assign) and len(n.targets) == 1 and isinstance(n.targets[0], (ast.Name, ast.Attribute)):
                vt = norm(n.value)
                for m_, al in aliases.items():
                    if vt in al:
                        al.add(norm(n.targets[0]))
                # a record built from the maps (`self._resolved = Resolution(requirement, subject_map, object_map)`, dataclass /
                # NamedTuple): `<target>.<field>` is another name of the argument stored in that field
                if isinstance(n.value, ast.Call):
                    src_ = getattr(n.value, "_src", None)
                    c_ctx, c_orig = src_ if src_ is not None else (vm, n.value)
                    try:
                        rec = T.ctor_class(c_ctx, c_orig)
                    except Exception:  # noqa: BLE001
                        rec = None
                    if rec is not None and repo.lookup_method(rec, "__init__") is None:
                        fields_ = [a for c_ in reversed(repo.mro(rec)) for a in c_.ann_attrs]
                        bound_: dict[str, list[ast.expr]] = {}
                        i_ = 0
                        for a in n.value.args:
                            if isinstance(a, ast.Starred):
                                # `Record(x, *maps)`: every remaining field holds one element of the starred collection
                                for f_ in fields_[i_:]:
                                    bound_.setdefault(f_, []).append(a.value)
                                break
                            if i_ < len(fields_):
                                bound_.setdefault(fields_[i_], []).append(a)
                            i_ += 1
                        for k in n.value.keywords:
                            if k.arg:
                                bound_.setdefault(k.arg, []).append(k.value)
                        for f_, as_ in bound_.items():
                            for a in as_:
                                at = norm(a)
                                for m_, al in aliases.items():
                                    if at in al or (m_.endswith("[1]") and at == m_[:-3]):
                                        al.add(f"{norm(n.targets[0])}.{f_}")
            elif isinstance(n, ast.Call) and isinstance(n.func, ast.Attribute) and n.func.attr in ("append", "add", "insert", "appendleft") and n.args and isinstance(n.func.value, (ast.Name, ast.Attribute)):
                # a map collected into a list (`maps.append(mapping)` once per side of the rule): the list stands for the map
                at = norm(n.args[-1])
                for m_, al in aliases.items():
                    if at in al:
                        al.add(norm(n.func.value))

    def used_params(callee: FuncInfo) -> set[str] | None:
        """Parameters of a helper (not inlined) that contribute to what it returns; None when that cannot be followed."""
        key_ = ("c05-used-params", callee.fq)
        cache_ = repo.__dict__.setdefault("_c05_cache", {})
        if key_ in cache_:
            return cache_[key_]
        cache_[key_] = None
        cv = dview(repo, callee, lm if callee.cls is not None else None, fam, tag="lm")
        params = [p_ for p_ in callee.param_names if p_ not in ("self", "cls")]
        rets = [x for x in all_nodes(cv) if isinstance(x, ast.Return) and x.value is not None]
        if not rets:
            return None
        used: set[str] = set()

        def walk_(e_: ast.AST, d_: int, seen_: frozenset) -> None:
            for x in ast.walk(e_):
                if isinstance(x, ast.Name) and isinstance(x.ctx, ast.Load):
                    if x.id in params:
                        used.add(x.id)
                    elif d_ < 4 and x.id not in seen_:
                        for p_ in productions(cv, x):
                            for part in (p_.elt, p_.key, p_.merged, *[it for _t, it in p_.loops]):
                                if part is not None and part is not x:
                                    walk_(part, d_ + 1, seen_ | {x.id})

        for r in rets:
            walk_(r.value, 0, frozenset())
        # fields of the receiver the result is built from (a method of a record that merges its own maps)
        if callee.cls is not None and callee.param_names and not callee.is_staticmethod:
            me = callee.param_names[0]

            def fields_(e_: ast.AST, d_: int, seen_: frozenset) -> None:
                for x in ast.walk(e_):
                    if isinstance(x, ast.Attribute) and isinstance(x.value, ast.Name) and x.value.id == me and isinstance(x.ctx, ast.Load):
                        used.add(f"{me}.{x.attr}")
                    elif isinstance(x, ast.Name) and isinstance(x.ctx, ast.Load) and d_ < 4 and x.id not in seen_ and x.id not in params and x.id != me:
                        for p_ in productions(cv, x):
                            for part in (p_.elt, p_.key, p_.merged, *[it for _t, it in p_.loops]):
                                if part is not None and part is not x:
                                    fields_(part, d_ + 1, seen_ | {x.id})

            for r in rets:
                fields_(r.value, 0, frozenset())
        cache_[key_] = used
        return used

    def helper_of(call: ast.Call) -> FuncInfo | None:
        src = getattr(call, "_src", None)
        ctx, orig = src if src is not None else (vm, call)
        try:
            cs, how = T.callees(ctx, orig, byname_fallback=False)
        except Exception:  # noqa: BLE001
            return None
        cs = [c_ for c_ in cs if not c_.is_abstract and not isinstance(c_.node, ast.Lambda)]
        return cs[0] if len(cs) == 1 and how == "repo" and c_is_helper(cs[0]) else None

    def c_is_helper(f_: FuncInfo) -> bool:
        return f_.module.name.startswith("pytestarch.rule_assessment") or f_.module.name.startswith("pytestarch.utils")

    def mentioned(e: ast.AST, depth: int = 0, seen: frozenset = frozenset()) -> set[str]:
        out: set[str] = set()
        skip: set[int] = set()
        for x in ast.walk(e):
            if id(x) in skip:
                continue
            if isinstance(x, ast.Call) and depth < 4:
                # a helper that was not inlined: only the arguments of the parameters its result is built from count
                callee = helper_of(x)
                up = used_params(callee) if callee is not None else None
                if callee is not None and up is not None:
                    from .c05_views import _bind_call

                    binding = _bind_call(callee, x) or {}
                    for y in ast.walk(x):
                        if y is not x:
                            skip.add(id(y))
                    for p_, a in binding.items():
                        if p_ in up:
                            out |= mentioned(a, depth + 1, seen)
                    if isinstance(x.func, ast.Attribute) and callee.param_names:
                        me_ = callee.param_names[0]
                        recv_text = norm(x.func.value)
                        for u_ in up:
                            if u_.startswith(me_ + "."):
                                t_ = f"{recv_text}.{u_[len(me_) + 1:]}"
                                for m_ in maps:
                                    if t_ in aliases[m_]:
                                        out.add(m_)
                    continue
            if isinstance(x, (ast.Attribute, ast.Name)) and isinstance(getattr(x, "ctx", None), ast.Load):
                t = norm(x)
                for m_ in maps:
                    if t in aliases[m_] or (m_.endswith("[1]") and t == m_[:-3]):
                        out.add(m_)
                if isinstance(x, ast.Name) and depth < 4 and x.id not in seen and x.id not in vm.param_names:
                    for p_ in productions(vm, x):
                        for part in (p_.elt, p_.key, p_.merged, *[it for _t, it in p_.loops]):
                            if part is not None and part is not x:
                                out |= mentioned(part, depth + 1, seen | {x.id})
        return out

    bad = None
    cases_: list = []
    if isinstance(var_expr, ast.Name) and var_expr.id not in vm.param_names:
        asg = assignments_of(vm, var_expr.id)
        if asg:
            from .common import conds as _conds

            cases_ = [(_conds(vm, st), v) for st, v in asg]
    if not cases_ and isinstance(var_expr, ast.Attribute):
        # a field filled earlier in the same evaluation (`self._map = merge(a, b)` in the conversion step)
        from .common import conds as _conds

        txt = norm(var_expr)
        for x in all_nodes(vm):
            if isinstance(x, (ast.Assign, ast.AnnAssign)) and x.value is not None:
                tgs = x.targets if isinstance(x, ast.Assign) else [x.target]
                if any(isinstance(tg, ast.Attribute) and norm(tg) == txt for tg in tgs):
                    cases_.append((_conds(vm, x), x.value))
    if not cases_:
        cases_ = value_cases(vm, var_expr)
    for cs_, expr in cases_:
        got = mentioned(expr)
        missing = [m_ for m_ in maps if m_ not in got]
        if not missing:
            continue
        # a map that leaves some conversion out is only right when that conversion is empty
        f = conds_formula(cs_)
        if all(any(implies(f, f_not(atom(f"bool({a})"))) for a in aliases[m_]) for m_ in missing):
            continue
        bad = (expr, missing)
        break
    def escapes(m_: str) -> ast.Call | None:
        """The map is handed to a call whose result the analysis did not relate to its arguments (a constructor with an
        __init__, a library function, a starred argument): it may well arrive in the factory's map through it."""
        for x in all_nodes(vm):
            if not isinstance(x, ast.Call) or x is calls[0]:
                continue
            args_ = [a.value if isinstance(a, ast.Starred) else a for a in x.args] + [k.value for k in x.keywords]
            flat_ = [y for a in args_ for y in (a.elts if isinstance(a, (ast.List, ast.Tuple)) else [a])]
            if not any(norm(a) in aliases[m_] for a in flat_):
                continue
            if isinstance(x.func, ast.Attribute) and x.func.attr in ("items", "keys", "values", "get", "append", "add", "insert", "update", "setdefault", "extend"):
                continue
            if isinstance(x.func, ast.Name) and x.func.id in ("dict", "list", "set", "tuple", "len", "bool", "sorted", "isinstance"):
                continue
            callee = helper_of(x)
            if callee is not None and used_params(callee) is not None:
                continue
            return x
        return None

    if bad is not None:
        lost = next((e_ for e_ in (escapes(m_) for m_ in bad[1]) if e_ is not None), None)
        if lost is not None:
            res.undecide("C05.R2", construct, f"the regex conversion `{', '.join(bad[1])}` is handed to `{norm(lost, 60)}`, whose result was not related to its arguments: whether it reaches the map given to the layer matcher is not known", where(match, match.node))
            return
    if bad is None:
        res.add("C05.R2", construct, True, f"the conversion map handed to the layer matcher is built from {len(maps)} regex conversion(s) on every path", where(match, match.node), kind="flow")
    else:
        res.add("C05.R2", construct, False, f"on some path the map handed to the layer matcher is `{norm(bad[0], 50)}`, which leaves out the regex conversion `{', '.join(bad[1])}`: regex layers on that side of the rule resolve to no modules", where(match, match.node), kind="flow")
