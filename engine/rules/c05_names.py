"""C05.R5 - the layer of a module is found by whole dotted components.

The F-NAME sites (rules/names.py) are selected by *reachability from the layer lookup* (`LayerMapping.get_layer_for_module_name`
and the constructor that prepares its state), not by the name of the class or helper they happen to live in.  Sites the shared
lint leaves 'unknown' because the prefix comes out of a collection are decided here by following how the collection was filled.
The expected number of unsafe sites is zero and a refactoring may remove every string operation from the lookup, so the positive
fixture of the lint (names.fixture_selfcheck) replaces the floor.
"""

from __future__ import annotations

import ast

from core.loader import AnalysisError, FuncInfo, Repo, norm, own_nodes
from core.report import Result

from . import names
from .common import reachable_funcs, stmt_of, types_of, where

EVAL_ARCH = "pytestarch.eval_structure.evaluable_architecture"
WRAPPERS = {"sorted", "list", "set", "tuple", "reversed", "frozenset", "iter", "dict"}
EMPTY = {"list", "set", "dict", "tuple", "frozenset", "defaultdict", "OrderedDict"}


def _combine(vals: list[str]) -> str:
    vals = [v for v in vals if v != "skip"]
    if not vals:
        return "unknown"
    s = set(vals)
    return s.pop() if len(s) == 1 else "unknown"


def _is_empty_init(v: ast.expr) -> bool:
    if isinstance(v, (ast.List, ast.Set, ast.Dict, ast.Tuple)):
        return not (v.elts if not isinstance(v, ast.Dict) else v.keys)
    return isinstance(v, ast.Call) and isinstance(v.func, ast.Name) and v.func.id in EMPTY and not [a for a in v.args if not isinstance(a, (ast.Name, ast.Attribute))]


def elem_status(repo: Repo, f: FuncInfo, c: ast.expr, depth: int = 0) -> str:
    """dot / bare / unknown for the *elements* (for mappings: the keys) of a collection of strings."""
    if depth > 7:
        return "unknown"
    if isinstance(c, ast.Call):
        fn = c.func
        if isinstance(fn, ast.Name) and fn.id in WRAPPERS and c.args:
            return elem_status(repo, f, c.args[0], depth + 1)
        if isinstance(fn, ast.Name) and fn.id == "map" and len(c.args) == 2:
            g = c.args[0]
            if isinstance(g, ast.Lambda):
                return names.dot_status(repo, f, g.body)
            T = types_of(repo)
            try:
                t = T.expr(f, g)
            except Exception:  # noqa: BLE001
                return "unknown"
            from core.types import members

            fs = [m[1] for m in members(t) if m[0] == "fn"]
            if len(fs) == 1 and not isinstance(fs[0].node, ast.Lambda):
                rets = [r.value for r in own_nodes(fs[0].node) if isinstance(r, ast.Return) and r.value is not None]
                return _combine([names.dot_status(repo, fs[0], r) for r in rets])
            if len(fs) == 1:
                return names.dot_status(repo, fs[0], fs[0].node.body)
            return "unknown"
        if isinstance(fn, ast.Name) and fn.id == "filter" and len(c.args) == 2:
            return elem_status(repo, f, c.args[1], depth + 1)
        if isinstance(fn, ast.Attribute) and fn.attr in ("keys", "copy") and not c.args:
            return elem_status(repo, f, fn.value, depth + 1)
        return "unknown"
    if isinstance(c, (ast.ListComp, ast.SetComp, ast.GeneratorExp, ast.DictComp)):
        elt = c.key if isinstance(c, ast.DictComp) else c.elt
        st = names.dot_status(repo, f, elt)
        if st == "unknown" and isinstance(elt, ast.Name):
            for g in c.generators:
                if isinstance(g.target, ast.Name) and g.target.id == elt.id:
                    return elem_status(repo, f, g.iter, depth + 1)
        return st
    if isinstance(c, (ast.List, ast.Set, ast.Tuple)):
        return _combine([names.dot_status(repo, f, x) for x in c.elts]) if c.elts else "skip"
    if isinstance(c, ast.Dict):
        return _combine([names.dot_status(repo, f, k) for k in c.keys if k is not None]) if c.keys else "skip"
    if isinstance(c, ast.Subscript) and isinstance(c.slice, ast.Slice):
        return elem_status(repo, f, c.value, depth + 1)
    if isinstance(c, ast.BinOp) and isinstance(c.op, (ast.Add, ast.BitOr)):
        return _combine([elem_status(repo, f, c.left, depth + 1), elem_status(repo, f, c.right, depth + 1)])
    if isinstance(c, ast.Name) and not isinstance(f.node, ast.Lambda):
        if c.id in f.param_names:
            return "unknown"
        return _fills(repo, [f], lambda t: isinstance(t, ast.Name) and t.id == c.id, depth)
    if isinstance(c, ast.Attribute) and isinstance(c.value, ast.Name) and c.value.id in ("self", "cls") and f.cls is not None:
        methods = [m for k in repo.mro(f.cls) for m in k.methods.values()]
        return _fills(repo, methods, lambda t: isinstance(t, ast.Attribute) and isinstance(t.value, ast.Name) and t.value.id in ("self", "cls") and t.attr == c.attr, depth)
    return "unknown"


def _fills(repo: Repo, funcs: list[FuncInfo], is_target, depth: int) -> str:
    """Status of everything put into the container designated by `is_target` in `funcs`."""
    vals: list[str] = []
    for m in funcs:
        if isinstance(m.node, ast.Lambda):
            continue
        for n in own_nodes(m.node):
            if isinstance(n, ast.Assign):
                for t in n.targets:
                    if is_target(t):
                        vals.append("skip" if _is_empty_init(n.value) else elem_status(repo, m, n.value, depth + 1))
                    elif isinstance(t, ast.Subscript) and is_target(t.value):
                        vals.append(names.dot_status(repo, m, t.slice))
            elif isinstance(n, ast.AnnAssign) and n.value is not None:
                if is_target(n.target):
                    vals.append("skip" if _is_empty_init(n.value) else elem_status(repo, m, n.value, depth + 1))
                elif isinstance(n.target, ast.Subscript) and is_target(n.target.value):
                    vals.append(names.dot_status(repo, m, n.target.slice))
            elif isinstance(n, ast.AugAssign) and is_target(n.target):
                vals.append(elem_status(repo, m, n.value, depth + 1))
            elif isinstance(n, ast.Call) and isinstance(n.func, ast.Attribute) and is_target(n.func.value) and n.args:
                if n.func.attr in ("append", "add", "appendleft"):
                    vals.append(names.dot_status(repo, m, n.args[0]))
                elif n.func.attr == "insert" and len(n.args) == 2:
                    vals.append(names.dot_status(repo, m, n.args[1]))
                elif n.func.attr in ("extend", "update"):
                    vals.append(elem_status(repo, m, n.args[0], depth + 1))
                elif n.func.attr == "setdefault":
                    vals.append(names.dot_status(repo, m, n.args[0]))
            elif isinstance(n, (ast.For, ast.comprehension)) and is_target(n.target):
                vals.append("unknown")
    return _combine(vals)


def needle_status(repo: Repo, f: FuncInfo, e: ast.expr, depth: int = 0) -> str:
    st = names.dot_status(repo, f, e)
    if st != "unknown" or depth > 6:
        return st
    if isinstance(e, ast.Subscript) and not isinstance(e.slice, ast.Slice):
        return elem_status(repo, f, e.value, depth + 1)
    if isinstance(e, ast.Call) and isinstance(e.func, ast.Attribute) and e.func.attr in ("pop", "popleft") :
        return elem_status(repo, f, e.func.value, depth + 1)
    if isinstance(e, ast.Call) and isinstance(e.func, ast.Name) and e.func.id in ("next", "min", "max") and e.args:
        return elem_status(repo, f, e.args[0], depth + 1)
    if isinstance(e, ast.Name) and not isinstance(f.node, ast.Lambda) and e.id not in f.param_names:
        vals: list[str] = []
        stores = 0
        for n in own_nodes(f.node):
            if isinstance(n, ast.Assign) and any(isinstance(t, ast.Name) and t.id == e.id for t in n.targets):
                stores += 1
                vals.append(needle_status(repo, f, n.value, depth + 1))
            elif isinstance(n, (ast.For, ast.AsyncFor, ast.comprehension)) and isinstance(n.target, ast.Name) and n.target.id == e.id:
                stores += 1
                vals.append(elem_status(repo, f, n.iter, depth + 1))
            elif isinstance(n, (ast.For, ast.AsyncFor, ast.comprehension)) and any(isinstance(x, ast.Name) and x.id == e.id for x in ast.walk(n.target)):
                stores += 1
                vals.append("unknown")
        if stores:
            return _combine(vals)
    return "unknown"


def _truncated(e: ast.expr) -> str | None:
    """Name of the variable when `e` cuts exactly one trailing component off it: v.rpartition(".")[0], v.rsplit(".", 1)[0],
    v[: v.rfind(".")], ".".join(v.split(".")[:-1])."""
    def dot(c: ast.expr) -> bool:
        return isinstance(c, ast.Constant) and c.value == "."

    if isinstance(e, ast.Subscript) and isinstance(e.slice, ast.Constant) and e.slice.value == 0 and isinstance(e.value, ast.Call) and isinstance(e.value.func, ast.Attribute) and isinstance(e.value.func.value, ast.Name):
        c = e.value
        if c.func.attr == "rpartition" and len(c.args) == 1 and dot(c.args[0]):
            return c.func.value.id
        if c.func.attr == "rsplit" and len(c.args) == 2 and dot(c.args[0]) and isinstance(c.args[1], ast.Constant) and c.args[1].value == 1:
            return c.func.value.id
    if isinstance(e, ast.Subscript) and isinstance(e.slice, ast.Slice) and e.slice.lower is None and isinstance(e.value, ast.Name):
        u = e.slice.upper
        if isinstance(u, ast.Call) and isinstance(u.func, ast.Attribute) and u.func.attr in ("rfind", "rindex") and isinstance(u.func.value, ast.Name) and u.func.value.id == e.value.id and u.args and dot(u.args[0]):
            return e.value.id
    if isinstance(e, ast.Call) and isinstance(e.func, ast.Attribute) and e.func.attr == "join" and dot(e.func.value) and len(e.args) == 1:
        a = e.args[0]
        if isinstance(a, ast.Subscript) and isinstance(a.slice, ast.Slice) and a.slice.lower is None and isinstance(a.slice.upper, ast.UnaryOp) and isinstance(a.slice.upper.operand, ast.Constant) and a.slice.upper.operand.value == 1:
            c = a.value
            if isinstance(c, ast.Call) and isinstance(c.func, ast.Attribute) and c.func.attr == "split" and isinstance(c.func.value, ast.Name) and c.args and dot(c.args[0]):
                return c.func.value.id
    return None


def single_level_parent_tests(funcs: list[FuncInfo]) -> list[tuple[FuncInfo, ast.AST, str]]:
    """Comparisons of a listed module with the *direct* parent of the looked-up name only (one component cut off, never cut again
    in a loop): a module two or more levels below a listed module would not be attributed to its layer."""
    out = []
    for f in funcs:
        if isinstance(f.node, ast.Lambda):
            continue
        nodes = list(own_nodes(f.node))
        single: dict[str, ast.expr] = {}
        counts: dict[str, int] = {}
        for n in nodes:
            if isinstance(n, ast.Name) and isinstance(n.ctx, ast.Store):
                counts[n.id] = counts.get(n.id, 0) + 1
            if isinstance(n, ast.Assign) and len(n.targets) == 1 and isinstance(n.targets[0], ast.Name):
                single[n.targets[0].id] = n.value
        # variables that are cut again and again (walking up the hierarchy)
        walked: set[str] = set()
        for n in nodes:
            if isinstance(n, (ast.While, ast.For)):
                for x in ast.walk(n):
                    if isinstance(x, ast.Assign) and len(x.targets) == 1 and isinstance(x.targets[0], ast.Name):
                        v = _truncated(x.value)
                        if v is not None and v == x.targets[0].id:
                            walked.add(v)
        for n in nodes:
            if isinstance(n, ast.Compare) and len(n.ops) == 1 and isinstance(n.ops[0], (ast.Eq, ast.NotEq, ast.In, ast.NotIn)):
                for side in (n.left, n.comparators[0]):
                    e = side
                    if isinstance(e, ast.Name) and counts.get(e.id) == 1 and e.id in single and e.id not in f.param_names:
                        e = single[e.id]
                    v = _truncated(e)
                    if v is not None and v not in walked and (v in f.param_names or counts.get(v, 0) <= 1):
                        out.append((f, n, v))
    return out


def check_layer_lookup_names(repo: Repo, res: Result) -> None:
    lmap = repo.cls(EVAL_ARCH, "LayerMapping")
    lookup = repo.lookup_method(lmap, "get_layer_for_module_name")
    if lookup is None:
        raise AnalysisError("LayerMapping.get_layer_for_module_name not found (anchor of C05.R5)")
    roots = [lookup] + ([lmap.methods["__init__"]] if "__init__" in lmap.methods else [])
    reach = reachable_funcs(repo, roots, byname=False)
    reach_fq = {f.fq for f in reach}

    def reachable(fi: FuncInfo) -> bool:
        g: FuncInfo | None = fi
        while g is not None:
            if g.fq in reach_fq:
                return True
            g = g.outer
        return False

    sites = [s for s in names.scan(repo) if reachable(s.fi)]
    n = 0
    for s in sites:
        key = repo.key(s.fi, stmt_of(s.node)) + f" [{s.op}: {norm(s.node, 70)}]"
        verdict, why = s.verdict, s.why
        if verdict == "unknown" and s.op in ("startswith", "removeprefix") and s.needle is not None:
            st = needle_status(repo, s.fi, s.needle)
            if st == "dot":
                verdict, why = "safe", "the prefix is taken from a collection of names that end in '.' (whole dotted components)"
            elif st == "bare":
                verdict, why = "unsafe", f"`{norm(s.node, 80)}`: raw string prefix test on a module name - the prefix is a bare module name taken from the layer definition, so 'pkg.ab' counts as part of the layer that lists 'pkg.a'"
        if verdict in ("safe", "unsafe"):
            n += 1
            res.add("C05.R5", key, verdict == "safe", why, where(s.fi, s.node), kind="flow")
        elif verdict == "reviewed":
            res.observe(f"C05.R5 reviewed site {s.fi.relpath}::{s.fi.qualname}: `{norm(s.node, 60)}` - {why}")
        elif verdict == "unknown":
            res.undecide("C05.R5", key, why, where(s.fi, s.node))
        elif verdict == "unclassified":
            res.observe(f"C05.R5 unclassified (not armed) {s.fi.relpath}::{s.fi.qualname}: `{norm(s.node, 60)}` - {why}")
    # every ancestor (the top-level one included) and the name itself are tested
    from .c05_views import dview, family
    from .c05_walk import check_walk

    view = dview(repo, lookup, lmap, family(repo, lmap), tag="lmap")
    verdict, detail = check_walk(repo, view)
    construct = f"{lookup.relpath}::LayerMapping.get_layer_for_module_name::every ancestor is tested"
    if verdict == "undecided":
        res.undecide("C05.R5", construct, detail, where(lookup, lookup.node))
    else:
        res.add("C05.R5", construct, verdict != "violated", detail, where(lookup, lookup.node), kind="flow")
    # a binary search over the listed names compares the name under the order the list was sorted by
    from .c05_bisect import bisect_sites

    for f, call, bverdict, why in bisect_sites(repo, list(reach)):
        k = repo.key(f, stmt_of(call)) + " [search order]"
        if bverdict == "undecided":
            res.undecide("C05.R5", k, why, where(f, call))
        else:
            res.add("C05.R5", k, bverdict == "ok", why, where(f, call), kind="flow")
    # order-based skipping: with adversarially named siblings every listed ancestor is still recognised (witness run)
    from .c05_bisect import witness_fields
    from .c05_walk import order_witness

    for text, key, call in witness_fields(repo, list(reach)):
        init = lmap.methods.get("__init__")
        init_view = dview(repo, init, lmap, family(repo, lmap), tag="lmap") if init is not None else None
        wverdict, wdetail = order_witness(repo, view, text, key, init_view)
        k = f"{lookup.relpath}::LayerMapping.get_layer_for_module_name::no listed ancestor is skipped in the sorted list `{text}`"
        if wverdict == "skipped":
            res.observe(f"C05.R5 order witness for `{text}` not run: {wdetail}")
        else:
            res.add("C05.R5", k, wverdict == "ok", wdetail, where(lookup, lookup.node), kind="flow")
    res.add("C05.R5", "fixture::engine/fixtures/name_ops.py", True, names.fixture_selfcheck(), nontrivial=False)
    res.analysed["layer_lookup_functions"] = len(reach)
    res.analysed["layer_lookup_name_sites"] = n
