"""A small abstract interpreter over an inline view of a detector method: which values are the query results, what shape do
they have, and have the concrete dependency pairs passed the same-layer filter?

The two query results handed to `get_rule_violation` are dictionaries

    explicit:  (subject module, object module) -> [concrete (importer, importee) pairs]
    other   :  base module                     -> [concrete (importer, importee) pairs]

Shapes (tags) tracked for every expression of the view:

    D   such a dictionary (or a per-layer group of one)        G   layer -> D
    LL  iterable of realisation lists (D.values())             L   one collection of pairs; agg=False: one realisation list of a
    P   one concrete pair          E  one end of it                key, agg=True: pairs accumulated over several lists
    K   one key (abstract dependency / base module)   KE one end of a key   KS iterable of keys
    IT  D.items()   I one item    DS iterable of D    GI G.items()
    EN / KN  the module name (`.identifier`) of an E / KE
    GK  layer -> list of keys      CNT  layer -> summed len() of the realisation lists (Counter)      KCNT  layer -> number of keys
    CNTV / KCNTV  one value of those

Every tag carries its source ('E' explicit, 'O' other); pair-carrying tags carry `clean`: True once the pairs were added under
a guard that implies "the layers of the two ends differ" (the same-layer filter), False when not, None when a layer test guards
the addition but was not understood.  D-like tags carry `grp`: True for a per-layer group.

Nothing is executed; names are interpreted flow-insensitively (views rename clashing locals).
"""

from __future__ import annotations

import ast
from dataclasses import dataclass

from core.guards import Formula, atom, atoms_of, conds_formula, equivalent, f_and, f_not, f_or, implies, to_formula
from core.loader import FuncInfo, Repo, ancestors, norm, parent

from .c05_views import all_nodes, assignments_of, dview, single_value, stores_of, value_cases
from .common import conds

Tag = tuple
LOOKUP = "get_layer_for_module_name"
TRANSPARENT = {"list", "tuple", "set", "frozenset", "sorted", "reversed", "iter", "copy", "deepcopy"}
MULTI = {"LL", "IT", "D", "DS", "GI", "G", "KS"}


def D(src, clean=False, grp=False):
    return ("D", src, clean, grp)


def _meet(a, b):
    """clean-ness of a mixture."""
    if a is True and b is True:
        return True
    if a is False or b is False:
        return False
    return None


def elem(tags: set) -> set:
    out = set()
    for t in tags:
        k = t[0]
        if k == "D":
            out.add(("K", t[1]))
        elif k == "KS":
            out.add(("K", t[1]))
        elif k == "KSS":
            out.add(("KS", t[1]))
        elif k == "KD":
            out.add(("K", t[1]))
        elif k == "KIT":
            out.add(("KI", t[1]))
        elif k == "LL":
            out.add(("L", t[1], t[2], False, t[3]))
        elif k == "L":
            out.add(("P", t[1], t[2], t[3], t[4]))
        elif k == "IT":
            out.add(("I", t[1], t[2], t[3]))
        elif k == "DS":
            out.add(("D", t[1], t[2], True))
        elif k == "GI":
            out.add(("GI1", t[1], t[2]))
        elif k == "P":
            out.add(("E", t[1], t[2], t[3], t[4]))
        elif k == "K":
            out.add(("KE", t[1]))
        elif k == "I":
            # iterating an item tuple: key, then list (imprecise)
            out.add(("K", t[1]))
            out.add(("L", t[1], t[2], False, t[3]))
    return out


def values_of(tags: set) -> set:
    out = set()
    for t in tags:
        if t[0] == "D":
            out.add(("LL", t[1], t[2], t[3]))
        elif t[0] == "G":
            out.add(("DS", t[1], t[2]))
        elif t[0] == "GK":
            out.add(("KSS", t[1]))
    return out


def lookup_in(tags: set) -> set:
    out = set()
    for t in tags:
        if t[0] == "D":
            out.add(("L", t[1], t[2], False, t[3]))
        elif t[0] == "G":
            out.add(("D", t[1], t[2], True))
        elif t[0] == "L":
            out.add(("P", t[1], t[2], t[3], t[4]))
        elif t[0] == "P":
            out.add(("E", t[1], t[2], t[3], t[4]))
        elif t[0] == "K":
            out.add(("KE", t[1]))
        elif t[0] == "I":
            out.add(("K", t[1]))
            out.add(("L", t[1], t[2], False, t[3]))
        elif t[0] == "LL":
            out.add(("L", t[1], t[2], False, t[3]))
        elif t[0] == "GK":
            out.add(("KS", t[1]))
        elif t[0] == "CNT":
            out.add(("CNTV", t[1], t[2]))
        elif t[0] == "KCNT":
            out.add(("KCNTV", t[1]))
    return out


@dataclass
class Judgement:
    node: ast.AST
    kind: str  # 'any' (some list / the accumulated collection is non-empty) | 'all' | 'some-empty' | 'none' | 'one' (one key's own list)
    src: str
    clean: object
    grp: bool
    formula: Formula


class Shapes:
    def __init__(self, repo: Repo, T, view: FuncInfo, seeds: dict[str, set], recv=None, allow=None, depth: int = 0, lookup_cls: str | None = None) -> None:
        self.repo, self.T, self.view = repo, T, view
        self.env: dict[str, set] = {k: set(v) for k, v in seeds.items()}
        self.ret: set = set()
        self.recv, self.allow, self.depth = recv, allow, depth
        self.lookup_cls = lookup_cls
        self._summaries: dict = {}
        self._clean_cache: dict = {}
        self.unknown_filters: list[ast.AST] = []
        self.scopes: dict[int, dict[str, set]] = {}  # comprehension -> its own variables
        self.overfilters: list[tuple[ast.AST, str]] = []  # (event, condition): pairs of *different* layers are dropped as well
        self._changed = True
        self.run()

    # ------------------------------------------------------------------ driver
    def run(self) -> None:
        for _ in range(8):
            self._changed = False
            self._block(self.view.node.body)
            if not self._changed:
                break

    def _join(self, name: str, tags: set) -> None:
        if not tags:
            return
        old = self.env.setdefault(name, set())
        if not tags <= old:
            old |= tags
            self._changed = True

    def _bind(self, target: ast.expr, tags: set, scope: dict | None = None) -> None:
        if isinstance(target, ast.Name):
            if scope is not None:
                # a comprehension variable: local to its comprehension (the same name may be reused by another one)
                old = scope.setdefault(target.id, set())
                if tags and not tags <= old:
                    old |= tags
                    self._changed = True
            else:
                self._join(target.id, tags)
        elif isinstance(target, (ast.Tuple, ast.List)):
            n = len(target.elts)
            for i, el in enumerate(target.elts):
                sub: set = set()
                for t in tags:
                    if t[0] == "I" and n == 2:
                        sub.add(("K", t[1]) if i == 0 else ("L", t[1], t[2], False, t[3]))
                    elif t[0] == "KI" and n == 2:
                        if i == 0:
                            sub.add(("K", t[1]))
                    elif t[0] == "GI1" and n == 2:
                        if i == 1:
                            sub.add(("D", t[1], t[2], True))
                    elif t[0] == "P" and n == 2:
                        sub.add(("E", t[1], t[2], t[3], t[4]))
                    elif t[0] == "K" and n == 2:
                        sub.add(("KE", t[1]))
                self._bind(el, sub, scope)
        elif isinstance(target, ast.Starred):
            self._bind(target.value, tags, scope)
        elif isinstance(target, ast.Attribute):
            self._join(norm(target), tags)
        elif isinstance(target, ast.Subscript):
            self._store_subscript(target, tags)

    def _store_subscript(self, target: ast.Subscript, vt: set) -> None:
        """B[k] = v : the container B becomes D-like (v a realisation list) or G-like (v a D / B itself reached through a layer key)."""
        base = target.value
        kt = self.tags(target.slice)
        # peel `x.setdefault(l, {})` / `x[l]` : one more level of nesting
        nested = False
        root = base
        if isinstance(root, ast.Call) and isinstance(root.func, ast.Attribute) and root.func.attr in ("setdefault", "get") and root.args:
            root, nested = root.func.value, True
        elif isinstance(root, ast.Subscript):
            root, nested = root.value, True
        name = root.id if isinstance(root, ast.Name) else norm(root) if isinstance(root, ast.Attribute) else None
        if name is None:
            return
        grouped_by_layer = self._mentions_lookup_conds(target)
        add: set = set()
        for t in vt:
            if t[0] == "L":
                add.add(("G", t[1], t[2]) if nested else ("D", t[1], t[2], t[4] or grouped_by_layer))
            elif t[0] == "D":
                add.add(("G", t[1], t[2]))
        self._join(name, add)

    def _mentions_lookup_conds(self, node: ast.AST) -> bool:
        for c, _pol in conds(self.view, node):
            for x in ast.walk(c):
                if isinstance(x, ast.Call) and isinstance(x.func, ast.Attribute) and x.func.attr == LOOKUP:
                    return True
                if isinstance(x, ast.Name):
                    v = single_value(self.view, x)
                    if v is not x and any(isinstance(y, ast.Call) and isinstance(y.func, ast.Attribute) and y.func.attr == LOOKUP for y in ast.walk(v)):
                        return True
        return False

    # ------------------------------------------------------------------ statements
    def _block(self, stmts: list[ast.stmt]) -> None:
        for s in stmts:
            self._stmt(s)

    def _stmt(self, s: ast.stmt) -> None:
        if isinstance(s, ast.Assign):
            v = self.tags(s.value)
            for t in s.targets:
                self._bind(t, v)
        elif isinstance(s, ast.AnnAssign):
            if s.value is not None:
                self._bind(s.target, self.tags(s.value))
        elif isinstance(s, ast.AugAssign) and isinstance(s.target, ast.Subscript) and isinstance(s.op, ast.Add):
            # counter[layer] += len(realisations) / += 1 : per-layer accumulators
            base = s.target.value
            name = base.id if isinstance(base, ast.Name) else norm(base) if isinstance(base, ast.Attribute) else None
            v = s.value
            if name is not None:
                if isinstance(v, ast.Call) and isinstance(v.func, ast.Name) and v.func.id == "len" and v.args:
                    for t in self.tags(v.args[0]):
                        if t[0] == "L":
                            self._join(name, {("CNT", t[1], t[2])})
                elif isinstance(v, ast.Constant) and isinstance(v.value, int) and self._keyed_by_data(s):
                    self._join(name, {("KCNT", self._keyed_by_data(s))})
                else:
                    vt = self._merge(self.tags(v), s, base)
                    self._bind_container(s.target, vt)
        elif isinstance(s, ast.AugAssign):
            v = self._merge(self.tags(s.value), s, s.target)
            self._bind(s.target, v)
        elif isinstance(s, (ast.For, ast.AsyncFor)):
            self._bind(s.target, elem(self.tags(s.iter)))
            self._block(s.body)
            self._block(s.orelse)
        elif isinstance(s, ast.While):
            self._block(s.body)
            self._block(s.orelse)
        elif isinstance(s, ast.If):
            self.tags(s.test)
            self._block(s.body)
            self._block(s.orelse)
        elif isinstance(s, (ast.With, ast.AsyncWith)):
            self._block(s.body)
        elif isinstance(s, ast.Try):
            self._block(s.body)
            for h in s.handlers:
                self._block(h.body)
            self._block(s.orelse)
            self._block(s.finalbody)
        elif isinstance(s, ast.Return):
            if s.value is not None:
                v = self.tags(s.value)
                if not v <= self.ret:
                    self.ret |= v
                    self._changed = True
        elif isinstance(s, ast.Expr):
            self.tags(s.value)
        elif isinstance(s, ast.Match):
            for c in s.cases:
                self._block(c.body)

    # ------------------------------------------------------------------ collecting
    def _in_multi_loop(self, event: ast.AST, container: ast.expr | None) -> bool:
        """The event runs once per realisation list / key / group: what it fills accumulates over several lists."""
        name = container.id if isinstance(container, ast.Name) else None
        child = event
        for a in ancestors(event):
            if a is self.view.node:
                break
            its = []
            if isinstance(a, (ast.For, ast.AsyncFor)) and child is not a.iter:
                if name is not None and any(isinstance(x, ast.Name) and x.id == name and isinstance(x.ctx, ast.Store) and not isinstance(parent(x), ast.AugAssign) for st in a.body for x in ast.walk(st)):
                    return False  # created anew per iteration
                its = [a.iter]
            elif isinstance(a, (ast.ListComp, ast.SetComp, ast.GeneratorExp, ast.DictComp)):
                its = [g.iter for g in a.generators]
            for it in its:
                if any(t[0] in MULTI for t in self.tags(it)):
                    return True
            child = a
        return False

    def _collect(self, et: set, event: ast.AST, container: ast.expr | None, elt: ast.expr | None) -> set:
        """Tags of a collection that receives an element with tags `et` at `event`."""
        out: set = set()
        multi = None
        for t in et:
            k = t[0]
            if k == "P":
                if multi is None:
                    inner = elt if elt is not None and isinstance(event, (ast.ListComp, ast.SetComp, ast.GeneratorExp, ast.DictComp)) else event
                    multi = self._in_multi_loop(inner, container)
                clean = t[2]
                if clean is not True and elt is not None:
                    clean = self._filtered(event, elt, t[2])
                out.add(("L", t[1], clean, bool(multi or t[3]), t[4]))
            elif k == "K":
                out.add(("KS", t[1]))
            elif k == "L":
                out.add(("LL", t[1], t[2], t[4]))
            elif k == "D":
                out.add(("DS", t[1], t[2]))
            elif k == "I":
                out.add(("IT", t[1], t[2], t[3]))
        return out

    def _merge(self, ct: set, event: ast.AST, container: ast.expr | None) -> set:
        """Tags of a collection into which another collection is merged at `event` (extend / update / += / |=)."""
        out: set = set()
        for t in ct:
            if t[0] == "L":
                agg = t[3] or self._in_multi_loop(event, container)
                out.add(("L", t[1], t[2], agg, t[4]))
            elif t[0] == "LL":
                # x.extend(D.values()) would nest lists; `x.update(*D.values())` flattens: treat as accumulated pairs
                out.add(("LL", t[1], t[2], t[3]))
            else:
                out.add(t)
        return out

    # ------------------------------------------------------------------ the same-layer filter
    def _endpoint(self, e: ast.expr, depth: int = 0):
        """(pair id, index) when `e` denotes the module *name* of one end of a pair variable: `d[0].identifier`, `a.identifier`
        with `a, b = d` / `for a, b in ...`, or an alias of those."""
        if depth > 6:
            return None
        e = single_value(self.view, e)
        if isinstance(e, ast.Attribute) and e.attr in ("identifier", "name"):
            return self._end(e.value, depth + 1)
        if isinstance(e, ast.Call) and isinstance(e.func, ast.Name) and e.func.id == "str" and len(e.args) == 1:
            return self._endpoint(e.args[0], depth + 1)
        return self._end(e, depth + 1)  # a helper may take the module itself

    def _end(self, e: ast.expr, depth: int = 0):
        if depth > 6:
            return None
        e = single_value(self.view, e)
        if isinstance(e, ast.Subscript) and isinstance(e.slice, ast.Constant) and e.slice.value in (0, 1, -1, -2):
            base = single_value(self.view, e.value)
            if isinstance(base, ast.Name):
                return (base.id, e.slice.value % 2)
        if isinstance(e, ast.Name):
            st = stores_of(self.view, e.id)
            if len(st) == 1:
                p = parent(st[0])
                if isinstance(p, (ast.Tuple, ast.List)) and len(p.elts) == 2 and all(isinstance(x, ast.Name) for x in p.elts):
                    idx = p.elts.index(st[0])
                    pp = parent(p)
                    if isinstance(pp, ast.Assign) and isinstance(pp.value, ast.Name):
                        return (single_value(self.view, pp.value).id if isinstance(single_value(self.view, pp.value), ast.Name) else pp.value.id, idx)
                    return ("(" + ", ".join(x.id for x in p.elts) + ")", idx)
        return None

    def _is_lookup(self, e: ast.expr) -> ast.expr | None:
        """The module-name argument when `e` is a layer lookup `<mapping>.get_layer_for_module_name(<name>)`."""
        e = single_value(self.view, e)
        m = self._memo_lookup(e) if isinstance(e, (ast.Subscript, ast.Call)) and not getattr(self, "_in_memo", False) else None
        if m is not None:
            return m
        if isinstance(e, ast.Call) and len(e.args) + len(e.keywords) == 1:
            fn = e.func
            if isinstance(fn, ast.Name):
                fn = single_value(self.view, fn)  # layer_of = mapping.get_layer_for_module_name
            if isinstance(fn, ast.Attribute) and fn.attr == LOOKUP:
                return e.args[0] if e.args else e.keywords[0].value
            # a helper that was not inlined and returns the layer of its argument
            if self._is_layer_helper(e):
                return e.args[0] if e.args else e.keywords[0].value
        return None

    def _keyed_by_data(self, s: ast.stmt) -> str | None:
        """Source ('E' / 'O') when the statement runs once per key of a dependency dictionary."""
        child: ast.AST = s
        for a in ancestors(s):
            if a is self.view.node:
                break
            if isinstance(a, (ast.For, ast.AsyncFor)) and child is not a.iter:
                for t in self.tags(a.iter):
                    if t[0] in ("D", "IT", "KS"):
                        return t[1]
            child = a
        return None

    def _memo_lookup(self, e: ast.expr) -> ast.expr | None:
        """`table[x]` / `table.get(x)` where `table = {m: <layer of m> for ...}` is a memo of the layer lookup: the key x."""
        key = None
        tbl = None
        if isinstance(e, ast.Subscript) and not isinstance(e.slice, ast.Slice) and isinstance(e.value, ast.Name):
            tbl, key = e.value, e.slice
        elif isinstance(e, ast.Call) and isinstance(e.func, ast.Attribute) and e.func.attr == "get" and isinstance(e.func.value, ast.Name) and len(e.args) == 1:
            tbl, key = e.func.value, e.args[0]
        if tbl is None:
            return None
        from .c05_views import productions

        prods = productions(self.view, tbl)
        if not prods:
            return None
        for p in prods:
            if p.elt is None or p.key is None:
                return None
            a = self._is_lookup(p.elt)
            if a is None:
                return None
            a = single_value(self.view, a)
            base = a.value if isinstance(a, ast.Attribute) and a.attr in ("identifier", "name") else a
            if norm(single_value(self.view, base)) != norm(single_value(self.view, p.key)):
                return None
        return key

    def _is_layer_helper(self, call: ast.Call) -> bool:
        if self.depth > 3:
            return False
        callee = self._resolve_callee(call)
        if callee is None:
            return False
        key = ("layerfn", callee.fq)
        if key not in self._summaries:
            self._summaries[key] = False
            params = callee.param_names
            if callee.cls is not None and callee.outer is None and not callee.is_staticmethod and params:
                params = params[1:]
            if len(params) == 1:
                v = dview(self.repo, callee, self.recv, self.allow, tag="shape")
                sub = Shapes(self.repo, self.T, v, {}, self.recv, self.allow, self.depth + 1)
                rets = [n for n in all_nodes(v) if isinstance(n, ast.Return) and n.value is not None and not (isinstance(n.value, ast.Constant) and n.value.value is None)]
                ok = bool(rets)
                for r in rets:
                    a = sub._is_lookup(r.value)
                    if a is None:
                        ok = False
                        break
                    a = single_value(v, a)
                    base = a.value if isinstance(a, ast.Attribute) and a.attr in ("identifier", "name") else a
                    base = single_value(v, base)
                    if not (isinstance(base, ast.Name) and base.id == params[0]):
                        ok = False
                        break
                self._summaries[key] = ok
        return bool(self._summaries[key])

    def same_layer_atom(self, e: ast.expr):
        """Formula for `layer(X[0]) == layer(X[1])` comparisons: ('SAME:<X>', positive?) else None."""
        if isinstance(e, ast.Compare) and len(e.ops) == 1 and isinstance(e.ops[0], (ast.Eq, ast.NotEq, ast.Is, ast.IsNot)):
            a, b = self._is_lookup(e.left), self._is_lookup(e.comparators[0])
            if a is not None and b is not None:
                ea, eb = self._endpoint(a), self._endpoint(b)
                if ea is not None and eb is not None and ea[0] == eb[0] and {ea[1], eb[1]} == {0, 1}:
                    f = atom(f"SAME:{ea[0]}")
                    return f if isinstance(e.ops[0], (ast.Eq, ast.Is)) else f_not(f)
        return None

    def _pair_ids(self, elt: ast.expr) -> set[str]:
        """Identifiers under which the added pair may be referred to in a same-layer test."""
        ids: set[str] = set()
        x = single_value(self.view, elt)
        for cs, v in value_cases(self.view, elt):
            v = single_value(self.view, v)
            if isinstance(v, ast.Name):
                ids.add(v.id)
            elif isinstance(v, (ast.Tuple, ast.List)) and len(v.elts) == 2:
                ends = [self._end(z) for z in v.elts]
                if all(z is not None for z in ends) and ends[0][0] == ends[1][0]:
                    ids.add(ends[0][0])
                if all(isinstance(z, ast.Name) for z in v.elts):
                    ids.add("(" + ", ".join(z.id for z in v.elts) + ")")
            elif isinstance(v, ast.Call):
                names = [a for a in v.args if isinstance(a, ast.Name) and any(t[0] == "P" for t in self.tags(a))]
                if len(names) == 1:
                    ids.add(names[0].id)
        if isinstance(x, ast.Name):
            ids.add(x.id)
        return ids

    def guard_subst(self, extra=None):
        def subst(e: ast.expr):
            if extra is not None:
                r = extra(e)
                if r is not None:
                    return r
            r = self.same_layer_atom(e)
            if r is not None:
                return r
            if isinstance(e, ast.Compare) and len(e.ops) == 1 and isinstance(e.left, ast.Call) and isinstance(e.left.func, ast.Name) and e.left.func.id == "len" and isinstance(e.comparators[0], ast.Constant) and e.comparators[0].value == 0:
                if isinstance(e.ops[0], ast.GtE):
                    return ("const", True)  # a length is never negative
                if isinstance(e.ops[0], ast.Lt):
                    return ("const", False)
            if isinstance(e, ast.Compare) and len(e.ops) == 1 and isinstance(e.left, ast.Name) and isinstance(e.left.ctx, ast.Load) and isinstance(e.comparators[0], ast.Constant):
                # n = len(xs) ... if n != 0:   ->   if len(xs) != 0:
                asg = assignments_of(self.view, e.left.id)
                if asg and len(asg) == 1 and e.left.id not in self.view.param_names and isinstance(asg[0][1], ast.Call) and isinstance(asg[0][1].func, ast.Name) and asg[0][1].func.id in ("len", "sum"):
                    new = ast.Compare(left=asg[0][1], ops=e.ops, comparators=e.comparators)
                    j = extra(new) if extra is not None else None
                    return j if j is not None else to_formula(new, subst)
            if isinstance(e, ast.Call) and not (isinstance(e.func, ast.Name) and e.func.id in ("any", "all", "bool", "len", "isinstance", "sum", "set", "list", "tuple", "sorted")):
                r = self.pred_formula(e)
                if r is not None:
                    return r
            if isinstance(e, ast.Name) and isinstance(e.ctx, ast.Load):
                asg = assignments_of(self.view, e.id)
                if asg and len(asg) == 1 and e.id not in self.view.param_names and isinstance(asg[0][1], (ast.Compare, ast.BoolOp, ast.UnaryOp, ast.Call, ast.IfExp)):
                    v = asg[0][1]
                    if isinstance(v, ast.Call) and not (isinstance(v.func, ast.Name) and v.func.id in ("any", "all", "bool", "len", "isinstance")):
                        return None
                    return to_formula(v, subst)
            return None

        return subst

    # ------------------------------------------------------------------ predicates that were not inlined
    def _resolve_callee(self, call: ast.Call) -> FuncInfo | None:
        src = getattr(call, "_src", None)
        ctx, orig = src if src is not None else (self.view, call)
        callee = None
        if isinstance(orig, ast.Call) and isinstance(orig.func, ast.Attribute) and isinstance(orig.func.value, ast.Name) and self.recv is not None and ctx.params and orig.func.value.id == ctx.params[0].arg and ctx.cls is not None:
            callee = self.repo.lookup_method(self.recv, orig.func.attr)
        if callee is None and isinstance(orig, ast.Call):
            try:
                cs, how = self.T.callees(ctx, orig, byname_fallback=False)
            except Exception:  # noqa: BLE001
                cs, how = [], ""
            cs = [c for c in cs if not c.is_abstract]
            if len(cs) == 1 and how == "repo":
                callee = cs[0]
        if callee is None or callee.is_abstract or isinstance(callee.node, ast.Lambda):
            return None
        if self.allow is not None and not self.allow(self.view, callee):
            return None
        return callee

    def _func_of_ref(self, e: ast.expr) -> FuncInfo | None:
        """Function designated by a bare reference (`self._crosses_layers`, `helper`)."""
        src = getattr(e, "_src", None)
        ctx, orig = src if src is not None else (self.view, e)
        if isinstance(orig, ast.Attribute) and isinstance(orig.value, ast.Name) and self.recv is not None and ctx.params and orig.value.id == ctx.params[0].arg and ctx.cls is not None:
            m = self.repo.lookup_method(self.recv, orig.attr)
            if m is not None and not m.is_property:
                return m
        try:
            t = self.T.expr(ctx, orig)
        except Exception:  # noqa: BLE001
            return None
        from core.types import members

        fs = [m[1] for m in members(t) if m[0] == "fn"]
        return fs[0] if len(fs) == 1 and not isinstance(fs[0].node, ast.Lambda) else None

    def _truth_of_function(self, callee: FuncInfo, arg_tags: list[set]) -> tuple[Formula, list[str]] | None:
        """(formula of the truthiness of the result over SAME:<param> atoms, positional parameter names)."""
        if self.depth > 3:
            return None
        params = callee.param_names
        if callee.cls is not None and callee.outer is None and not callee.is_staticmethod and params:
            params = params[1:]
        key = ("truth", callee.fq)
        if key not in self._summaries:
            v = dview(self.repo, callee, self.recv, self.allow, tag="shape")
            seeds = {p: set(t) for p, t in zip(params, arg_tags)}
            sub = Shapes(self.repo, self.T, v, seeds, self.recv, self.allow, self.depth + 1)
            g = sub.guard_subst()
            parts = []
            for n in all_nodes(v):
                if isinstance(n, ast.Return):
                    if n.value is None:
                        continue
                    parts.append(f_and([conds_formula(conds(v, n), g), to_formula(n.value, g)]))
            self._summaries[key] = f_or(parts) if parts else None
        f = self._summaries[key]
        return (f, params) if f is not None else None

    def pred_formula(self, call: ast.Call) -> Formula | None:
        callee = self._resolve_callee(call)
        if callee is None:
            return None
        got = self._truth_of_function(callee, [self.tags(a) for a in call.args])
        if got is None:
            return None
        f, params = got
        ren = {}
        for p_, a in zip(params, call.args):
            e = self._end_pair_id(a)
            if e is not None:
                ren[f"SAME:{p_}"] = f"SAME:{e}"
        if not any(a.startswith("SAME:") for a in atoms_of(f)):
            return None
        return _rename_atoms(f, ren)

    def _end_pair_id(self, a: ast.expr) -> str | None:
        a = single_value(self.view, a)
        if isinstance(a, ast.Name):
            return a.id
        if isinstance(a, (ast.Tuple, ast.List)) and len(a.elts) == 2 and all(isinstance(z, ast.Name) for z in a.elts):
            return "(" + ", ".join(z.id for z in a.elts) + ")"
        return None

    def filter_cleanliness(self, fn: ast.expr) -> object:
        """True when keeping the elements for which `fn` is truthy is the same-layer filter; None when a layer test is involved
        that was not understood; False otherwise."""
        if isinstance(fn, ast.Lambda) and fn.args.args:
            pid = fn.args.args[0].arg
            f = to_formula(fn.body, self.guard_subst())
        else:
            callee = self._func_of_ref(fn)
            if callee is None:
                return False
            got = self._truth_of_function(callee, [{("P", "?", False, False, False)}])
            if got is None or not got[1]:
                return None
            f, params = got
            pid = params[0]
        same = [a for a in atoms_of(f) if a.startswith("SAME:")]
        if f"SAME:{pid}" in same and implies(f, f_not(atom(f"SAME:{pid}"))):
            return True
        return None if same else False

    def _lookup_ends(self, cs) -> list:
        """Ends of pairs whose layer is looked up somewhere in the conditions (None for a lookup of something else)."""
        out = []
        seen: set[int] = set()

        def visit(e: ast.AST, depth: int = 0) -> None:
            if depth > 4:
                return
            for x in ast.walk(e):
                if id(x) in seen:
                    continue
                seen.add(id(x))
                if isinstance(x, (ast.Call, ast.Subscript)):
                    a = self._is_lookup(x)
                    if a is not None:
                        out.append(self._endpoint(a))
                        for y in ast.walk(x):  # the lookup is accounted for: do not look inside it (memo tables, aliases)
                            seen.add(id(y))
                elif isinstance(x, ast.Name) and isinstance(x.ctx, ast.Load):
                    v = single_value(self.view, x)
                    if v is not x:
                        visit(v, depth + 1)

        for c, _p in cs:
            visit(c)
        return out

    def _filtered(self, event: ast.AST, elt: ast.expr, was) -> object:
        """True  - the guard of the event implies that the two ends of the added pair lie in different layers;
        False - it does not (no layer test, a test of one end only, the same end twice, the wrong polarity);
        None  - a test involving both ends guards the addition but was not understood."""
        key = (id(event), id(elt))
        if key in self._clean_cache:
            return self._clean_cache[key]
        cs = conds(self.view, elt) if _inside(elt, event) and isinstance(event, (ast.ListComp, ast.SetComp, ast.GeneratorExp, ast.DictComp)) else conds(self.view, event)
        f = conds_formula(cs, self.guard_subst())
        ids = self._pair_ids(elt)
        res: object = False
        same = [a for a in atoms_of(f) if a.startswith("SAME:")]
        for pid in ids:
            if implies(f, f_not(atom(f"SAME:{pid}"))) and f"SAME:{pid}" in same:
                res = True
                self._check_overfilter(event, cs, pid, ids)
        if res is False and not same:
            ends = self._lookup_ends(cs)
            mine = [e for e in ends if e is not None and e[0] in ids]
            if ends and (any(e is None for e in ends) or {e[1] for e in mine} == {0, 1}):
                # both ends (or something unresolved) are looked up, but not in a comparison that was understood
                res = None
            elif not ends:
                # some comparison of function results computed from the pair guards the addition: possibly a layer test in disguise
                base_ids = {i for i in ids if not i.startswith("(")} | {z.strip() for i in ids if i.startswith("(") for z in i.strip("()").split(",")}
                for c, _p in cs:
                    c2 = single_value(self.view, c) if isinstance(c, ast.Name) else c
                    for x in ast.walk(c2):
                        if isinstance(x, ast.Compare) and any(isinstance(y, ast.Call) for y in ast.walk(x)):
                            mentioned = {z.id for z in ast.walk(x) if isinstance(z, ast.Name)}
                            expanded = set(mentioned)
                            for nm in mentioned:
                                v = single_value(self.view, ast.Name(id=nm, ctx=ast.Load()))
                                expanded |= {z.id for z in ast.walk(v) if isinstance(z, ast.Name)}
                            if expanded & base_ids:
                                res = None
            if res is None:
                self.unknown_filters.append(event)
        self._clean_cache[key] = res
        return res

    def _check_overfilter(self, event: ast.AST, cs, pid: str, ids: set[str]) -> None:
        """The filter must drop *only* same-layer pairs: the conditions on the pair, taken together, have to hold for every
        pair whose ends lie in different layers (a module in no layer has the layer None, which differs from every layer)."""
        base_ids = {i for i in ids if not i.startswith("(")} | {z.strip() for i in ids if i.startswith("(") for z in i.strip("()").split(",")}

        def related(c: ast.expr) -> bool:
            seen: set[str] = set()
            work = [c]
            for _ in range(4):
                nxt = []
                for e in work:
                    for x in ast.walk(e):
                        if isinstance(x, ast.Name) and x.id not in seen:
                            seen.add(x.id)
                            v = single_value(self.view, x) if isinstance(x.ctx, ast.Load) else x
                            if v is not x:
                                nxt.append(v)
                work = nxt
            return bool(seen & base_ids)

        rel = [(c, pol) for c, pol in cs if related(c)]
        if not rel:
            return
        f = conds_formula(rel, self.guard_subst())
        same = atom(f"SAME:{pid}")
        extra = sorted(a for a in atoms_of(f) if a != same[1])
        if not extra:
            return
        # classify the extra atoms: tests whether the layer of one end is None
        none_of: dict[int, str] = {}
        for a in extra:
            try:
                e = ast.parse(a, mode="eval").body
            except SyntaxError:
                return
            x = None
            if isinstance(e, ast.Compare) and len(e.ops) == 1 and isinstance(e.ops[0], ast.Is) and isinstance(e.comparators[0], ast.Constant) and e.comparators[0].value is None:
                x = e.left
            if x is None:
                return  # something we cannot interpret: no claim
            arg = self._is_lookup(x)
            end = self._endpoint(arg) if arg is not None else None
            if end is None or end[0] not in ids:
                return
            none_of[end[1]] = a
        constraints = ("const", True)
        if 0 in none_of and 1 in none_of:
            constraints = f_or([f_not(f_and([atom(none_of[0]), atom(none_of[1])])), same])  # both in no layer: the same "layer"
        if not implies(f_not(same), f, constraints):
            self.overfilters.append((event, " and ".join(norm(c, 50) if pol else f"not ({norm(c, 50)})" for c, pol in rel)))

    def _lookup_alias_in(self, cs) -> bool:
        for c, _p in cs:
            for x in ast.walk(c):
                if isinstance(x, ast.Name) and self._is_lookup(x) is not None:
                    return True
        return False

    # ------------------------------------------------------------------ expressions
    def tags(self, e: ast.expr | None) -> set:
        if e is None:
            return set()
        if isinstance(e, ast.Name):
            if self.scopes:
                for a in ancestors(e):
                    sc = self.scopes.get(id(a))
                    if sc is not None and e.id in sc:
                        return set(sc[e.id])
            return set(self.env.get(e.id, ()))
        if isinstance(e, ast.Constant):
            return set()
        if isinstance(e, ast.Attribute):
            bt = self.tags(e.value)
            key = norm(e)
            out = set(self.env.get(key, ()))
            if e.attr in ("identifier", "name"):
                for t in bt:
                    if t[0] == "E":
                        out.add(("EN", t[1], t[2]))
                    elif t[0] == "KE":
                        out.add(("KN", t[1]))
                    elif t[0] == "K":
                        out.add(("KN", t[1]))  # 'other' data: the key itself is a module
            return out
        if isinstance(e, ast.Subscript):
            bt = self.tags(e.value)
            if isinstance(e.slice, ast.Slice):
                return bt
            return lookup_in(bt)
        if isinstance(e, ast.Starred):
            return self.tags(e.value)
        if isinstance(e, ast.NamedExpr):
            v = self.tags(e.value)
            self._bind(e.target, v)
            return v
        if isinstance(e, ast.IfExp):
            self.tags(e.test)
            return self.tags(e.body) | self.tags(e.orelse)
        if isinstance(e, ast.BoolOp):
            out: set = set()
            for v in e.values:
                out |= self.tags(v)
            return out
        if isinstance(e, ast.BinOp):
            lt, rt = self.tags(e.left), self.tags(e.right)
            if isinstance(e.op, (ast.Add, ast.BitOr, ast.Sub, ast.BitAnd)):
                return self._merge(lt | rt, e, None) if isinstance(e.op, (ast.Add, ast.BitOr)) else lt
            return set()
        if isinstance(e, (ast.Compare, ast.UnaryOp)):
            for x in ast.iter_child_nodes(e):
                if isinstance(x, ast.expr):
                    self.tags(x)
            return set()
        if isinstance(e, (ast.Tuple, ast.List, ast.Set)):
            ts = [self.tags(x) for x in e.elts]
            if isinstance(e, ast.Tuple) and len(e.elts) == 2:
                flat = ts[0] | ts[1]
                ends = [t for t in flat if t[0] == "E"]
                if ends and all(any(t[0] == "E" for t in x) for x in ts):
                    c = True
                    for t in ends:
                        c = _meet(c, t[2])
                    return {("P", ends[0][1], c, any(t[3] for t in ends), all(t[4] for t in ends))}
                kes = [t for t in flat if t[0] in ("KE", "K")]
                if kes:
                    return {("K", kes[0][1])}
                if any(t[0] == "L" for t in ts[1]) and not ts[0]:
                    return set()
            out = set()
            for x, t in zip(e.elts, ts):
                if isinstance(x, ast.Starred):
                    out |= t
                else:
                    out |= self._collect(t, e, None, x)
            return out
        if isinstance(e, ast.Dict):
            out = set()
            for k, v in zip(e.keys, e.values):
                if k is None:
                    out |= self.tags(v)
                else:
                    for t in self.tags(v):
                        if t[0] == "L":
                            out.add(("D", t[1], t[2], t[4]))
                        elif t[0] == "D":
                            out.add(("G", t[1], t[2]))
            return out
        if isinstance(e, (ast.ListComp, ast.SetComp, ast.GeneratorExp)):
            for g in e.generators:
                self._bind(g.target, elem(self.tags(g.iter)), self.scopes.setdefault(id(e), {}))
                for c in g.ifs:
                    self.tags(c)
            return self._collect(self.tags(e.elt), e, None, e.elt)
        if isinstance(e, ast.DictComp):
            for g in e.generators:
                self._bind(g.target, elem(self.tags(g.iter)), self.scopes.setdefault(id(e), {}))
                for c in g.ifs:
                    self.tags(c)
            kt = self.tags(e.key)
            out = {("KD", t[1]) for t in kt if t[0] == "K"}  # a table keyed by the keys of the dependency dictionary
            grouped = self._mentions_lookup_conds(e.value)
            for t in self.tags(e.value):
                if t[0] == "L":
                    out.add(("D", t[1], t[2], t[4] or grouped))
                elif t[0] == "D":
                    out.add(("G", t[1], t[2]))
            return out
        if isinstance(e, ast.Lambda):
            return set()
        if isinstance(e, ast.Yield):
            # a generator function: what it yields is what its caller collects
            if e.value is not None:
                got = self._collect(self.tags(e.value), e, None, e.value)
                if not got <= self.ret:
                    self.ret |= got
                    self._changed = True
            return set()
        if isinstance(e, ast.YieldFrom):
            got = self._merge(self.tags(e.value), e, None)
            if not got <= self.ret:
                self.ret |= got
                self._changed = True
            return set()
        if isinstance(e, ast.Call):
            return self._call(e)
        if isinstance(e, ast.JoinedStr):
            return set()
        return set()

    def _call(self, e: ast.Call) -> set:
        f = e.func
        args = [self.tags(a) for a in e.args]
        kw = {k.arg: self.tags(k.value) for k in e.keywords}
        if isinstance(f, ast.Name):
            n = f.id
            if n in TRANSPARENT and args:
                return set(args[0])
            if n in ("dict", "defaultdict", "OrderedDict"):
                return set(args[-1]) if args else set()
            if n in ("any", "all", "len", "bool", "isinstance", "print", "str", "repr", "id", "hash", "type", "min", "max") and n not in ("min", "max"):
                return set()
            if n in ("next", "min", "max") and args:
                return elem(args[0])
            if n == "sum" and args:
                return self._flatten(args[0])
            if n in ("filter",) and len(args) == 2:
                c = self.filter_cleanliness(e.args[0])
                out = set()
                for t in args[1]:
                    if t[0] == "L" and t[2] is not True and c is not False:
                        out.add(("L", t[1], c, t[3], t[4]))
                        if c is None:
                            self.unknown_filters.append(e)
                    else:
                        out.add(t)
                return out
            if n in ("map",) and len(args) == 2:
                # map(fn, xs): what fn returns for an element of xs, collected
                et = elem(args[1])
                fn = e.args[0]
                got = None
                if isinstance(fn, ast.Lambda):
                    if fn.args.args:
                        self._bind(ast.Name(id=fn.args.args[0].arg, ctx=ast.Store()), et)
                    got = self.tags(fn.body)
                else:
                    callee = self._func_of_ref(fn)
                    if callee is not None and (self.allow is None or self.allow(self.view, callee)):
                        got = self._summary_of(callee, [et], {})
                if got is None:
                    got = {t for t in et if t[0] in ("P", "K")}
                return self._collect(got, e, None, None)
            if n in ("product",) and args:
                out = set()
                for t in args[0]:
                    if t[0] in ("KS", "D"):
                        out.add(("KS", t[1]))
                return out
            if n in ("zip", "enumerate"):
                return set()
            if n == "super":
                return set()
        if isinstance(f, ast.Attribute):
            recv = self.tags(f.value)
            a = f.attr
            if a == "values":
                return values_of(recv)
            if a == "keys":
                return {("KS", t[1]) for t in recv if t[0] in ("D", "KD")}
            if a == "items":
                return {("IT", t[1], t[2], t[3]) for t in recv if t[0] == "D"} | {("GI", t[1], t[2]) for t in recv if t[0] == "G"} | {("KIT", t[1]) for t in recv if t[0] == "KD"}
            if a in ("get", "pop", "setdefault", "__getitem__"):
                out = lookup_in(recv)
                if a in ("get", "setdefault") and len(args) > 1:
                    out |= args[1]
                return out
            if a in ("copy", "union", "intersection", "difference"):
                out = set(recv)
                if a == "union":
                    for x, t in zip(e.args, args):
                        out |= self._flatten(t) if isinstance(x, ast.Starred) else self._merge(t, e, None)
                return out
            if a in ("append", "add", "appendleft", "insert") and e.args:
                got = self._collect(args[-1], e, f.value, e.args[-1])
                self._bind_container(f.value, got)
                return set()
            if a in ("extend", "update", "extendleft") and e.args:
                got = set()
                for x, t in zip(e.args, args):
                    got |= self._flatten(t) if isinstance(x, ast.Starred) else self._merge(t, e, f.value)
                self._bind_container(f.value, got)
                return set()
            if a in ("from_iterable",) and args:
                return self._flatten(args[0])
            if a == "chain":
                out = set()
                for x, t in zip(e.args, args):
                    out |= self._flatten(t) if isinstance(x, ast.Starred) else t
                return out
            if a == LOOKUP:
                return set()
        # helper of the analysed class (used inside an expression, so not inlined): analyse it with the argument shapes
        got = self._summary(e, args, kw)
        if got is not None:
            return got
        # anything else: the result is derived from the arguments
        out = set()
        for t in [*args, *kw.values()]:
            out |= {x for x in t if x[0] in ("P", "K", "L", "D", "LL", "KS")}
        return out

    def _flatten(self, tags: set) -> set:
        out = set()
        for t in tags:
            if t[0] == "LL":
                out.add(("L", t[1], t[2], True, t[3]))
            elif t[0] in ("D", "DS", "KSS"):
                out.add(("KS", t[1]))
            else:
                out.add(t)
        return out

    def _bind_container(self, c: ast.expr, tags: set) -> None:
        while isinstance(c, ast.Call) and isinstance(c.func, ast.Attribute) and c.func.attr in ("setdefault", "get"):
            # x.setdefault(k, []).append(p): x becomes D-like
            inner = c.func.value
            add = set()
            for t in tags:
                if t[0] == "L":
                    add.add(("D", t[1], t[2], t[4]))
                elif t[0] == "KS":
                    add.add(("GK", t[1]))
            self._bind_container(inner, add)
            return
        if isinstance(c, ast.Subscript):
            add = set()
            for t in tags:
                if t[0] == "L":
                    add.add(("D", t[1], t[2], t[4]))
                elif t[0] == "KS":
                    add.add(("GK", t[1]))
            self._bind_container(c.value, add)
            return
        if isinstance(c, ast.Name):
            self._join(c.id, tags)
        elif isinstance(c, ast.Attribute):
            self._join(norm(c), tags)

    def _summary(self, call: ast.Call, args: list[set], kw: dict) -> set | None:
        if self.depth > 3:
            return None
        callee = self._resolve_callee(call)
        if callee is None:
            return None
        return self._summary_of(callee, args, kw)

    def _summary_of(self, callee: FuncInfo, args: list[set], kw: dict) -> set | None:
        if self.depth > 3:
            return None
        params = callee.param_names
        if callee.cls is not None and callee.outer is None and not callee.is_staticmethod and params:
            params = params[1:]
        seeds: dict[str, set] = {}
        for p, t in zip(params, args):
            seeds[p] = set(t)
        for k, t in kw.items():
            if k in params:
                seeds[k] = set(t)
        key = (callee.fq, tuple(sorted((k, tuple(sorted(map(repr, v)))) for k, v in seeds.items())))
        if key in self._summaries:
            return self._summaries[key]
        self._summaries[key] = set()
        v = dview(self.repo, callee, self.recv, self.allow, tag="shape")
        sub = Shapes(self.repo, self.T, v, seeds, self.recv, self.allow, self.depth + 1)
        self.unknown_filters += sub.unknown_filters
        self._summaries[key] = sub.ret
        self.sub_shapes = getattr(self, "sub_shapes", []) + [sub]
        return sub.ret

    # ------------------------------------------------------------------ judgements
    def judgements(self) -> list[Judgement]:
        """Emptiness decisions on dependency data anywhere in the view (and in helpers analysed for it)."""
        out: list[Judgement] = []
        seen: set[int] = set()

        def classify(x: ast.expr) -> Judgement | None:
            """`x` evaluated for truthiness / length."""
            if isinstance(x, ast.Call) and isinstance(x.func, ast.Name) and x.func.id in ("any", "all") and len(x.args) == 1:
                a = x.args[0]
                if isinstance(a, (ast.GeneratorExp, ast.ListComp, ast.SetComp)) and len(a.generators) >= 1:
                    it_tags: set = set()
                    for g in a.generators:
                        it_tags |= self.tags(g.iter)
                    pj = self._pair_level(x, a, x.func.id)
                    if pj is not None:
                        return pj
                    # which emptiness does the element test decide?
                    inner = self._inner_polarity(a.elt)
                    data = [t for t in it_tags if t[0] in ("LL", "IT", "D", "DS", "L")]
                    if inner is None or not data:
                        return None
                    t = data[0]
                    src, clean = t[1], t[2]
                    grp = bool(t[3]) if t[0] in ("LL", "IT", "D") else (t[0] == "DS")
                    lists = [z for z in self._elt_subjects(a.elt) if z[0] == "L"]
                    if lists:
                        clean = lists[0][2]
                    pos, neg = inner
                    if x.func.id == "any":
                        kind = "any" if pos else "some-empty"
                    else:
                        kind = "all" if pos else "none"
                    return Judgement(x, kind, src, clean, grp, self._jformula(kind, src, clean))
                t_ = [t for t in self.tags(a) if t[0] in ("LL", "L")]
                if t_:
                    t = t_[0]
                    if t[0] == "LL":
                        kind = "any" if x.func.id == "any" else "all"
                        return Judgement(x, kind, t[1], t[2], bool(t[3]), self._jformula(kind, t[1], t[2]))
                return None
            if isinstance(x, ast.Compare) and len(x.ops) == 1 and isinstance(x.left, ast.Call) and isinstance(x.left.func, ast.Name) and x.left.func.id == "sum" and x.left.args and isinstance(x.comparators[0], ast.Constant) and x.comparators[0].value in (0, 1):
                # sum(len(v) for v in lists) > 0  ==  any(len(v) > 0 for v in lists)
                g = x.left.args[0]
                op, c0 = x.ops[0], x.comparators[0].value
                positive = (isinstance(op, (ast.Gt, ast.NotEq)) and c0 == 0) or (isinstance(op, ast.GtE) and c0 == 1)
                negative = (isinstance(op, (ast.Eq, ast.LtE)) and c0 == 0) or (isinstance(op, ast.Lt) and c0 == 1)
                if isinstance(g, (ast.GeneratorExp, ast.ListComp)) and (positive or negative):
                    elt = g.elt
                    inner_any = None
                    if isinstance(elt, ast.Call) and isinstance(elt.func, ast.Name) and elt.func.id == "len" and elt.args:
                        fake = ast.Call(func=ast.Name(id="any", ctx=ast.Load()), args=[g], keywords=[])
                        ls_ = [t for t in self.tags(elt.args[0]) if t[0] == "L"]
                        if ls_:
                            t = ls_[0]
                            its = set()
                            for gg in g.generators:
                                its |= self.tags(gg.iter)
                            data = [z for z in its if z[0] in ("LL", "IT", "D", "DS")]
                            grp = bool(data[0][3]) if data and data[0][0] in ("LL", "IT", "D") else bool(data and data[0][0] == "DS") or bool(t[4])
                            kind = "any" if positive else "none"
                            if t[3]:
                                grp = bool(t[4])
                            return Judgement(x, kind, t[1], t[2], grp, self._jformula(kind, t[1], t[2]))
                return None
            if isinstance(x, ast.Compare) and len(x.ops) == 1 and isinstance(x.comparators[0], ast.Constant) and x.comparators[0].value in (0, 1):
                cv = [t for t in self.tags(x.left) if t[0] == "CNTV"]
                if cv:
                    # counter[layer] == 0 : the summed length of the layer's realisation lists
                    op, c0 = x.ops[0], x.comparators[0].value
                    positive = (isinstance(op, (ast.Gt, ast.NotEq)) and c0 == 0) or (isinstance(op, ast.GtE) and c0 == 1)
                    negative = (isinstance(op, (ast.Eq, ast.LtE)) and c0 == 0) or (isinstance(op, ast.Lt) and c0 == 1)
                    if positive or negative:
                        kind = "any" if positive else "none"
                        return Judgement(x, kind, cv[0][1], cv[0][2], True, self._jformula(kind, cv[0][1], cv[0][2]))
                return None
            ts = self.tags(x)
            cv = [t for t in ts if t[0] == "CNTV"]
            if cv:
                return Judgement(x, "any", cv[0][1], cv[0][2], True, self._jformula("any", cv[0][1], cv[0][2]))
            ls = [t for t in ts if t[0] == "L"]
            if ls:
                t = ls[0]
                if any(z[3] for z in ls):
                    c = True
                    for z in ls:
                        c = _meet(c, z[2])
                    return Judgement(x, "any", t[1], c, all(bool(z[4]) for z in ls), self._jformula("any", t[1], c))
                return Judgement(x, "one", t[1], t[2], bool(t[4]), atom(f"ONE:{t[1]}:{norm(x, 40)}"))
            return None

        for n in all_nodes(self.view):
            cands: list[ast.expr] = []
            if isinstance(n, (ast.If, ast.While, ast.IfExp, ast.Assert)):
                cands.append(n.test)
            elif isinstance(n, ast.comprehension):
                cands += n.ifs
            elif isinstance(n, ast.Call) and isinstance(n.func, ast.Name) and n.func.id in ("len", "bool") and n.args:
                cands.append(n.args[0])
            elif isinstance(n, ast.Call) and isinstance(n.func, ast.Name) and n.func.id in ("any", "all") and n.args:
                cands.append(n)
            elif isinstance(n, ast.UnaryOp) and isinstance(n.op, ast.Not):
                cands.append(n.operand)
            elif isinstance(n, ast.BoolOp):
                cands += n.values
            elif isinstance(n, ast.Compare) and len(n.ops) == 1 and isinstance(n.ops[0], (ast.Eq, ast.NotEq)) and isinstance(n.comparators[0], (ast.List, ast.Set, ast.Tuple, ast.Call)) and _is_empty_literal(n.comparators[0]):
                cands.append(n.left)
            elif isinstance(n, ast.Compare) and len(n.ops) == 1 and isinstance(n.left, ast.Call) and isinstance(n.left.func, ast.Name) and n.left.func.id == "sum":
                cands.append(n)
            elif isinstance(n, ast.Compare) and len(n.ops) == 1 and isinstance(n.comparators[0], ast.Constant) and any(t[0] == "CNTV" for t in self.tags(n.left)):
                cands.append(n)
            elif isinstance(n, (ast.GeneratorExp, ast.ListComp, ast.SetComp)) and isinstance(parent(n), ast.Call) and isinstance(parent(n).func, ast.Name) and parent(n).func.id in ("any", "all"):
                cands.append(n.elt)
            for c in cands:
                while isinstance(c, ast.UnaryOp) and isinstance(c.op, ast.Not):
                    c = c.operand
                if id(c) in seen:
                    continue
                seen.add(id(c))
                j = classify(c)
                if j is not None:
                    out.append(j)
        for s in getattr(self, "sub_shapes", []):
            out += s.judgements()
        return out

    def _pair_level(self, x: ast.Call, a, fn: str) -> Judgement | None:
        """any(<test on one pair> for lists in D.values() for pair in lists): a decision on the flattened pairs."""
        pgen = None
        for g in a.generators:
            if any(t[0] == "L" for t in self.tags(g.iter)):
                pgen = g
        if pgen is None or fn != "any":
            return None
        lt = [t for t in self.tags(pgen.iter) if t[0] == "L"][0]
        src, clean, grp = lt[1], lt[2], bool(lt[4])
        pid = self._end_pair_id(pgen.target) if isinstance(pgen.target, (ast.Name, ast.Tuple)) else None
        conds_ = [c for g in a.generators for c in g.ifs]
        f = f_and([to_formula(c, self.guard_subst()) for c in conds_] + [to_formula(a.elt, self.guard_subst())])
        elt_is_pair = any(t[0] == "P" for t in self.tags(a.elt))
        if isinstance(a.elt, ast.Constant) and a.elt.value and not conds_:
            pass  # any(True for ...): the raw pairs
        elif elt_is_pair and not conds_:
            pass
        else:
            same = [z for z in atoms_of(f) if z.startswith("SAME:")]
            if clean is not True:
                if pid is not None and f"SAME:{pid}" in same and implies(f, f_not(atom(f"SAME:{pid}"))):
                    clean = True
                elif same or not (isinstance(a.elt, ast.Constant) or elt_is_pair):
                    clean = None
        return Judgement(x, "any", src, clean, grp, self._jformula("any", src, clean))

    def _elt_subjects(self, elt: ast.expr) -> list[Tag]:
        out = []
        for x in ast.walk(elt):
            if isinstance(x, (ast.Name, ast.Subscript, ast.Attribute, ast.Call)):
                out += [t for t in self.tags(x) if t[0] == "L"]
        return out

    def _inner_polarity(self, elt: ast.expr) -> tuple[bool, bool] | None:
        """(positive?, negative?) - does the element test of any()/all() say 'this list is non-empty' or 'this list is empty'?"""
        subjects = [x for x in ast.walk(elt) if isinstance(x, (ast.Name, ast.Subscript)) and any(t[0] == "L" for t in self.tags(x))]
        if not subjects:
            return None
        names = {norm(s_) for s_ in subjects}

        def sub(e):
            if norm(e) in names:
                return atom("NONEMPTY")
            return None

        f = to_formula(elt, sub)
        if atoms_of(f) != {"NONEMPTY"}:
            return None
        if equivalent(f, atom("NONEMPTY")):
            return True, False
        if equivalent(f, f_not(atom("NONEMPTY"))):
            return False, True
        return None

    @staticmethod
    def _jformula(kind: str, src: str, clean) -> Formula:
        a_any, a_all = atom(f"ANY:{src}:{clean}"), atom(f"ALL:{src}:{clean}")
        return {"any": a_any, "none": f_not(a_any), "all": a_all, "some-empty": f_not(a_all)}[kind]


def _is_empty_literal(e: ast.expr) -> bool:
    if isinstance(e, (ast.List, ast.Set, ast.Tuple)):
        return not e.elts
    return isinstance(e, ast.Call) and isinstance(e.func, ast.Name) and e.func.id in ("set", "list", "tuple", "frozenset") and not e.args


def _inside(node: ast.AST, container: ast.AST) -> bool:
    return node is container or any(a is container for a in ancestors(node))


def _rename_atoms(f: Formula, ren: dict[str, str]) -> Formula:
    if f[0] == "atom":
        return ("atom", ren.get(f[1], f[1]))
    if f[0] == "const":
        return f
    if f[0] == "not":
        return ("not", _rename_atoms(f[1], ren))
    return (f[0], [_rename_atoms(g, ren) for g in f[1]])
