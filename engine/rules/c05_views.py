"""Helpers of the C05 rules that work on *inline views* (core/inline_stmt.py).

  dview(repo, fi, recv)            inline view of a method as executed on an instance of class `recv`: `self.m()` calls are resolved
                                   against `recv` (devirtualised), so template-method / hook refactorings stay invisible
  productions(view, expr)          the *events* that put an element into the collection denoted by `expr`, in all spellings:
                                   comprehension, `x.append(e)` / `x.add(e)` in loops, `x.extend(gen)`, `x += [...]`, `x = x + [...]`,
                                   literals, conditional expressions, list()/set()/sorted()/tuple() wrappers
  value_cases(view, expr)          the expressions a value may stand for, following single-target assignments with their guards
  origin(view, node)               (function, node) a node of the view was copied from (for messages)

Nothing is executed.
"""

from __future__ import annotations

import ast
from dataclasses import dataclass
from typing import Callable, Iterable

from core.cfg import exit_kinds
from core.inline_stmt import Inliner
from core.loader import ClassInfo, FuncInfo, Repo, ancestors, parent
from core.types import Types

from .common import conds, stmt_of, types_of

TRANSPARENT = {"list", "tuple", "set", "frozenset", "sorted", "reversed", "iter"}
ADDERS = {"append", "add", "appendleft"}
EXTENDERS = {"extend", "update", "extendleft", "union"}


# --------------------------------------------------------------------------- generators as collectors


def _is_generator(fn: ast.AST) -> bool:
    from core.loader import own_nodes

    return any(isinstance(n, (ast.Yield, ast.YieldFrom)) for n in own_nodes(fn))


def collector_of(repo: Repo, callee: FuncInfo) -> FuncInfo | None:
    """A generator function rewritten as the function that returns the list of everything it yields (`yield x` ->
    `yielded.append(x)`, `yield from xs` -> `yielded.extend(xs)`, `return` -> `return yielded`): the same elements under the same
    conditions for every consumer that iterates the result, which is all the rules ask about.  None when a yield is used as
    an expression (send protocol) or sits where a statement cannot be put."""
    cache = repo.__dict__.setdefault("_c05_collectors", {})
    if callee.fq in cache:
        return cache[callee.fq]
    from core.loader import set_parents

    node = clone(callee.node)
    name = "yielded"
    used = {n.id for n in ast.walk(node) if isinstance(n, ast.Name)} | {a.arg for a in ast.walk(node) if isinstance(a, ast.arg)}
    while name in used:
        name += "_"
    ok = True

    def load() -> ast.Name:
        return ast.Name(id=name, ctx=ast.Load())

    class Rewrite(ast.NodeTransformer):
        def visit_FunctionDef(self, n):  # noqa: N802
            return n if n is not node else self.generic_visit(n)

        visit_AsyncFunctionDef = visit_FunctionDef  # noqa: N815

        def visit_Lambda(self, n):  # noqa: N802
            return n

        def visit_Expr(self, n: ast.Expr):  # noqa: N802
            v = n.value
            if isinstance(v, ast.Yield):
                call = ast.Call(func=ast.Attribute(value=load(), attr="append", ctx=ast.Load()), args=[v.value if v.value is not None else ast.Constant(value=None)], keywords=[])
                return ast.copy_location(ast.Expr(value=ast.copy_location(call, n)), n)
            if isinstance(v, ast.YieldFrom):
                call = ast.Call(func=ast.Attribute(value=load(), attr="extend", ctx=ast.Load()), args=[v.value], keywords=[])
                return ast.copy_location(ast.Expr(value=ast.copy_location(call, n)), n)
            return n

        def visit_Return(self, n: ast.Return):  # noqa: N802
            nonlocal ok
            if n.value is not None and not (isinstance(n.value, ast.Constant) and n.value.value is None):
                ok = False  # the StopIteration value of a generator
            return ast.copy_location(ast.Return(value=load()), n)

    Rewrite().visit(node)
    if not ok or any(isinstance(n, (ast.Yield, ast.YieldFrom)) for n in ast.walk(node) if not isinstance(n, ast.Lambda)):
        cache[callee.fq] = None
        return None
    init = ast.Assign(targets=[ast.Name(id=name, ctx=ast.Store())], value=ast.List(elts=[], ctx=ast.Load()))
    first = node.body[0] if node.body else node
    ast.copy_location(init, first)
    ast.copy_location(init.targets[0], first)
    ast.copy_location(init.value, first)
    doc = 1 if node.body and isinstance(node.body[0], ast.Expr) and isinstance(node.body[0].value, ast.Constant) and isinstance(node.body[0].value.value, str) else 0
    node.body.insert(doc, init)
    last = node.body[-1]
    if not isinstance(last, ast.Return):
        ret = ast.Return(value=load())
        ast.copy_location(ret, last)
        ret.lineno = getattr(last, "end_lineno", getattr(last, "lineno", 1))
        node.body.append(ret)
    ast.fix_missing_locations(node)
    set_parents(node)
    out = FuncInfo(name=callee.name, qualname=callee.qualname, node=node, module=callee.module, cls=callee.cls, decorators=list(callee.decorators), outer=callee.outer)
    out.collector_of = callee  # type: ignore[attr-defined]
    cache[callee.fq] = out
    return out


# --------------------------------------------------------------------------- devirtualised views


class DevirtInliner(Inliner):
    """Inline view for a fixed dynamic receiver class: `self.m(..)` written in any class of the receiver's MRO is bound to the
    implementation an instance of `recv` would execute."""

    def __init__(self, repo: Repo, types: Types, recv: ClassInfo | None, allow=None, max_depth: int = 6) -> None:
        super().__init__(repo, types, allow, max_depth)
        self.recv = recv
        self.recv_mro = {c.fq for c in repo.mro(recv)} if recv is not None else set()

    def _resolve(self, ctx: FuncInfo, call: ast.Call):  # noqa: D401
        got = self._resolve_plain(ctx, call)
        if got is not None and not isinstance(got.node, ast.Lambda) and _is_generator(got.node):
            # a generator helper is inlined as the list of what it yields
            return collector_of(self.repo, got) or got
        return got

    def _resolve_plain(self, ctx: FuncInfo, call: ast.Call):
        src = getattr(call, "_src", None)
        c_ctx, orig = src if src is not None else (ctx, call)
        if self.recv is not None and isinstance(orig, ast.Call) and isinstance(orig.func, ast.Attribute):
            v = orig.func.value
            if isinstance(v, ast.Name) and c_ctx.cls is not None and c_ctx.cls.fq in self.recv_mro and c_ctx.params and v.id == c_ctx.params[0].arg and not c_ctx.is_staticmethod and c_ctx.outer is None:
                m = self.repo.lookup_method(self.recv, orig.func.attr)
                if m is not None:
                    return None if m.is_abstract or m.is_property else m
        got = super()._resolve(ctx, call)
        if got is None and self.recv is not None and isinstance(call.func, ast.Attribute) and isinstance(call.func.value, ast.Name):
            # a callable *parameter* of a helper that was bound to `self.method` when the helper was inlined
            # (`self._guarded(flag, data, self._find)` -> `find(data)` has become `self._find(data)` in the view)
            fsrc = getattr(call.func, "_src", None) or getattr(call.func.value, "_src", None)
            o_src = getattr(call, "_src", None)
            if fsrc is not None and o_src is not None and isinstance(o_src[1], ast.Call) and isinstance(o_src[1].func, ast.Name):
                f_ctx = fsrc[0]
                if f_ctx.cls is not None and f_ctx.cls.fq in self.recv_mro and f_ctx.params and call.func.value.id == f_ctx.params[0].arg and not f_ctx.is_staticmethod:
                    m = self.repo.lookup_method(self.recv, call.func.attr)
                    if m is not None and not m.is_abstract and not m.is_property:
                        return m
        return got

    # -- hoisting: `if self._helper(x):` / `f(self._helper(x))` / `{.. for d in self._helper(x)}`  ->  `t = self._helper(x)` in front,
    #    so that multi-statement helpers used inside an expression are inlined like the statement forms
    def _hoistable(self, ctx: FuncInfo, call: ast.Call, stack: tuple[str, ...]) -> FuncInfo | None:
        if len(stack) > self.max_depth:
            return None
        callee = self._resolve(ctx, call)
        if callee is None or callee.fq in stack or isinstance(callee.node, ast.Lambda) or not self._eligible(ctx, callee, "assign"):
            return None
        body = [s for s in callee.node.body if not (isinstance(s, ast.Expr) and isinstance(s.value, ast.Constant) and isinstance(s.value.value, str))]
        if len(body) == 1 and isinstance(body[0], ast.Return):
            return None  # expression-level inlining handles it
        return callee

    def _hoist(self, ctx: FuncInfo, s: ast.stmt, taken: set[str], stack: tuple[str, ...]) -> list[ast.stmt]:
        pre: list[ast.stmt] = []

        def walk(e):
            if e is None or not isinstance(e, ast.AST):
                return e
            if isinstance(e, (ast.Lambda,)):
                return e
            if isinstance(e, (ast.ListComp, ast.SetComp, ast.GeneratorExp, ast.DictComp)):
                if e.generators:
                    e.generators[0].iter = walk(e.generators[0].iter)
                return e
            if isinstance(e, ast.IfExp):
                e.test = walk(e.test)
                return e
            if isinstance(e, ast.BoolOp):
                if e.values:
                    e.values[0] = walk(e.values[0])
                return e
            if isinstance(e, ast.NamedExpr) and isinstance(e.target, ast.Name):
                # `if (x := f()) and ...:`  ->  `x = f()` in front (evaluated unconditionally at this position)
                e.value = walk(e.value)
                st = ast.Assign(targets=[ast.Name(id=e.target.id, ctx=ast.Store())], value=e.value)
                ast.copy_location(st, e)
                ast.copy_location(st.targets[0], e)
                pre.append(st)
                new = ast.Name(id=e.target.id, ctx=ast.Load())
                ast.copy_location(new, e)
                return new
            if isinstance(e, ast.Call):
                if isinstance(e.func, ast.Attribute):
                    e.func.value = walk(e.func.value)
                e.args = [walk(a) for a in e.args]
                for k in e.keywords:
                    k.value = walk(k.value)
                callee = self._hoistable(ctx, e, stack)
                if callee is not None:
                    base = f"{callee.name.strip('_')}_result"
                    tmp, i = base, 2
                    while tmp in taken:
                        tmp = f"{base}{i}"
                        i += 1
                    taken.add(tmp)
                    st = ast.Assign(targets=[ast.Name(id=tmp, ctx=ast.Store())], value=e)
                    ast.copy_location(st, e)
                    ast.copy_location(st.targets[0], e)
                    pre.append(st)
                    new = ast.Name(id=tmp, ctx=ast.Load())
                    ast.copy_location(new, e)
                    if hasattr(e, "_src"):
                        new._hoisted = e._src  # type: ignore[attr-defined]
                    return new
                return e
            for f in e._fields:
                v = getattr(e, f, None)
                if isinstance(v, ast.AST):
                    setattr(e, f, walk(v))
                elif isinstance(v, list):
                    setattr(e, f, [walk(x) if isinstance(x, ast.AST) else x for x in v])
            return e

        def top(e):
            """Root expression of a statement: a call in this position is inlined by the statement forms - only look below it."""
            if isinstance(e, ast.Call):
                if isinstance(e.func, ast.Attribute):
                    e.func.value = walk(e.func.value)
                e.args = [walk(a) for a in e.args]
                for k in e.keywords:
                    k.value = walk(k.value)
                return e
            return walk(e)

        if isinstance(s, (ast.Assign, ast.AnnAssign, ast.Return, ast.Expr)) and getattr(s, "value", None) is not None:
            s.value = top(s.value)
        elif isinstance(s, ast.AugAssign):
            s.value = walk(s.value)
        elif isinstance(s, ast.If):
            s.test = walk(s.test)
        elif isinstance(s, (ast.For, ast.AsyncFor)):
            s.iter = walk(s.iter)
        elif isinstance(s, ast.Raise) and s.exc is not None:
            s.exc = walk(s.exc)
        elif isinstance(s, ast.Assert):
            s.test = walk(s.test)
        return pre

    def _split_conditional(self, ctx: FuncInfo, s: ast.stmt) -> ast.stmt:
        """`return a if c else f(x)` / `v = a if c else f(x)`  ->  if/else statements, when a branch calls a helper that can be
        inlined (a call inside a conditional expression cannot be hoisted in front of the statement)."""
        v = getattr(s, "value", None)
        if not isinstance(v, ast.IfExp) or not isinstance(s, (ast.Return, ast.Assign, ast.AnnAssign)):
            return s
        if isinstance(s, ast.Assign) and not (len(s.targets) == 1 and isinstance(s.targets[0], ast.Name)):
            return s
        if isinstance(s, ast.AnnAssign) and not isinstance(s.target, ast.Name):
            return s
        if not any(isinstance(x, ast.Call) and self._resolve(ctx, x) is not None for br in (v.body, v.orelse) for x in ast.walk(br)):
            return s

        def branch(e: ast.expr) -> ast.stmt:
            if isinstance(s, ast.Return):
                st: ast.stmt = ast.Return(value=e)
            elif isinstance(s, ast.Assign):
                st = ast.Assign(targets=[ast.Name(id=s.targets[0].id, ctx=ast.Store())], value=e)
            else:
                st = ast.AnnAssign(target=ast.Name(id=s.target.id, ctx=ast.Store()), annotation=s.annotation, value=e, simple=1)
            ast.copy_location(st, e)
            for t in getattr(st, "targets", []):
                ast.copy_location(t, e)
            if hasattr(s, "_src"):
                st._src = s._src  # type: ignore[attr-defined]
            return st

        new = ast.If(test=v.test, body=[self._split_conditional(ctx, branch(v.body))], orelse=[self._split_conditional(ctx, branch(v.orelse))])
        ast.copy_location(new, s)
        if hasattr(s, "_src"):
            new._src = s._src  # type: ignore[attr-defined]
        return new

    def _block(self, ctx: FuncInfo, stmts: list[ast.stmt], taken: set[str], origin: dict, stack: tuple[str, ...]) -> list[ast.stmt]:
        expanded: list[ast.stmt] = []
        for s in stmts:
            s = self._split_conditional(ctx, s)
            expanded += self._hoist(ctx, s, taken, stack)
            expanded.append(s)
        return super()._block(ctx, expanded, taken, origin, stack)


def dview(repo: Repo, fi: FuncInfo, recv: ClassInfo | None = None, allow: Callable[[FuncInfo, FuncInfo], bool] | None = None, max_depth: int = 6, tag: str = "", normalise: bool = False) -> FuncInfo:
    """`normalise`: functional idioms (map / filter / chain / attrgetter / partial ...) are rewritten as comprehensions
    (rules/c05_functional.py) before anything reads the view."""
    cache = repo.__dict__.setdefault("_c05_views", {})
    key = (fi.fq, recv.fq if recv else None, tag, max_depth, normalise)
    if key not in cache:
        v = DevirtInliner(repo, types_of(repo), recv, allow, max_depth).view(fi)
        if normalise:
            from .c05_functional import normalise_view

            normalise_view(repo, v)
        cache[key] = v
    return cache[key]


def family(repo: Repo, cls: ClassInfo, keep_out: tuple[str, ...] = ()) -> Callable[[FuncInfo, FuncInfo], bool]:
    """Inlining policy: helpers of the class hierarchy of `cls` and module-level functions (a helper may be moved out of the
    class); methods of *other* classes stay calls - they are the vocabulary the rules are written in."""
    mro = {c.fq for c in repo.mro(cls)}

    def allow(caller: FuncInfo, callee: FuncInfo) -> bool:
        if callee.cls is None:
            return callee.module.name not in keep_out
        return callee.cls.fq in mro

    return allow


def origin(view: FuncInfo, node: ast.AST) -> tuple[FuncInfo, ast.AST]:
    n: ast.AST | None = node
    while n is not None:
        src = getattr(n, "_src", None)
        if src is not None and hasattr(src[1], "lineno"):
            return src
        n = parent(n)
    return getattr(view, "base", view), node


def where_of(view: FuncInfo, node: ast.AST) -> str:
    f, n = origin(view, node)
    return f"{f.relpath}:{getattr(n, 'lineno', 0)}"


def key_of(repo: Repo, view: FuncInfo, node: ast.AST, suffix: str = "") -> str:
    f, n = origin(view, node)
    st = stmt_of(n) if not isinstance(n, (ast.stmt, ast.ExceptHandler)) else n
    return repo.key(f, st if st is not None else n) + suffix


def all_nodes(view: FuncInfo) -> Iterable[ast.AST]:
    """Every node of the view including the bodies of nested lambdas (they are part of the mechanism)."""
    for s in view.node.body:
        yield from ast.walk(s)


# --------------------------------------------------------------------------- definitions and value cases


def stores_of(view: FuncInfo, name: str) -> list[ast.AST]:
    """Statements / comprehension generators of the view that (re)bind the plain name."""
    out = []
    for n in all_nodes(view):
        if isinstance(n, ast.Name) and n.id == name and isinstance(n.ctx, ast.Store):
            out.append(n)
    return out


def assignments_of(view: FuncInfo, name: str) -> list[tuple[ast.stmt, ast.expr]] | None:
    """(statement, value) of every binding of `name` when all of them are plain `name = value` / `name: T = value` statements;
    None when the name is also bound in another way (loop target, unpacking, augmented assignment, with, ...)."""
    out = []
    for st_name in stores_of(view, name):
        p = parent(st_name)
        if isinstance(p, ast.Assign) and len(p.targets) == 1 and p.targets[0] is st_name:
            out.append((p, p.value))
        elif isinstance(p, ast.AnnAssign) and p.target is st_name and p.value is not None:
            out.append((p, p.value))
        elif isinstance(p, ast.AnnAssign) and p.target is st_name:
            continue  # bare declaration
        else:
            return None
    return out


def is_param(view: FuncInfo, name: str) -> bool:
    return name in view.param_names


def value_cases(view: FuncInfo, e: ast.expr, depth: int = 0, seen: frozenset = frozenset()) -> list[tuple[list, ast.expr]]:
    """[(conditions, expression)]: what `e` may stand for. Local names are replaced by the values assigned to them (every
    assignment is one case, with the path condition of the assignment), conditional expressions are split."""
    if depth > 6:
        return [([], e)]
    if isinstance(e, ast.IfExp):
        out = []
        for br, pol in ((e.body, True), (e.orelse, False)):
            for cs, x in value_cases(view, br, depth + 1, seen):
                out.append(([(e.test, pol), *cs], x))
        return out
    if isinstance(e, ast.Name) and isinstance(e.ctx, ast.Load) and e.id not in seen:
        asg = assignments_of(view, e.id)
        if asg and not (is_param(view, e.id) and False):
            out = []
            for st, v in asg:
                if any(isinstance(x, ast.Name) and x.id == e.id for x in ast.walk(v)):
                    # self-referential update (x = x + ...): not a plain alias
                    return [([], e)]
                for cs, x in value_cases(view, v, depth + 1, seen | {e.id}):
                    out.append(([*conds(view, st), *cs], x))
            if is_param(view, e.id):
                out.append(([], e))
            return out
    return [([], e)]


def single_value(view: FuncInfo, e: ast.expr, depth: int = 0) -> ast.expr:
    """`e` with plain single-assignment aliases followed (x = <expr> bound exactly once)."""
    while depth < 8 and isinstance(e, ast.Name) and isinstance(e.ctx, ast.Load) and not is_param(view, e.id):
        asg = assignments_of(view, e.id)
        if not asg or len(asg) != 1:
            break
        if any(isinstance(x, ast.Name) and x.id == e.id for x in ast.walk(asg[0][1])):
            break
        e = asg[0][1]
        depth += 1
    return e


# --------------------------------------------------------------------------- productions


@dataclass
class Production:
    elt: ast.expr | None  # element that is added (None: a whole collection of unknown construction is merged in, see `merged`)
    loops: list[tuple[ast.expr, ast.expr]]  # (target, iter) of the enclosing loops / generators, outermost first
    conds: list[tuple[ast.expr, bool]]  # conditions under which the element is added (path + comprehension ifs)
    node: ast.AST  # the event
    merged: ast.expr | None = None  # collection merged wholesale when its construction could not be followed
    key: ast.expr | None = None  # dict productions: the key expression
    view: FuncInfo | None = None  # the (callee) view the event lives in when it was found through a helper call
    binding: dict | None = None  # parameter of that helper -> argument expression in `caller`
    caller: FuncInfo | None = None


def _loops_around(view: FuncInfo, node: ast.AST, stop: ast.AST | None = None) -> list[tuple[ast.expr, ast.expr]]:
    out = []
    child = node
    for a in ancestors(node):
        if a is view.node or a is stop:
            break
        if isinstance(a, (ast.For, ast.AsyncFor)) and child in a.body:
            out.append((a.target, a.iter))
        elif isinstance(a, (ast.ListComp, ast.SetComp, ast.GeneratorExp, ast.DictComp)):
            for g in reversed(a.generators):
                out.append((g.target, g.iter))
        child = a
    return list(reversed(out))


def _bind_call(callee: FuncInfo, call: ast.Call) -> dict[str, ast.expr] | None:
    a = callee.node.args
    if a.vararg or a.kwarg or any(isinstance(x, ast.Starred) for x in call.args) or any(k.arg is None for k in call.keywords):
        return None
    pos = [p.arg for p in [*a.posonlyargs, *a.args]]
    if callee.cls is not None and callee.outer is None and not callee.is_staticmethod and pos:
        pos = pos[1:]
    if len(call.args) > len(pos):
        return None
    out = dict(zip(pos, call.args))
    for k in call.keywords:
        out[k.arg] = k.value
    return out


def productions(view: FuncInfo, e: ast.expr, depth: int = 0, seen: frozenset = frozenset(), follow=None) -> list[Production]:
    """`follow(view, call)` may return the view of the helper a call invokes: the elements the helper returns / yields are
    then followed into it (the productions carry `view`, `binding` and `caller`)."""
    return _productions(view, e, depth, seen, follow)


def _into_helper(view: FuncInfo, call: ast.Call, follow, depth: int) -> list[Production] | None:
    cv = follow(view, call)
    if cv is None:
        return None
    base = getattr(cv, "base", cv)
    binding = _bind_call(base, call)
    if binding is None:
        return None
    out: list[Production] = []
    yields = [n for n in all_nodes(cv) if isinstance(n, (ast.Yield, ast.YieldFrom)) and not any(isinstance(a, ast.Lambda) for a in ancestors(n))]
    if yields:
        for y in yields:
            if isinstance(y, ast.Yield) and y.value is not None:
                out.append(Production(y.value, _loops_around(cv, y), conds(cv, y), y))
            elif isinstance(y, ast.YieldFrom):
                out += _productions(cv, y.value, depth + 1, frozenset(), follow)
    else:
        rets = [n for n in all_nodes(cv) if isinstance(n, ast.Return) and n.value is not None and not any(isinstance(a, (ast.Lambda, ast.FunctionDef)) and a is not cv.node for a in ancestors(n))]
        if not rets:
            return None
        for r in rets:
            out += _productions(cv, r.value, depth + 1, frozenset(), follow)
    for p in out:
        if p.view is None:
            p.view, p.binding, p.caller = cv, binding, view
    return out


def _productions(view: FuncInfo, e: ast.expr, depth: int, seen: frozenset, follow) -> list[Production]:
    productions = lambda v, x, d=0, s=frozenset(): _productions(v, x, d, s, follow)  # noqa: E731
    if depth > 8:
        return [Production(None, [], [], e, merged=e)]
    if isinstance(e, (ast.ListComp, ast.SetComp, ast.GeneratorExp)):
        return [Production(e.elt, _loops_around(view, e.elt), conds(view, e.elt), e)]
    if isinstance(e, ast.DictComp):
        return [Production(e.value, _loops_around(view, e.value), conds(view, e.value), e, key=e.key)]
    if isinstance(e, (ast.List, ast.Tuple, ast.Set)):
        out = []
        for x in e.elts:
            if isinstance(x, ast.Starred):
                out += productions(view, x.value, depth + 1, seen)
            else:
                out.append(Production(x, _loops_around(view, x), conds(view, x), e))
        return out
    if isinstance(e, ast.Dict):
        out = []
        for k, v in zip(e.keys, e.values):
            if k is None:
                out += productions(view, v, depth + 1, seen)
            else:
                out.append(Production(v, _loops_around(view, v), conds(view, v), e, key=k))
        return out
    if isinstance(e, ast.IfExp):
        return productions(view, e.body, depth + 1, seen) + productions(view, e.orelse, depth + 1, seen)
    if isinstance(e, ast.BinOp) and isinstance(e.op, (ast.Add, ast.BitOr)):
        return productions(view, e.left, depth + 1, seen) + productions(view, e.right, depth + 1, seen)
    if isinstance(e, ast.Call):
        fn = e.func
        if isinstance(fn, ast.Name) and fn.id in TRANSPARENT | {"dict", "defaultdict"}:
            if not e.args:
                return []
            return productions(view, e.args[0], depth + 1, seen)
        if isinstance(fn, ast.Attribute) and fn.attr in ("copy",) and not e.args:
            return productions(view, fn.value, depth + 1, seen)
        if isinstance(fn, ast.Name) and fn.id in ("map", "starmap", "filter") and len(e.args) == 2:
            # one element per element of the mapped collection: the call itself stands for "f(x) for x in xs" (its conditions
            # are those of the place where it is evaluated; the collection's own events add theirs)
            inner = [q for q in productions(view, e.args[1], depth + 1, seen) if q.elt is not None]
            here = Production(e, _loops_around(view, e), conds(view, e), e)
            if inner:
                return [Production(e, q.loops, here.conds + [c for c in q.conds if c not in here.conds], q.node, key=q.key) for q in inner]
            return [here]
        if follow is not None:
            got = _into_helper(view, e, follow, depth)
            if got is not None:
                return got
        return [Production(None, _loops_around(view, e), conds(view, e), e, merged=e)]
    if isinstance(e, ast.Name) and isinstance(e.ctx, ast.Load):
        if e.id in seen:
            return []
        name = e.id
        out: list[Production] = []
        seen2 = seen | {name}
        unknown = False
        for st_name in stores_of(view, name):
            p = parent(st_name)
            if isinstance(p, ast.Assign) and st_name in p.targets:
                out += productions(view, p.value, depth + 1, seen2)
            elif isinstance(p, ast.AnnAssign) and p.target is st_name:
                if p.value is not None:
                    out += productions(view, p.value, depth + 1, seen2)
            elif isinstance(p, ast.AugAssign) and p.target is st_name:
                out += productions(view, p.value, depth + 1, seen2)
            else:
                unknown = True
        for n in all_nodes(view):
            if isinstance(n, ast.Call) and isinstance(n.func, ast.Attribute) and isinstance(n.func.value, ast.Name) and n.func.value.id == name:
                if n.func.attr in ADDERS and n.args:
                    out.append(Production(n.args[-1], _loops_around(view, n), conds(view, n), n))
                elif n.func.attr == "insert" and len(n.args) == 2:
                    out.append(Production(n.args[1], _loops_around(view, n), conds(view, n), n))
                elif n.func.attr in EXTENDERS and n.args and not isinstance(parent(n), ast.Attribute):
                    for a in n.args:
                        for pr in productions(view, a, depth + 1, seen2):
                            # events inside the argument already carry their own loops; add those around the call
                            if pr.node is not n and not _inside(pr.node, n):
                                pr = Production(pr.elt, _loops_around(view, n) + pr.loops, conds(view, n) + pr.conds, pr.node, pr.merged, pr.key)
                            out.append(pr)
                elif n.func.attr == "setdefault" and len(n.args) == 2 and not isinstance(parent(n), (ast.Attribute, ast.Subscript)):
                    out.append(Production(n.args[1], _loops_around(view, n), conds(view, n), n, key=n.args[0]))
            elif isinstance(n, ast.Subscript) and isinstance(n.ctx, ast.Store) and isinstance(n.value, ast.Name) and n.value.id == name:
                p = parent(n)
                val = p.value if isinstance(p, (ast.Assign, ast.AnnAssign, ast.AugAssign)) else None
                if val is not None:
                    out.append(Production(val, _loops_around(view, n), conds(view, n), p, key=n.slice))
        if unknown or (is_param(view, name) and not out):
            out.append(Production(None, [], [], e, merged=e))
        elif is_param(view, name):
            out.append(Production(None, [], [], e, merged=e))
        return out
    return [Production(None, _loops_around(view, e), conds(view, e), e, merged=e)]


def _inside(node: ast.AST, container: ast.AST) -> bool:
    return any(a is container for a in [node, *ancestors(node)])


# --------------------------------------------------------------------------- guards


def cond_origin(view: FuncInfo, cond: ast.expr) -> str:
    """'raise' when the condition comes from a branch whose other side always raises (a validation, not a filter),
    'filter' when the other side skips / continues / is simply not taken."""
    p = parent(cond)
    if isinstance(p, ast.If) and p.test is cond:
        kinds_body = exit_kinds(p.body)
        kinds_else = exit_kinds(p.orelse) if p.orelse else {"fall"}
        if kinds_body == {"raise"} or kinds_else == {"raise"}:
            return "raise"
        return "filter"
    if isinstance(p, ast.Assert):
        return "raise"
    return "filter"


def names_in(e: ast.AST) -> set[str]:
    return {n.id for n in ast.walk(e) if isinstance(n, ast.Name)}


def target_names(t: ast.expr) -> set[str]:
    return {n.id for n in ast.walk(t) if isinstance(n, ast.Name)}


def lambda_default_subst(node: ast.AST) -> dict[str, ast.expr]:
    """Parameter -> default expression of every lambda / nested def around `node` (values bound at creation time)."""
    out: dict[str, ast.expr] = {}
    for a in ancestors(node):
        if isinstance(a, (ast.Lambda, ast.FunctionDef)) and parent(a) is not None:
            args = a.args
            pos = [*args.posonlyargs, *args.args]
            for p_, d in zip(pos[len(pos) - len(args.defaults):], args.defaults):
                out.setdefault(p_.arg, d)
            for p_, d in zip(args.kwonlyargs, args.kw_defaults):
                if d is not None:
                    out.setdefault(p_.arg, d)
    return out


class _NameSubst(ast.NodeTransformer):
    def __init__(self, env: dict[str, ast.expr]) -> None:
        self.env = env

    def visit_Name(self, node: ast.Name):  # noqa: N802
        if isinstance(node.ctx, ast.Load) and node.id in self.env:
            return self.env[node.id]
        return node


def clone(e):
    """Structural copy of an AST (fields only: no parent links, which would drag the whole tree along)."""
    if isinstance(e, list):
        return [clone(x) for x in e]
    if not isinstance(e, ast.AST):
        return e
    new = type(e)()
    for f in e._fields:
        if hasattr(e, f):
            setattr(new, f, clone(getattr(e, f)))
    for a in ("lineno", "col_offset", "end_lineno", "end_col_offset"):
        if hasattr(e, a):
            setattr(new, a, getattr(e, a))
    return new


def substitute(e: ast.expr, env: dict[str, ast.expr]) -> ast.expr:
    if not env:
        return e
    return _NameSubst({k: clone(v) for k, v in env.items()}).visit(clone(e))
