"""C05.R5 (coverage part) - the layer lookup tests *every* ancestor of a module name, the top-level one included.

`LayerMapping.get_layer_for_module_name` may find the nearest listed ancestor in two ways:

  scan  every listed name is compared with the module name by a (boundary-safe) prefix test: all ancestors are covered by
        construction, whatever their depth (the F-NAME lint decides the boundary question);
  walk  candidate names are *derived from the module name* (cut at the last dot again and again, dotted prefixes, parents
        helper) and looked up by equality / membership / subscript.

For the walk family the set of strings that can be looked up must contain all ancestors-or-self.  This is decided by unrolling
the inline view of the lookup abstractly on the names `aa`, `aa.bb`, `aa.bb.cc`, `aa.bb.cc.dd`: strings derived from the parameter are
computed concretely, everything read from the mapping _isu(object)NOWN (a condition on it forks the unrolling), loops are
bounded.  The union over all paths of the strings compared with / looked up in UNKNOWN data is the set of names the lookup can
ever test; an ancestor missing from it is never tested, so descendants of a module listed under that name get no layer.

Only the string algebra of the view is interpreted (split / rpartition / rfind / slices / join / f-strings / accumulate ...);
nothing of pytestarch is imported or run.
"""

from __future__ import annotations

import ast
import itertools

from core.loader import FuncInfo, Repo, norm

from .common import types_of


class _Unknown:
    def __repr__(self) -> str:
        return "UNK"


UNK = _Unknown()


class _Opaque(_Unknown):
    """A value *derived from the module name* that the unrolling could not compute (a library function it does not model, a
    slice with a data-dependent bound ...).  It behaves like UNK everywhere, but when it is looked up / compared with the
    mapping data the set of tested names is no longer known: a missing ancestor is then *undecided*, never a VIOLATION."""

    def __repr__(self) -> str:
        return "OPQ"


OPQ = _Opaque()


class _Node(_Unknown):
    """The result of looking a string up in the mapping data: mapping data again, which remembers the keys that led to it.
    Looking a further *component* up in it (`node = node.children.get(part)`, a trie keyed by name components) tests the dotted
    name made of the whole key path."""

    def __init__(self, path: tuple) -> None:
        self.path = path

    def __repr__(self) -> str:
        return f"NODE{self.path}"


class _MapMethod(_Unknown):
    """A bound method of mapping data used as a function: `map(self._index.get, ancestors)`, `filter(names.__contains__, ...)`."""

    def __init__(self, recv, attr: str) -> None:
        self.recv, self.attr = recv, attr


def _isu(v) -> bool:
    return isinstance(v, _Unknown)


def _ismap(v) -> bool:
    """Mapping data (read from the object / unknown inputs), as opposed to an opaque value derived from the name."""
    return isinstance(v, _Unknown) and not isinstance(v, _Opaque)


def _isopq(v) -> bool:
    return isinstance(v, _Opaque)


def _has_opq(v, depth: int = 0) -> bool:
    if _isopq(v):
        return True
    if isinstance(v, _Bound):
        return _has_opq(v.recv, depth + 1)
    return depth < 3 and isinstance(v, (list, tuple)) and any(_has_opq(x, depth + 1) for x in v)


def _concrete(v, depth: int = 0) -> bool:
    """A value computed from the module name (a string, a number, a container of those)."""
    if isinstance(v, bool) or v is None:
        return False
    if isinstance(v, str):
        return v != "SELF"
    if isinstance(v, int):
        return True
    if isinstance(v, _Bound):
        return True
    return depth < 3 and isinstance(v, (list, tuple)) and v != ("UNKSTR",) and any(_concrete(x, depth + 1) for x in v)


def _t(*inputs):
    """UNK, or OPQ when an input already is opaque (taint propagation)."""
    return OPQ if any(_has_opq(v) for v in inputs) else UNK


def _d(*inputs):
    """Result of an operation the unrolling does not model: opaque when it was applied to values derived from the name only."""
    if any(_has_opq(v) for v in inputs):
        return OPQ
    if any(_ismap(v) or v == ("UNKSTR",) or (isinstance(v, (list, tuple)) and any(_ismap(x) for x in v)) for v in inputs):
        return UNK
    return OPQ if any(_concrete(v) for v in inputs) else UNK


class Unsupported(Exception):
    pass


class _Return(Exception):
    def __init__(self, value) -> None:
        self.value = value


class _Break(Exception):
    pass


class _Continue(Exception):
    pass


class _Abort(Exception):
    """raise statement / budget exhausted: the path ends."""


class _Bound:
    """A bound method of a concrete string used as a function: `"{}.{}".format`, `".".join`."""

    def __init__(self, recv: str, attr: str) -> None:
        self.recv, self.attr = recv, attr


class _Lib:
    """A library function referenced by name (`operator.add`, `str.join` ...)."""

    def __init__(self, name: str) -> None:
        self.name = name


class _Ext:
    """Something imported that is neither data of the mapping nor a function the unrolling models: a library module (`re`),
    a class.  Calling it / its attributes with name-derived arguments yields an opaque value."""

    def __init__(self, fq: str) -> None:
        self.fq = fq


class _Partial:
    def __init__(self, fn, args, kwargs) -> None:
        self.fn, self.args, self.kwargs = fn, list(args), dict(kwargs)


_MAP_METHODS = {"get", "__getitem__", "__contains__", "pop", "setdefault", "index", "count", "intersection", "difference", "isdisjoint", "issuperset"}
_BUILTIN_FUNCS = {"len", "list", "tuple", "set", "frozenset", "sorted", "iter", "reversed", "enumerate", "range", "zip", "str", "repr", "bool", "int", "min", "max", "sum", "abs", "any", "all", "next", "map", "filter", "isinstance", "dict"}
_LIBRARY = {
    **{f"itertools.{n}": n for n in ("accumulate", "chain", "islice", "takewhile", "dropwhile", "pairwise", "starmap", "repeat", "count", "zip_longest", "product")},
    "itertools.chain.from_iterable": "chain.from_iterable",
    "functools.reduce": "reduce", "functools.partial": "partial",
    **{f"operator.{n}": f"operator.{n}" for n in ("add", "concat", "getitem", "itemgetter", "attrgetter", "contains", "eq", "ne", "not_", "truth", "is_", "is_not", "mod")},
    **{f"bisect.{n}": n for n in ("bisect", "bisect_left", "bisect_right", "insort", "insort_left", "insort_right")},
    **{f"builtins.{n}": n for n in _BUILTIN_FUNCS},
    **{f"str.{n}": f"str.{n}" for n in ("join", "format", "split", "rsplit", "partition", "rpartition", "startswith", "endswith", "lower", "upper", "strip", "removeprefix", "removesuffix", "__add__", "__mod__")},
}


import re as _re  # noqa: E402  (constant folding of pure functions of the standard library on strings derived from the name)

_FOLDABLE = {"re.split": _re.split, "re.findall": _re.findall, "re.sub": _re.sub, "re.escape": _re.escape, "chr": chr, "ord": ord, "divmod": divmod}
_LIBRARY.update({"re.split": "re.split", "re.findall": "re.findall", "re.sub": "re.sub", "re.escape": "re.escape"})


class _Closure:
    def __init__(self, node: ast.Lambda, env: dict) -> None:
        self.node, self.env = node, env


def _unk(*vs) -> bool:
    return any(_isu(v) or (isinstance(v, (list, tuple)) and any(_isu(x) for x in v)) for v in vs)


class Walk:
    def __init__(self, repo: Repo, view: FuncInfo, name: str, fields: dict | None = None) -> None:
        self.repo, self.T, self.view, self.name = repo, types_of(repo), view, name
        self.fields = fields or {}  # text of an attribute expression (`self._sorted_names`) -> concrete value of a witness run
        self.matched: set[str] = set()  # listed names (of a witness run) that were positively recognised as ancestor-or-self
        self.stored: dict[str, object] = {}  # witness runs: values stored into attributes (to derive further fields in __init__)
        self.looked: set[str] = set()
        self.scan = False
        self.runs = 0
        self.derived = False  # a string other than the name itself was looked up / compared with unknown data
        self.opaque: list[str] = []  # name-derived values the unrolling could not compute were looked up (no verdict from a miss)
        self.truncated = False  # the unrolling was cut short (step / path budget)

    # ------------------------------------------------------------------ path enumeration
    def explore(self, max_runs: int = 300) -> None:
        work: list[list[bool]] = [[]]
        while work:
            if self.runs >= max_runs:
                self.truncated = True
                break
            prefix = work.pop()
            self.runs += 1
            self.decisions, self.pos, self.steps = list(prefix), 0, 0
            self.trace: list[bool] = []
            params = self.view.param_names
            env: dict = {}
            if params:
                env[params[0]] = "SELF"
            if len(params) > 1:
                env[params[1]] = self.name
            for p in params[2:]:
                env[p] = UNK
            try:
                self.block(self.view.node.body, env, self.view, 0)
            except (_Return, _Abort, _Break, _Continue):
                pass
            for j in range(len(prefix), len(self.trace)):
                if not self.trace[j]:
                    work.append(self.trace[:j] + [True])

    def decide(self) -> bool:
        if self.pos < len(self.decisions):
            d = self.decisions[self.pos]
        else:
            d = False
        self.pos += 1
        self.trace.append(d)
        return d

    def tick(self) -> None:
        self.steps += 1
        if self.steps > 4000:
            self.truncated = True
            raise _Abort()

    # ------------------------------------------------------------------ recording
    def look(self, s, node=None, base=None):
        """`s` is looked up in / compared with mapping data `base`; returns what the lookup yields (mapping data again)."""
        if _has_opq(s):
            self.opaque.append(_src_of(node) if node is not None else "a derived name")
            return UNK
        if isinstance(s, (list, tuple)) and s != ("UNKSTR",):
            for x in s:
                self.look(x, node, base)
            return UNK
        if isinstance(s, str) and s != "SELF":
            path = base.path if isinstance(base, _Node) else ()
            if path and "." not in s and all("." not in k for k in path):
                # a descent by components (trie): the key path is the dotted name that is tested
                full = ".".join([*path, s])
                self.looked.add(full)
                self.derived = True
                return _Node((*path, s))
            self.looked.add(s)
            if s != self.name:
                self.derived = True
            return _Node((s,))
        return UNK

    def mixed(self, node, *inputs):
        """Values derived from the name are handed, together with mapping data, to an operation the unrolling does not model:
        which names are tested there is not known."""
        if any(_ismap(v) or v == ("UNKSTR",) or (isinstance(v, (list, tuple)) and any(_ismap(x) for x in v)) for v in inputs) and any(isinstance(v, str) and v not in ("SELF",) or (isinstance(v, (list, tuple)) and v != ("UNKSTR",) and any(isinstance(x, str) for x in v)) for v in inputs):
            self.opaque.append(_src_of(node) if node is not None else "a derived name")

    def truth(self, v) -> bool:
        if _isu(v) or isinstance(v, _Closure):
            return self.decide()
        if isinstance(v, (list, tuple)) and _unk(v) and not v:
            return False
        return bool(v)  # dictionaries of a witness run included

    # ------------------------------------------------------------------ statements
    def block(self, stmts, env, ctx, depth) -> None:
        for s in stmts:
            self.stmt(s, env, ctx, depth)

    def assign(self, target, value, env) -> None:
        if isinstance(target, ast.Name):
            env[target.id] = value
        elif isinstance(target, (ast.Tuple, ast.List)):
            elts = target.elts
            star = next((i for i, e in enumerate(elts) if isinstance(e, ast.Starred)), None)
            if _isu(value) or not isinstance(value, (list, tuple)):
                for e in elts:
                    self.assign(e.value if isinstance(e, ast.Starred) else e, UNK, env)
                return
            vals = list(value)
            if star is None:
                if len(vals) != len(elts):
                    raise _Abort()
                for e, v in zip(elts, vals):
                    self.assign(e, v, env)
            else:
                after = len(elts) - star - 1
                if len(vals) < len(elts) - 1:
                    raise _Abort()
                for e, v in zip(elts[:star], vals[:star]):
                    self.assign(e, v, env)
                self.assign(elts[star].value, vals[star:len(vals) - after], env)
                for e, v in zip(elts[star + 1:], vals[len(vals) - after:]):
                    self.assign(e, v, env)
        elif isinstance(target, ast.Subscript):
            base = self.expr(target.value, env, None, 0)
            key = self.expr(target.slice, env, None, 0) if not isinstance(target.slice, ast.Slice) else UNK
            if _ismap(base):
                self.look(key, target, base)
            elif isinstance(base, dict) and isinstance(key, (str, int)):
                base[key] = value
            elif isinstance(base, list) and isinstance(key, int) and not isinstance(key, bool) and -len(base) <= key < len(base):
                base[key] = value
        elif isinstance(target, ast.Attribute):
            if self.fields:
                try:
                    self.stored[ast.unparse(target)] = value
                except Exception:  # noqa: BLE001
                    pass

    def stmt(self, s, env, ctx, depth) -> None:
        self.tick()
        if isinstance(s, ast.Expr):
            self.expr(s.value, env, ctx, depth)
        elif isinstance(s, ast.Assign):
            v = self.expr(s.value, env, ctx, depth)
            for t in s.targets:
                self.assign(t, v, env)
        elif isinstance(s, ast.AnnAssign):
            if s.value is not None:
                self.assign(s.target, self.expr(s.value, env, ctx, depth), env)
        elif isinstance(s, ast.AugAssign):
            cur = self.expr(ast.copy_location(_load(s.target), s.target), env, ctx, depth)
            v = self.expr(s.value, env, ctx, depth)
            self.assign(s.target, self.binop(s.op, cur, v), env)
        elif isinstance(s, ast.Return):
            raise _Return(self.expr(s.value, env, ctx, depth) if s.value is not None else None)
        elif isinstance(s, ast.Raise):
            raise _Abort()
        elif isinstance(s, ast.If):
            if self.truth(self.expr(s.test, env, ctx, depth)):
                self.block(s.body, env, ctx, depth)
            else:
                self.block(s.orelse, env, ctx, depth)
        elif isinstance(s, ast.While):
            n = 0
            while True:
                n += 1
                if n > 12:
                    self.truncated = True
                    break
                c = self.expr(s.test, env, ctx, depth)
                if _isu(c) and n > 4:
                    break
                if not self.truth(c):
                    self.block(s.orelse, env, ctx, depth)
                    break
                try:
                    self.block(s.body, env, ctx, depth)
                except _Break:
                    break
                except _Continue:
                    continue
        elif isinstance(s, (ast.For, ast.AsyncFor)):
            it = self.iterate(self.expr(s.iter, env, ctx, depth))
            for v in it:
                self.assign(s.target, v, env)
                try:
                    self.block(s.body, env, ctx, depth)
                except _Break:
                    break
                except _Continue:
                    continue
            else:
                self.block(s.orelse, env, ctx, depth)
        elif isinstance(s, (ast.Pass, ast.Import, ast.ImportFrom, ast.Global, ast.Nonlocal)):
            pass
        elif isinstance(s, ast.Break):
            raise _Break()
        elif isinstance(s, ast.Continue):
            raise _Continue()
        elif isinstance(s, ast.Assert):
            self.expr(s.test, env, ctx, depth)
        elif isinstance(s, ast.Try):
            try:
                self.block(s.body, env, ctx, depth)
            except _Abort:
                for h in s.handlers[:1]:
                    self.block(h.body, env, ctx, depth)
            self.block(s.finalbody, env, ctx, depth)
        elif isinstance(s, (ast.With, ast.AsyncWith)):
            self.block(s.body, env, ctx, depth)
        elif isinstance(s, (ast.FunctionDef, ast.ClassDef)):
            env[s.name] = UNK
        else:
            raise Unsupported(type(s).__name__)

    def iterate(self, v) -> list:
        if _isu(v):
            return [v]  # one representative element of unknown data (opaque stays opaque)
        if isinstance(v, str):
            return list(v)
        if isinstance(v, (list, tuple)):
            return list(v)
        if isinstance(v, range):
            return list(v)[:12]
        if isinstance(v, dict):
            return list(v)
        return [_d(v)]

    # ------------------------------------------------------------------ expressions
    def binop(self, op, a, b, node=None):
        if isinstance(op, (ast.BitAnd, ast.Sub, ast.BitXor)) and ((_ismap(a) and isinstance(b, (list, tuple))) or (_ismap(b) and isinstance(a, (list, tuple)))):
            # derived_names & listed_names / derived_names - listed_names: a membership test of every derived name
            self.look(b if _ismap(a) else a, node, a if _ismap(a) else b)
            return UNK
        if _unk(a, b) and not (isinstance(a, list) and isinstance(b, list)):
            return _t(a, b)
        try:
            if isinstance(op, ast.Add):
                return a + b
            if isinstance(op, ast.Sub):
                return a - b
            if isinstance(op, ast.Mult):
                return a * b
            if isinstance(op, ast.Mod):
                return a % (tuple(b) if isinstance(b, list) else b)
            if isinstance(op, ast.FloorDiv):
                return a // b
            if isinstance(op, ast.BitOr) and isinstance(a, list) and isinstance(b, list):
                return a + b
        except Exception:  # noqa: BLE001
            return _d(a, b)
        return _d(a, b)

    def compare(self, op, a, b, node=None):
        if isinstance(op, (ast.In, ast.NotIn)):
            if _ismap(b):
                self.look(a, node, b)
                return UNK
            if isinstance(b, (list, tuple)) and _unk(b):
                if any(_ismap(x) for x in b):
                    self.look(a, node)
                if not _isu(a) and any(not _isu(x) and x == a for x in b):
                    return isinstance(op, ast.In)
                return _t(a, b)
            if _isu(b):
                return OPQ
            if isinstance(b, dict) and not _isu(a):
                try:
                    r_ = a in b
                except TypeError:
                    return _d(a)
                return r_ if isinstance(op, ast.In) else not r_
            if _isu(a):
                if _ismap(a) and isinstance(b, (list, tuple)):
                    for x in b:
                        self.look(x, node)
                return _t(a)
            try:
                r = a in b
            except TypeError:
                return _d(a, b)
            if r and self.fields and isinstance(a, str) and isinstance(b, (list, tuple)) and (self.name == a or self.name.startswith(a + ".")):
                self.matched.add(a)  # a derived name found among the (concrete) listed names of a witness run
            return r if isinstance(op, ast.In) else not r
        if isinstance(op, (ast.Is, ast.IsNot)):
            if _isu(a) or _isu(b):
                return _t(a, b)
            r = a is b or (a is None and b is None) or (isinstance(a, (str, int, bool)) and a == b)
            return r if isinstance(op, ast.Is) else not r
        if isinstance(op, (ast.LtE, ast.Lt, ast.GtE, ast.Gt)) and ((_ismap(a) and isinstance(b, (list, tuple))) or (_ismap(b) and isinstance(a, (list, tuple)))):
            self.look(b if _ismap(a) else a, node, a if _ismap(a) else b)  # subset test against the listed names
            return UNK
        if _isu(a) or _isu(b):
            if isinstance(op, (ast.Eq, ast.NotEq)) and (_ismap(a) or _ismap(b)):
                self.look(a if _ismap(b) else b, node)
                if _ismap(a) and _ismap(b):
                    return UNK
            return _t(a, b)
        try:
            if isinstance(op, ast.Eq):
                if self.fields and isinstance(a, str) and a == b and (self.name == a or self.name.startswith(a + ".")):
                    self.matched.add(a)
                return a == b
            if isinstance(op, ast.NotEq):
                return a != b
            if isinstance(op, ast.Lt):
                return a < b
            if isinstance(op, ast.LtE):
                return a <= b
            if isinstance(op, ast.Gt):
                return a > b
            if isinstance(op, ast.GtE):
                return a >= b
        except TypeError:
            return _d(a, b)
        return _d(a, b)

    def comprehension(self, e, env, ctx, depth) -> list:
        out: list = []
        local = dict(env)

        def rec(i: int) -> None:
            if i == len(e.generators):
                if isinstance(e, ast.DictComp):
                    self.expr(e.key, local, ctx, depth)
                    self.expr(e.value, local, ctx, depth)
                    out.append(UNK)
                else:
                    out.append(self.expr(e.elt, local, ctx, depth))
                return
            g = e.generators[i]
            for v in self.iterate(self.expr(g.iter, local, ctx, depth)):
                self.tick()
                self.assign(g.target, v, local)
                if all(self.truth(self.expr(c, local, ctx, depth)) for c in g.ifs):
                    rec(i + 1)

        rec(0)
        return out

    def expr(self, e, env, ctx, depth):
        self.tick()
        if isinstance(e, ast.Constant):
            return e.value
        if isinstance(e, ast.Name):
            if e.id in env:
                return env[e.id]
            if e.id in ("True", "False", "None"):
                return {"True": True, "False": False, "None": None}[e.id]
            return self.global_name(e, ctx)
        if isinstance(e, ast.JoinedStr):
            parts = []
            for v in e.values:
                if isinstance(v, ast.Constant):
                    parts.append(str(v.value))
                else:
                    x = self.expr(v.value, env, ctx, depth)
                    if not isinstance(x, (str, int)) or x == "SELF":
                        # a string built around unknown data (f"{candidate}.")
                        return ("UNKSTR",)
                    parts.append(str(x))
            return "".join(parts)
        if isinstance(e, ast.Attribute):
            if self.fields:
                try:
                    text = ast.unparse(e)
                except Exception:  # noqa: BLE001
                    text = ""
                if text in self.fields:
                    val = self.fields[text]
                    return list(val) if isinstance(val, list) else val
            v = self.expr(e.value, env, ctx, depth)
            if isinstance(v, str) and v != "SELF":
                return _Bound(v, e.attr)  # "{}.{}".format, ".".join used as a function
            if isinstance(v, _Ext):
                return self.global_name(e, ctx)
            if _ismap(v):
                g = self.global_name(e, ctx) if v is UNK else UNK
                if isinstance(g, _Lib):
                    return g
                if e.attr in _MAP_METHODS:
                    return _MapMethod(v, e.attr)
                return v  # a part of the mapping data (node.children, node.layer): keeps the key path
            return _t(v)
        if isinstance(e, (ast.List, ast.Tuple, ast.Set)):
            out: list = []
            for x in e.elts:
                if isinstance(x, ast.Starred):
                    out += self.iterate(self.expr(x.value, env, ctx, depth))
                else:
                    out.append(self.expr(x, env, ctx, depth))
            return tuple(out) if isinstance(e, ast.Tuple) else out
        if isinstance(e, ast.Dict):
            ks = [self.expr(k, env, ctx, depth) if k is not None else None for k in e.keys]
            vs = [self.expr(v, env, ctx, depth) for v in e.values]
            if self.fields and all(isinstance(k, (str, int)) and k != "SELF" for k in ks):
                return dict(zip(ks, vs))  # a witness run: dictionaries built from the concrete names are concrete
            return UNK
        if isinstance(e, (ast.ListComp, ast.SetComp, ast.GeneratorExp)):
            return self.comprehension(e, env, ctx, depth)
        if isinstance(e, ast.DictComp):
            self.comprehension(e, env, ctx, depth)
            return UNK
        if isinstance(e, ast.IfExp):
            return self.expr(e.body if self.truth(self.expr(e.test, env, ctx, depth)) else e.orelse, env, ctx, depth)
        if isinstance(e, ast.BoolOp):
            v = None
            for x in e.values:
                v = self.expr(x, env, ctx, depth)
                t = self.truth(v)
                if isinstance(e.op, ast.And) and not t:
                    return v if not _isu(v) else False
                if isinstance(e.op, ast.Or) and t:
                    return v if not _isu(v) else True
            return v
        if isinstance(e, ast.UnaryOp):
            v = self.expr(e.operand, env, ctx, depth)
            if isinstance(e.op, ast.Not):
                return v if _isu(v) else not self.truth(v)
            if isinstance(e.op, ast.USub) and isinstance(v, int):
                return -v
            return _d(v)
        if isinstance(e, ast.BinOp):
            a, b = self.expr(e.left, env, ctx, depth), self.expr(e.right, env, ctx, depth)
            if isinstance(e.op, ast.Add) and (a == ("UNKSTR",) or b == ("UNKSTR",) or (isinstance(a, str) and _isu(b)) or (_isu(a) and isinstance(b, str))):
                return ("UNKSTR",)
            return self.binop(e.op, a, b, e)
        if isinstance(e, ast.Compare):
            left = self.expr(e.left, env, ctx, depth)
            res = True
            for op, r in zip(e.ops, e.comparators):
                right = self.expr(r, env, ctx, depth)
                c = self.compare(op, _plain(left), _plain(right), e)
                if _isu(c):
                    res = c if res is True or _isopq(c) else res
                elif not c:
                    return False
                left = right
            return res
        if isinstance(e, ast.NamedExpr):
            v = self.expr(e.value, env, ctx, depth)
            self.assign(e.target, v, env)
            return v
        if isinstance(e, ast.Subscript):
            base = self.expr(e.value, env, ctx, depth)
            if isinstance(e.slice, ast.Slice):
                lo = self.expr(e.slice.lower, env, ctx, depth) if e.slice.lower is not None else None
                hi = self.expr(e.slice.upper, env, ctx, depth) if e.slice.upper is not None else None
                st = self.expr(e.slice.step, env, ctx, depth) if e.slice.step is not None else None
                if _isu(base):
                    return _t(base, lo, hi, st)
                if _unk(lo, hi, st) or not isinstance(base, (str, list, tuple)):
                    # a piece of a name-derived value cut at a position the unrolling does not know
                    return OPQ if _concrete(base) else _t(base, lo, hi, st)
                try:
                    return base[lo:hi:st]
                except Exception:  # noqa: BLE001
                    return _d(base, lo, hi, st)
            idx = self.expr(e.slice, env, ctx, depth)
            if _ismap(base):
                return self.look(idx, e, base) if isinstance(idx, str) else (base if isinstance(base, _Node) else UNK)
            if _isopq(base):
                return OPQ
            if isinstance(base, dict):
                if isinstance(idx, (str, int)) and idx in base:
                    return base[idx]
                if _isu(idx):
                    return _t(idx)
                raise _Abort()
            if _isu(idx) or not isinstance(base, (str, list, tuple)):
                return OPQ if _concrete(base) else _t(base, idx)
            try:
                return base[idx]
            except Exception:  # noqa: BLE001
                raise _Abort() from None
        if isinstance(e, ast.Lambda):
            return _Closure(e, env)
        if isinstance(e, ast.Starred):
            return self.expr(e.value, env, ctx, depth)
        if isinstance(e, ast.Call):
            return self.call(e, env, ctx, depth)
        if isinstance(e, (ast.Yield, ast.YieldFrom, ast.Await)):
            raise Unsupported(type(e).__name__)
        return UNK

    def global_name(self, e: ast.expr, ctx):
        """A name that is not a local: a module-level string constant, a function of the repo, a library function."""
        src = getattr(e, "_src", None)
        mod = getattr(src[0] if src is not None else ctx, "module", None)
        if mod is None:
            return UNK
        if isinstance(e, ast.Name):
            c = mod.constants.get(e.id)
            if isinstance(c, ast.Constant) and isinstance(c.value, (str, int)):
                return c.value
            if e.id in mod.functions:
                return mod.functions[e.id]
            if e.id in _BUILTIN_FUNCS and e.id not in mod.imports and e.id not in mod.classes:
                return _Lib(e.id)
        if isinstance(e, ast.Attribute) and isinstance(e.value, ast.Name) and e.value.id == "str" and "str" not in mod.imports:
            return _Lib(f"str.{e.attr}")
        try:
            fq = self.repo.resolve_name(mod, e)
        except Exception:  # noqa: BLE001
            fq = None
        if fq is None:
            return UNK
        if fq in _LIBRARY:
            return _Lib(_LIBRARY[fq])
        modname, _, attr = fq.rpartition(".")
        m = self.repo.modules.get(modname)
        if m is not None:
            if attr in m.functions:
                return m.functions[attr]
            c = m.constants.get(attr)
            if isinstance(c, ast.Constant) and isinstance(c.value, (str, int)):
                return c.value
            if attr in m.constants:
                return UNK  # module-level data
        return _Ext(fq)

    # ------------------------------------------------------------------ calls
    def apply(self, fn, args, ctx, depth, kwargs=None):
        if isinstance(fn, _Closure):
            a = fn.node.args
            env = dict(fn.env)
            pos = [*a.posonlyargs, *a.args]
            for p, d in zip(reversed(pos), reversed(a.defaults)):
                env[p.arg] = self.expr(d, fn.env, ctx, depth)
            for p, v in zip(pos, args):
                env[p.arg] = v
            return self.expr(fn.node.body, env, ctx, depth)
        if isinstance(fn, FuncInfo):
            return self.invoke(fn, None, args, kwargs or {}, depth)
        if isinstance(fn, _Bound):
            if kwargs and fn.attr == "format":
                if _unk(*args, *kwargs.values()) or not all(isinstance(v, (str, int)) for v in [*args, *kwargs.values()]):
                    return _d(fn.recv, *args, *kwargs.values())
                try:
                    return fn.recv.format(*args, **kwargs)
                except Exception:  # noqa: BLE001
                    return _d(fn.recv, *args, *kwargs.values())
            return self.str_method(fn.recv, fn.attr, list(args))
        if isinstance(fn, _Lib):
            if fn.name.startswith("str."):
                a0 = args[0] if args else None
                if isinstance(a0, str) and a0 != "SELF":
                    return self.str_method(a0, fn.name[4:], list(args[1:]))
                return _d(*args)
            return self.builtin(fn.name, list(args), kwargs or {}, ctx, depth)
        if isinstance(fn, _Partial):
            return self.apply(fn.fn, [*fn.args, *args], ctx, depth, {**fn.kwargs, **(kwargs or {})})
        if isinstance(fn, _MapMethod):
            return self.map_method(fn.recv, fn.attr, list(args), kwargs or {}, None)
        if _ismap(fn):
            self.mixed(None, fn, *args)
            return UNK
        return _d(*args)

    def invoke(self, callee: FuncInfo, recv, args, kwargs, depth):
        if depth > 4 or isinstance(callee.node, ast.Lambda):
            return UNK
        if any(isinstance(n, (ast.Yield, ast.YieldFrom)) for n in ast.walk(callee.node)):
            return self.generator(callee, recv, args, kwargs, depth)
        env = self.bind(callee, recv, args, kwargs)
        try:
            self.block(callee.node.body, env, callee, depth + 1)
        except _Return as r:
            return r.value
        return None

    def bind(self, callee: FuncInfo, recv, args, kwargs) -> dict:
        a = callee.node.args
        pos = [p.arg for p in [*a.posonlyargs, *a.args]]
        env: dict = {}
        if callee.cls is not None and callee.outer is None and not callee.is_staticmethod and pos:
            env[pos[0]] = recv if recv is not None else "SELF"
            pos = pos[1:]
        for p, v in zip(pos, args):
            env[p] = v
        for k, v in kwargs.items():
            env[k] = v
        for p in [*pos, *[x.arg for x in a.kwonlyargs]]:
            env.setdefault(p, UNK)
        return env

    def generator(self, callee: FuncInfo, recv, args, kwargs, depth) -> list:
        """A generator function: the values it yields, collected (yield statements only at statement level)."""
        out: list = []
        env = self.bind(callee, recv, args, kwargs)
        outer = self

        class G(Walk):  # interpret with `yield x` as "append x"
            pass

        def run(stmts) -> None:
            for s in stmts:
                if isinstance(s, ast.Expr) and isinstance(s.value, ast.Yield):
                    out.append(outer.expr(s.value.value, env, callee, depth + 1) if s.value.value is not None else None)
                elif isinstance(s, ast.Expr) and isinstance(s.value, ast.YieldFrom):
                    out.extend(outer.iterate(outer.expr(s.value.value, env, callee, depth + 1)))
                elif isinstance(s, ast.If):
                    run(s.body if outer.truth(outer.expr(s.test, env, callee, depth + 1)) else s.orelse)
                elif isinstance(s, (ast.For, ast.AsyncFor)):
                    for v in outer.iterate(outer.expr(s.iter, env, callee, depth + 1)):
                        outer.assign(s.target, v, env)
                        run(s.body)
                elif isinstance(s, ast.While):
                    n = 0
                    while n < 12 and outer.truth(outer.expr(s.test, env, callee, depth + 1)):
                        n += 1
                        run(s.body)
                elif isinstance(s, ast.Return):
                    raise _Return(None)
                else:
                    outer.stmt(s, env, callee, depth + 1)

        try:
            run(callee.node.body)
        except _Return:
            pass
        return out

    def call(self, e: ast.Call, env, ctx, depth):
        f = e.func
        args: list = []
        for a in e.args:
            if isinstance(a, ast.Starred):
                args += self.iterate(self.expr(a.value, env, ctx, depth))
            else:
                args.append(self.expr(a, env, ctx, depth))
        kwargs = {k.arg: self.expr(k.value, env, ctx, depth) for k in e.keywords if k.arg}
        allargs = [*args, *kwargs.values()]
        # ---- methods
        if isinstance(f, ast.Attribute):
            recv = self.expr(f.value, env, ctx, depth)
            m = f.attr
            if isinstance(recv, str) and recv != "SELF":
                return self.str_method(recv, m, args, kwargs)
            if recv == ("UNKSTR",):
                return UNK
            if isinstance(recv, dict):
                if m == "get" and args:
                    return recv.get(args[0], args[1] if len(args) > 1 else None) if isinstance(args[0], (str, int)) else _t(args[0])
                if m == "items":
                    return [(k, v) for k, v in recv.items()]
                if m == "keys":
                    return list(recv)
                if m == "values":
                    return list(recv.values())
                if m == "setdefault" and len(args) == 2 and isinstance(args[0], (str, int)):
                    return recv.setdefault(args[0], args[1])
                if m == "pop" and args and isinstance(args[0], (str, int)):
                    if args[0] in recv:
                        return recv.pop(args[0])
                    if len(args) > 1:
                        return args[1]
                    raise _Abort()
                if m == "copy":
                    return dict(recv)
                return _d(*allargs)
            if isinstance(recv, (list, tuple)):
                return self.list_method(f.value, recv, m, args, env)
            if _isopq(recv):
                return OPQ
            if isinstance(recv, _Lib):
                return self.builtin(f"{recv.name}.{m}", args, kwargs, ctx, depth)
            if isinstance(recv, _Ext):
                callee = self.resolve(e, ctx)
                if callee is not None:
                    return self.invoke(callee, None, args, kwargs, depth)
                g = self.global_name(f, ctx)
                if isinstance(g, (_Lib, FuncInfo)):
                    return self.apply(g, args, ctx, depth, kwargs)
                self.mixed(e, *allargs)
                return _d(*allargs)
            if recv == "SELF" or _ismap(recv):
                callee = self.resolve(e, ctx)
                if callee is not None:
                    return self.invoke(callee, recv, args, kwargs, depth)
                if _ismap(recv):
                    lib = self.global_name(f, ctx)
                    if isinstance(lib, (_Lib, FuncInfo)):  # itertools.accumulate(...), operator.add(...), othermodule.helper(...)
                        return self.apply(lib, args, ctx, depth, kwargs)
                    if m in ("startswith", "endswith") and args and isinstance(args[0], str):
                        self.scan = True  # listed_name.startswith(...) - a comparison of every listed name with the name
                        return UNK
                    return self.map_method(recv, m, args, kwargs, e)
                # a callable stored on the object that the resolver does not see through: the name escapes the unrolling
                if any(_concrete(a) or _has_opq(a) for a in allargs):
                    self.opaque.append(_src_of(e))
                return UNK
            return _d(recv, *allargs)
        # ---- plain names
        if isinstance(f, ast.Name):
            n = f.id
            if n in env:
                if isinstance(env[n], (_Closure, FuncInfo, _Bound, _Lib, _Partial, _MapMethod)):
                    return self.apply(env[n], args, ctx, depth, kwargs)
                self.mixed(e, env[n], *allargs)
                return _d(env[n], *allargs)
            callee = self.resolve(e, ctx)
            if callee is not None:
                return self.invoke(callee, None, args, kwargs, depth)
            g = self.global_name(f, ctx)
            if isinstance(g, (_Lib, FuncInfo)):
                return self.apply(g, args, ctx, depth, kwargs)
            return self.builtin(n, args, kwargs, ctx, depth)
        # ---- a computed callable: (lambda ...)(x), partial(f, a)(b), "{}.{}".format(...) is handled above
        fn = self.expr(f, env, ctx, depth)
        if isinstance(fn, (_Closure, FuncInfo, _Bound, _Lib, _Partial, _MapMethod)):
            return self.apply(fn, args, ctx, depth, kwargs)
        self.mixed(e, fn, *allargs)
        return _d(fn, *allargs)

    def map_method(self, recv, m: str, args, kwargs, node):
        """A method of mapping data called with (possibly) name-derived arguments: a lookup of those arguments."""
        allargs = [*args, *kwargs.values()]
        if m in ("get", "pop", "setdefault", "__getitem__", "__contains__", "index", "count", "find", "has", "lookup", "get_child", "child") and args:
            r = self.look(_plain(args[0]), node, recv)
            return r
        if m in ("intersection", "difference", "issuperset", "isdisjoint", "__and__", "__rand__", "__ge__", "__gt__", "symmetric_difference"):
            for a in allargs:
                self.look(_plain(a), node, recv)
            return UNK
        if m in ("items", "values", "keys", "copy", "children", "elements"):
            return recv
        out = UNK
        for a in allargs:
            out = self.look(_plain(a), node, recv)
        return out if len(allargs) == 1 else UNK

    def pyfunc(self, fn, ctx, depth):
        """A Python callable for a key function the unrolling can apply (str.lower, a lambda over strings)."""
        if isinstance(fn, _Lib) and fn.name.startswith("str."):
            return lambda x, _m=fn.name[4:]: getattr(x, _m)()
        if isinstance(fn, _Lib) and fn.name == "len":
            return len
        if isinstance(fn, (_Closure, FuncInfo, _Bound, _Partial)):
            def call(x, _fn=fn):
                r = self.apply(_fn, [x], ctx, depth)
                if _isu(r) or _has_opq(r):
                    raise ValueError("opaque key")
                return tuple(r) if isinstance(r, list) else r
            return call
        return None

    def resolve(self, call: ast.Call, ctx) -> FuncInfo | None:
        src = getattr(call, "_src", None)
        c_ctx, orig = src if src is not None else (ctx, call)
        if c_ctx is None or not isinstance(orig, ast.Call):
            return None
        try:
            cs, how = self.T.callees(c_ctx, orig, byname_fallback=False)
        except Exception:  # noqa: BLE001
            return None
        cs = [c for c in cs if not c.is_abstract]
        if len(cs) == 1 and how == "repo" and not cs[0].is_property:
            return cs[0]
        return None

    def str_method(self, s: str, m: str, args, kwargs=None):
        if kwargs:
            vals = list(kwargs.values())
            if _unk(*vals) or not all(isinstance(v, (str, int)) or v is None for v in vals):
                return _d(s, *args, *vals)
            if _unk(*args) or any(a == ("UNKSTR",) for a in args):
                return _d(s, *args, *vals)
            try:
                r = getattr(s, m)(*args, **kwargs)
            except ValueError:
                raise _Abort() from None
            except Exception:  # noqa: BLE001
                return _d(s, *args, *vals)
            return list(r) if isinstance(r, list) else tuple(r) if isinstance(r, tuple) else r if isinstance(r, (str, int, bool)) else _d(s, *args, *vals)
        a0 = args[0] if args else None
        if m in ("startswith", "endswith", "removeprefix", "removesuffix") and (_ismap(a0) or a0 == ("UNKSTR",)):
            self.scan = True  # the name is tested against (something built from) every listed name
            return UNK
        if isinstance(a0, tuple) and m in ("startswith", "endswith") and any(_ismap(x) or x == ("UNKSTR",) for x in a0):
            self.scan = True  # name.startswith(tuple of prefixes built from the listed names)
            return UNK
        if _unk(*args) or any(a == ("UNKSTR",) for a in args):
            return OPQ if any(_has_opq(a) for a in args) or m not in ("startswith", "endswith", "find", "rfind", "index", "rindex", "count", "isidentifier") else UNK
        try:
            if m in ("rpartition", "partition"):
                return tuple(getattr(s, m)(*args))
            if m in ("split", "rsplit", "splitlines"):
                return list(getattr(s, m)(*args))
            if m == "join":
                return s.join(list(a0)) if isinstance(a0, (list, tuple)) and all(isinstance(x, str) and x != "SELF" for x in a0) else _d(s, a0)
            if m == "startswith" and self.fields and isinstance(a0, str) and s == self.name and s.startswith(a0) and a0.endswith("."):
                self.matched.add(a0[:-1])
            if m in ("startswith", "endswith", "find", "rfind", "index", "rindex", "count", "removeprefix", "removesuffix", "strip", "rstrip", "lstrip", "replace", "lower", "upper", "casefold", "isidentifier", "format", "__add__", "__mod__", "__contains__", "__eq__", "__getitem__", "__len__", "title", "capitalize", "encode", "isalnum", "isalpha", "isdigit", "zfill", "center", "ljust", "rjust", "expandtabs", "swapcase"):
                r = getattr(s, m)(*[tuple(a) if isinstance(a, list) and m in ("startswith", "endswith", "__mod__") else a for a in args])
                return r if isinstance(r, (str, int, bool)) else _d(s, *args)
        except ValueError:
            raise _Abort() from None
        except Exception:  # noqa: BLE001
            return _d(s, *args)
        return _d(s, *args)

    def list_method(self, node, lst, m: str, args, env):
        if m in ("append", "add", "insert", "appendleft") and args and isinstance(lst, list):
            if m == "insert" and len(args) == 2 and isinstance(args[0], int) and not isinstance(args[0], bool):
                lst.insert(args[0], args[1])
            elif m == "appendleft":
                lst.insert(0, args[-1])
            else:
                lst.append(args[-1])
            return None
        if m in ("extend", "update") and args and isinstance(lst, list):
            lst.extend(self.iterate(args[0]))
            return None
        if m == "extendleft" and args and isinstance(lst, list):
            for v in self.iterate(args[0]):
                lst.insert(0, v)
            return None
        if m in ("pop", "popleft") and isinstance(lst, list):
            if not lst:
                raise _Abort()
            if m == "popleft":
                return lst.pop(0)
            return lst.pop(args[0] if args and isinstance(args[0], int) else -1)
        if m in ("index", "count") and args and not _unk(lst, args[0]):
            try:
                return getattr(list(lst), m)(args[0])
            except ValueError:
                raise _Abort() from None
        if m == "copy":
            return list(lst)
        if m in ("reverse", "sort", "clear", "remove", "discard"):
            if isinstance(lst, list) and not _unk(lst):
                try:
                    getattr(lst, m)(*args)
                except Exception:  # noqa: BLE001
                    pass
            elif m == "reverse" and isinstance(lst, list):
                lst.reverse()
            return None
        return _d(lst, *args)

    def builtin(self, n: str, args, kwargs, ctx, depth):
        a0 = args[0] if args else None
        allargs = [*args, *kwargs.values()]
        if n == "len":
            return len(a0) if isinstance(a0, (str, list, tuple)) and a0 != "SELF" else _t(a0)
        if n in ("list", "tuple", "set", "frozenset", "sorted", "iter", "deque", "dict.fromkeys"):
            if not args:
                return []
            if _isu(a0):
                return a0
            v = self.iterate(a0)
            if n == "sorted" and not _unk(v):
                try:
                    key = kwargs.get("key")
                    if key is None:
                        v = sorted(v)
                    elif isinstance(key, _Lib) and key.name == "len":
                        v = sorted(v, key=len)
                    if kwargs.get("reverse") is True:
                        v = list(reversed(v))
                    return v
                except TypeError:
                    return list(v)
            return tuple(v) if n == "tuple" else list(v)
        if n == "reversed":
            return list(reversed(self.iterate(a0))) if not _isu(a0) else a0
        if n == "enumerate":
            if _isu(a0):
                return a0
            start = args[1] if len(args) > 1 and isinstance(args[1], int) else kwargs.get("start", 0)
            return [(i, v) for i, v in enumerate(self.iterate(a0), start if isinstance(start, int) else 0)]
        if n == "range":
            if _unk(*args):
                return _t(*args)
            try:
                return list(range(*args))[:16]
            except Exception:  # noqa: BLE001
                return _d(*args)
        if n in ("zip", "zip_longest"):
            if _unk(*[a for a in args if not isinstance(a, (list, tuple, str))]):
                return _t(*args)
            if n == "zip_longest":
                return [tuple(t) for t in itertools.zip_longest(*[self.iterate(a) for a in args], fillvalue=kwargs.get("fillvalue"))]
            return [tuple(t) for t in zip(*[self.iterate(a) for a in args])]
        if n == "pairwise":
            if _isu(a0):
                return a0
            vals = self.iterate(a0)
            return list(zip(vals, vals[1:]))
        if n in ("str", "repr"):
            return a0 if isinstance(a0, str) else (str(a0) if isinstance(a0, int) else _d(a0))
        if n in ("bool",):
            return a0 if _isu(a0) else bool(a0)
        if n in ("int", "min", "max", "sum", "abs"):
            if _unk(*args) or kwargs:
                return _t(*allargs) if _unk(*args) else _d(*allargs)
            try:
                return {"int": int, "min": min, "max": max, "sum": sum, "abs": abs}[n](*args)
            except ValueError:
                raise _Abort() from None
            except Exception:  # noqa: BLE001
                return _d(*args)
        if n in ("any", "all"):
            vals = self.iterate(a0)
            ts = [self.truth(v) for v in vals]
            return any(ts) if n == "any" else all(ts)
        if n == "next":
            vals = self.iterate(a0)
            if vals:
                return vals[0]
            if len(args) > 1:
                return args[1]
            raise _Abort()
        if n == "isinstance":
            return UNK
        if n == "accumulate" and args:
            if _isu(a0):
                return a0
            vals = self.iterate(a0)
            fn = args[1] if len(args) > 1 else kwargs.get("func")
            out: list = []
            first = True
            acc = None
            if kwargs.get("initial") is not None:
                acc, first = kwargs["initial"], False
                out.append(acc)
            for v in vals:
                acc = v if first else (self.apply(fn, [acc, v], ctx, depth) if fn is not None else self.binop(ast.Add(), acc, v))
                first = False
                out.append(acc)
            return out
        if n == "reduce" and len(args) >= 2:
            if _isu(args[1]):
                return args[1]
            vals = self.iterate(args[1])
            if len(args) > 2:
                vals = [args[2], *vals]
            if not vals:
                raise _Abort()
            acc = vals[0]
            for v in vals[1:]:
                acc = self.apply(a0, [acc, v], ctx, depth)
            return acc
        if n == "map" and len(args) >= 2:
            if len(args) == 2:
                return [self.apply(a0, [v], ctx, depth) for v in self.iterate(args[1])]
            return [self.apply(a0, list(t), ctx, depth) for t in zip(*[self.iterate(a) for a in args[1:]])]
        if n == "starmap" and len(args) == 2:
            return [self.apply(a0, self.iterate(t), ctx, depth) for t in self.iterate(args[1])]
        if n == "filter" and len(args) == 2:
            return [v for v in self.iterate(args[1]) if self.truth(self.apply(a0, [v], ctx, depth) if a0 is not None else v)]
        if n in ("takewhile", "dropwhile") and len(args) == 2:
            vals = self.iterate(args[1])
            k = 0
            while k < len(vals) and self.truth(self.apply(a0, [vals[k]], ctx, depth)):
                k += 1
            return vals[:k] if n == "takewhile" else vals[k:]
        if n == "islice" and len(args) >= 2:
            if _isu(a0) or _unk(*args[1:]):
                return OPQ if _concrete(a0) else _t(*args)
            try:
                return list(itertools.islice(self.iterate(a0), *args[1:]))
            except Exception:  # noqa: BLE001
                return _d(*args)
        if n in ("chain",):
            out = []
            for a in args:
                out += self.iterate(a)
            return out
        if n == "chain.from_iterable" and args:
            out = []
            for a in self.iterate(a0):
                out += self.iterate(a)
            return out
        if n in ("bisect", "bisect_left", "bisect_right") and len(args) >= 2 and isinstance(a0, (list, tuple)) and a0 and all(isinstance(x, str) for x in a0) and (isinstance(args[1], str) or (isinstance(args[1], (list, tuple)) and all(isinstance(x, str) for x in args[1]))) and not _unk(*args[2:]):
            # a witness run: the listed names are concrete
            import bisect as _bisect

            key = kwargs.get("key")
            kw = {}
            if key is not None:
                fn = self.pyfunc(key, ctx, depth)
                if fn is None:
                    return OPQ
                kw["key"] = fn
            for nm_, v_ in kwargs.items():
                if nm_ in ("lo", "hi") and isinstance(v_, int):
                    kw[nm_] = v_
            probe = tuple(args[1]) if isinstance(args[1], list) else args[1]
            if isinstance(probe, tuple) != (key is not None and isinstance(kw["key"](a0[0]), tuple)):
                return OPQ  # the probe and the keyed elements are not comparable
            try:
                return getattr(_bisect, n)(list(a0), probe, *[a for a in args[2:] if isinstance(a, int)], **kw)
            except Exception:  # noqa: BLE001
                return OPQ
        if n in ("bisect", "bisect_left", "bisect_right", "insort", "insort_left", "insort_right"):
            return UNK  # a position in the listed names (the search order is decided by rules/c05_bisect.py)
        if n in ("dict", "defaultdict", "OrderedDict", "Counter", "getattr", "hasattr", "id", "type", "print", "hash", "callable", "cast"):
            return _t(*allargs) if n != "cast" or len(args) < 2 else args[1]
        if n == "partial" and args:
            return _Partial(a0, args[1:], kwargs)
        if n == "operator.add" or n == "operator.concat":
            if len(args) == 2:
                a, b = args
                if isinstance(a, str) and isinstance(b, str) and "SELF" not in (a, b):
                    return a + b
                if (isinstance(a, str) and _ismap(b)) or (_ismap(a) and isinstance(b, str)) or ("UNKSTR",) in (a, b):
                    return ("UNKSTR",)
                return self.binop(ast.Add(), a, b)
        if n == "operator.mod" and len(args) == 2:
            return self.binop(ast.Mod(), args[0], args[1])
        if n == "operator.getitem" and len(args) == 2 and isinstance(a0, (str, list, tuple)) and isinstance(args[1], int) and a0 != "SELF":
            try:
                return a0[args[1]]
            except Exception:  # noqa: BLE001
                raise _Abort() from None
        if n in ("operator.contains", "operator.eq", "operator.ne") and len(args) == 2:
            if n == "operator.contains":
                return self.compare(ast.In(), _plain(args[1]), _plain(a0))
            return self.compare(ast.Eq() if n == "operator.eq" else ast.NotEq(), _plain(a0), _plain(args[1]))
        if n in _FOLDABLE and allargs and not _unk(*allargs) and all(isinstance(a, (str, int)) and a != "SELF" for a in allargs):
            try:
                r = _FOLDABLE[n](*args, **kwargs)
            except Exception:  # noqa: BLE001
                return _d(*allargs)
            if isinstance(r, (str, int, bool)):
                return r
            if isinstance(r, (list, tuple)) and all(isinstance(x, (str, int)) or (isinstance(x, tuple) and all(isinstance(y, str) for y in x)) for x in r):
                return list(r) if isinstance(r, list) else tuple(r)
            return _d(*allargs)
        # a function the unrolling does not model
        self.mixed(None, *allargs)
        return _d(*allargs)


def _plain(v):
    return UNK if v == ("UNKSTR",) else v


def _src_of(node) -> str:
    try:
        return "`" + norm(node, 70) + "`"
    except Exception:  # noqa: BLE001
        return "a derived name"


def _load(t: ast.expr) -> ast.expr:
    if isinstance(t, ast.Name):
        return ast.Name(id=t.id, ctx=ast.Load())
    if isinstance(t, ast.Subscript):
        return ast.Subscript(value=t.value, slice=t.slice, ctx=ast.Load())
    if isinstance(t, ast.Attribute):
        return ast.Attribute(value=t.value, attr=t.attr, ctx=ast.Load())
    return t


NAMES = ("aa", "aa.bb", "aa.bb.cc", "aa.bb.cc.dd")


def ancestors_or_self(name: str) -> set[str]:
    parts = name.split(".")
    return {".".join(parts[: i + 1]) for i in range(len(parts))}


def check_walk(repo: Repo, view: FuncInfo) -> tuple[str, str]:
    """('ok' | 'violated' | 'undecided' | 'scan', explanation)."""
    missing_all: dict[str, list[str]] = {}
    family = None
    blind: list[str] = []
    for name in NAMES:
        w = Walk(repo, view, name)
        try:
            w.explore()
        except Unsupported as ex:
            return "undecided", f"the lookup uses a construct the abstract unrolling does not interpret ({ex})"
        except RecursionError:
            return "undecided", "the abstract unrolling of the lookup did not terminate"
        if w.scan and not w.derived:
            family = family or "scan"
            continue
        if not w.looked:
            continue
        if w.scan:
            # listed names are scanned *and* derived names are looked up: every ancestor is reached by the scan
            family = family or "scan"
            continue
        family = "walk"
        missing = sorted(ancestors_or_self(name) - w.looked, key=len)
        if missing:
            missing_all[name] = missing
            if w.opaque:
                blind.append(f"names the unrolling cannot compute are looked up ({', '.join(sorted(set(w.opaque))[:3])})")
            if w.truncated:
                blind.append("the unrolling ran out of budget")
    if family is None:
        return "undecided", "no comparison of the module name (or names derived from it) with the listed modules was found in the lookup"
    if family == "scan":
        return "scan", "every listed module name is compared with the module name: all ancestors are covered, whatever their depth"
    if missing_all and blind:
        return "undecided", f"the lookup tests names derived from the module name, but {'; '.join(sorted(set(blind)))}: whether every ancestor is tested is not known"
    if missing_all:
        ex = "; ".join(f"for `{n}` the name(s) {', '.join(repr(m) for m in ms)} are never looked up" for n, ms in missing_all.items())
        return "violated", f"the walk over the ancestors of the module name does not test every ancestor-or-self: {ex}. Descendants of a module listed under such a name (e.g. a top-level package) resolve to no layer"
    return "ok", "unrolled on names with 1 to 4 components: every ancestor of the name and the name itself is looked up"


# --------------------------------------------------------------------------- witness runs: order-based skipping over raw-sorted names

WITNESS_LISTED = ["aa", "aa-b", "aa.bb", "aa.bb-c", "aa.bb.cc", "aa.bb.cc-d", "ab", "b.c"]
WITNESS_QUERIES = ["aa.x", "aa.bb.x", "aa.bb.cc.x", "aa.bb.cc.dd.x", "aa-b.x", "b.c.x"]


def _plain_data(v, depth: int = 0) -> bool:
    if v is None or isinstance(v, (str, int, bool)):
        return v != "SELF"
    if depth > 3:
        return False
    if isinstance(v, (list, tuple)):
        return all(_plain_data(x, depth + 1) for x in v)
    if isinstance(v, dict):
        return all(isinstance(k, (str, int)) and _plain_data(x, depth + 1) for k, x in v.items())
    return False


def derived_fields(repo: Repo, init_view: FuncInfo | None, field_text: str, listed: list) -> dict:
    """Further attributes the constructor computes from the sorted list alone (an index of closest listed parents, prefix
    tables ...), obtained by unrolling the constructor with the list bound to the witness content."""
    fields: dict = {field_text: listed}
    if init_view is None or isinstance(init_view.node, ast.Lambda):
        return fields
    w = Walk(repo, init_view, "", fields=fields)
    w.decisions, w.pos, w.steps, w.trace = [], 0, 0, []
    env: dict = {}
    for i, p in enumerate(init_view.param_names):
        env[p] = "SELF" if i == 0 else UNK
    try:
        w.block(init_view.node.body, env, init_view, 0)
    except (_Return, _Abort, _Break, _Continue, Unsupported, RecursionError):
        pass
    if w.opaque or w.truncated:
        return fields
    for text, v in w.stored.items():
        if text != field_text and _plain_data(v) and isinstance(v, (dict, list, tuple)) and v:
            fields[text] = v
    return fields


def order_witness(repo: Repo, view: FuncInfo, field_text: str, key=None, init_view: FuncInfo | None = None) -> tuple[str, str]:
    """('ok' | 'violated' | 'skipped', explanation).  The lookup is unrolled with the sorted list of listed names bound to a
    concrete, adversarial content: siblings whose names continue a listed name with a character that sorts below '.'
    (`aa` < `aa-b` < `aa.bb`), so that raw string order differs from hierarchy order.  Every listed ancestor of the queried name
    must still be recognised (prefix-tested positively / looked up).  A miss is a concrete counterexample: the lookup skips
    entries on the assumption that whatever sorts between two related names is related to them."""
    try:
        listed = sorted(WITNESS_LISTED, key=key)
    except Exception:  # noqa: BLE001
        return "skipped", "the sort key could not be applied to the witness names"
    tested = 0
    bound = derived_fields(repo, init_view, field_text, listed)
    for q in WITNESS_QUERIES:
        w = Walk(repo, view, q, fields={k_: (dict(v_) if isinstance(v_, dict) else list(v_) if isinstance(v_, list) else v_) for k_, v_ in bound.items()})
        try:
            w.explore()
        except (Unsupported, RecursionError):
            return "skipped", "the lookup uses a construct the abstract unrolling does not interpret"
        if w.opaque or w.truncated:
            return "skipped", "the unrolling met values it cannot compute"
        expected = {n for n in listed if q.startswith(n + ".")}
        found = w.matched | (w.looked & expected)
        if w.scan:
            return "skipped", "listed names other than the sorted list are scanned as well"
        if not found and not w.looked:
            return "skipped", "the unrolling saw no comparison with the listed names"
        tested += 1
        missing = sorted(expected - found)
        if missing:
            return "violated", (
                f"with the listed modules {listed} (in the order the list is sorted) the lookup of `{q}` never recognises the listed ancestor(s) {missing}: "
                "entries are skipped on the assumption that names sorting between two related names are related as well, which raw string order does not guarantee "
                "(`aa` < `aa-b` < `aa.bb`: a sibling whose name continues the parent's name with a character below '.' sorts between a module and its sub modules)"
            )
    return ("ok", f"unrolled on {tested} lookups over adversarially named siblings (`aa`, `aa-b`, `aa.bb`, ...): every listed ancestor is recognised") if tested else ("skipped", "no witness lookup could be unrolled")
