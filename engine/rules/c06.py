"""C06 - PlantUML diagrams parse to exactly their components, aliases and arrows.

  C06.R1  the language of the reconstructed regular expressions contains every documented declaration / dependency form, and the named
          groups bind name, alias, dependor and dependee to the intended substrings (oracle: the property's documented subset and
          docs/features/plantuml.md); component-name groups admit '.', '_' and digits
  C06.R2  merging dependencies per resolved component accumulates, never overwrites (alias and name resolve to the same key)
  C06.R3  aliases are resolved on both sides; the component set is declared names + unified keys + unified values
  C06.R4  a file without start/end tags raises PumlParsingError
"""

from __future__ import annotations

import ast
import re

from core.flow import Flow, Spec
from core.fold import fold
from core.guards import f_not, implies, to_formula
from core.loader import AnalysisError, FuncInfo, Repo, ancestors, calls_in, header, norm, own_nodes, parent
from core.regex_lang import Regex, cross_validate
from core.report import Result

from .common import cfg_of, conds, copy_prop, dotted, guard_formula, is_attr_call, loops_around, stmt_of, types_of, where

PARSER = "pytestarch.diagram_extension.diagram_parser"

NAMES = ["A", "a_1", "mod2", "src.a.b"]
ALIAS = "AL"
ARROWS = [("-->", "r"), ("->", "r"), ("<--", "l"), ("<-", "l"), ("-uses->", "r"), ("<-uses-", "l")]


def compiled_pattern(repo: Repo, fi: FuncInfo) -> tuple[str, int, ast.Call]:
    calls = [c for c in calls_in(fi.node) if repo.resolve_name(fi.module, c.func) == "re.compile"]
    if len(calls) != 1:
        raise AnalysisError(f"{fi.fq}: expected exactly one re.compile call")
    c = calls[0]
    text = fold(repo, fi.module, c.args[0], fi)
    if text is None:
        raise AnalysisError(f"{fi.fq}: the pattern `{norm(c.args[0])}` cannot be reconstructed by constant folding")
    flags = 0
    for a in c.args[1:]:
        for part in ast.walk(a):
            fq = repo.resolve_name(fi.module, part) if isinstance(part, ast.Attribute) else None
            if fq and fq.startswith("re."):
                flags |= int(getattr(re, fq[3:]))
    return text, flags, c


def group_roles(repo: Repo, fi: FuncInfo) -> dict[str, list[str]]:
    """local variable -> group names tried in order, from `v = match.group(a) or match.group(b)`."""
    out: dict[str, list[str]] = {}
    for s in own_nodes(fi.node):
        if isinstance(s, ast.Assign) and isinstance(s.targets[0], ast.Name):
            vals = s.value.values if isinstance(s.value, ast.BoolOp) and isinstance(s.value.op, ast.Or) else [s.value]
            names = []
            for v in vals:
                if isinstance(v, ast.Call) and is_attr_call(v, "group") and v.args:
                    g = fold(repo, fi.module, v.args[0], fi)
                    if g is None:
                        raise AnalysisError(f"{fi.fq}: group name `{norm(v.args[0])}` not foldable")
                    names.append(g)
                else:
                    names = []
                    break
            if names:
                out[s.targets[0].id] = names
    return out


def first(groups: dict[str, str | None], names: list[str]) -> str | None:
    for n in names:
        if groups.get(n):
            return groups[n]
    return None


def run(repo: Repo) -> Result:
    res = Result("C06")
    res.explanation = (
        "Decides (R1) that every documented declaration and dependency form (names: identifier, identifier with _/digits, dotted; refs: "
        "[N], N, alias; arrows -->, ->, <--, <-, -text->, <-text-) is in the language of the regular expressions reconstructed from the source "
        "by constant folding, with the named groups binding name / alias / dependor / dependee as intended - evaluated on the patterns' sre "
        "parse trees by the checker's own interpreter; (R2) per-component merging accumulates; (R3) aliases are resolved for dependor and each "
        "dependee and the component set collects declared names, keys and values; (R4) missing tags raise."
    )
    res.not_decided = "arbitrary generated diagrams and noise text containing the tags; forms outside the documented subset (listed as observations)."
    res.trusted_base = ["re._parser.parse produces the pattern's AST", "the checker's regex interpreter (cross-validated against re on the form table in every run)"]
    T = types_of(repo)
    pp = repo.cls(PARSER, "PumlParser")
    decl = pp.methods.get("_retrieve_modules_declared_outside_dependencies")
    deps = pp.methods.get("_retrieve_dependencies_and_inline_modules")
    tags = pp.methods.get("_remove_content_outside_start_and_end_tags")
    uni = pp.methods.get("_unify")
    gum = pp.methods.get("_get_unified_modules")
    if not all((decl, deps, tags, uni, gum)):
        raise AnalysisError("PumlParser methods not found")
    # ---- R1 declarations
    dtext, dflags, dcall = compiled_pattern(repo, decl)
    drx = Regex(dtext, dflags)
    roles = group_roles(repo, decl)
    ctor = [c for c in calls_in(decl.node) if dotted(c.func) == "Module"]
    if len(ctor) != 1:
        raise AnalysisError(f"{decl.fq}: construction of the parsed Module not found")
    kw = {k.arg: dotted(k.value) for k in ctor[0].keywords}
    name_groups = roles.get(kw.get("name", ""), [])
    alias_groups = roles.get(kw.get("alias", ""), [])
    if not name_groups or not alias_groups:
        raise AnalysisError(f"{decl.fq}: groups feeding Module(name=..., alias=...) not recognised")
    forms = []
    for n in NAMES:
        forms += [(f"[{n}]", n, None), (f"component {n}", n, None), (f"component [{n}]", n, None), (f"[{n}] as {ALIAS}", n, ALIAS), (f"component [{n}] as {ALIAS}", n, ALIAS)]
    samples = []
    k = 0
    for line, want_name, want_alias in forms:
        samples.append(line)
        ms = drx.finditer(line)
        got = [(first(g, name_groups), first(g, alias_groups)) for _a, _b, g in ms]
        ok = got == [(want_name, want_alias)]
        k += 1
        res.add("C06.R1", f"{decl.relpath}::{decl.qualname}::form `{line}`", ok, f"parsed as component {want_name!r}" + (f" with alias {want_alias!r}" if want_alias else "") if ok else f"the declaration `{line}` is parsed as {got} instead of [({want_name!r}, {want_alias!r})]: the documented form is not (correctly) in the language of the declaration pattern", where(decl, dcall), kind="regex-language")
    for n in NAMES[:1]:
        line = f"component {n} as {ALIAS}"
        ms = drx.finditer(line)
        got = [(first(g, name_groups), first(g, alias_groups)) for _a, _b, g in ms]
        if got != [(n, ALIAS)]:
            res.observe(f"C06.R1 not armed: `{line}` parses as {got} (alias ignored); docs/features/plantuml.md documents aliases only for the bracketed form `[module name] as alias`")
    # ---- R1 dependencies
    ptext, pflags, pcall = compiled_pattern(repo, deps)
    prx = Regex(ptext, pflags)
    roles = group_roles(repo, deps)
    store = [c for c in calls_in(deps.node) if is_attr_call(c, "add") and isinstance(c.func.value, ast.Subscript)]
    if len(store) != 1:
        raise AnalysisError(f"{deps.fq}: store `dependencies[importer].add(importee)` not found")
    dependor_groups = roles.get(dotted(store[0].func.value.slice), [])
    dependee_groups = roles.get(dotted(store[0].args[0]), [])
    if not dependor_groups or not dependee_groups:
        raise AnalysisError(f"{deps.fq}: groups feeding the dependency store not recognised")
    refs = lambda n: [f"[{n}]", n]  # noqa: E731
    pairs = [("A", "src.a.b"), ("a_1", "mod2"), ("src.a.b", "A"), (ALIAS, "mod2")]
    for left, right in pairs:
        for arrow, direction in ARROWS:
            for lref in refs(left):
                for rref in refs(right):
                    line = f"{lref} {arrow} {rref}"
                    samples.append(line)
                    ms = prx.finditer(line)
                    got = [(first(g, dependor_groups), first(g, dependee_groups)) for _a, _b, g in ms]
                    want = (left, right) if direction == "r" else (right, left)
                    ok = got == [want]
                    k += 1
                    res.add("C06.R1", f"{deps.relpath}::{deps.qualname}::form `{line}`", ok, f"{want[0]} depends on {want[1]}" if ok else f"the dependency line `{line}` is parsed as {got} instead of [{want}] (dependor, dependee): the documented form is not (correctly) in the language of the dependency pattern", where(deps, pcall), kind="regex-language")
    res.floor("C06.R1", 100, k)
    for rx, fi_, groups in ((drx, decl, name_groups), (prx, deps, dependor_groups + dependee_groups)):
        for gname in groups:
            for ch in (".", "_", "7", "x"):
                ok = rx.group_admits(gname, ch)
                res.add("C06.R1", f"{fi_.relpath}::{fi_.qualname}::group {gname} admits {ch!r}", ok, f"component names may contain {ch!r}" if ok else f"the character class of group `{gname}` does not admit {ch!r}: fully qualified dotted module names / identifiers cannot be component names", where(fi_, fi_.node), kind="regex-language")
    bad = cross_validate(drx, samples) + cross_validate(prx, samples)
    if bad:
        raise AnalysisError(f"regex interpreter disagrees with the stdlib engine: {bad[:2]}")
    res.analysed["patterns"] = {"declaration": dtext, "dependency": ptext}
    res.analysed["form_table_lines"] = len(samples)
    # observations outside the documented subset
    for line in ("  [A] --> [B]", "[Mod A] --> [Mod B]", "[A] ---> [B]"):
        got = [(first(g, dependor_groups), first(g, dependee_groups)) for _a, _b, g in prx.finditer(line)]
        if got != [("A", "B")] and got != [("Mod A", "Mod B")]:
            res.observe(f"C06.R1 not armed (outside the documented subset): `{line}` parses as {got}")
    # ---- R4 / tags pattern
    ttext, tflags, tcall = compiled_pattern(repo, tags)
    trx = Regex(ttext, tflags)
    body = "\n[A] --> [B]\n"
    r = trx.search(f"noise\n@startuml{body}@enduml\ntrailing")
    ok = r is not None and any(v == body for v in _all_groups(trx, f"noise\n@startuml{body}@enduml\ntrailing"))
    res.add("C06.R4", f"{tags.relpath}::{tags.qualname}::content between the tags", ok, "text outside @startuml/@enduml is ignored, text between is kept" if ok else "the tag pattern does not capture exactly the text between @startuml and @enduml", where(tags, tcall), kind="regex-language")
    ok = trx.search("[A] --> [B]\n") is None and trx.search("@startuml\n[A] --> [B]\n") is None
    res.add("C06.R4", f"{tags.relpath}::{tags.qualname}::no tags, no match", ok, "a text without both tags is not in the language" if ok else "a text without start/end tags still matches the tag pattern", where(tags, tcall), kind="regex-language")
    rets = [s for s in own_nodes(tags.node) if isinstance(s, ast.Return)]
    raises = [r_ for r_ in own_nodes(tags.node) if isinstance(r_, ast.Raise)]
    mvar = None
    for s in own_nodes(tags.node):
        if isinstance(s, ast.Assign) and isinstance(s.value, ast.Call) and (repo.resolve_name(tags.module, s.value.func) or "") in ("re.search", "re.match", "re.fullmatch"):
            mvar = dotted(s.targets[0])
    mtrue = to_formula(ast.Name(id=mvar or "_", ctx=ast.Load()), copy_prop(tags))
    ok = mvar is not None and len(raises) == 1 and "PumlParsingError" in norm(raises[0]) and all(implies(guard_formula(tags, r_), mtrue) for r_ in rets) and implies(guard_formula(tags, raises[0]), f_not(mtrue)) and all(isinstance(r_.value, ast.Call) and is_attr_call(r_.value, "group") for r_ in rets)
    res.add("C06.R4", f"{tags.relpath}::{tags.qualname}::no match raises", ok, "without a match PumlParsingError is raised; with a match the captured text is returned" if ok else "the no-match branch does not raise PumlParsingError (or the match branch does not return the captured text)", where(tags, tags.node), kind="dominance")
    # ---- R2 merging
    n2 = 0
    for f in (uni, deps):
        for lp in [l for l in own_nodes(f.node) if isinstance(l, ast.For)]:
            keyvars = {x.id for x in ast.walk(lp.target) if isinstance(x, ast.Name)}
            for s in ast.walk(lp):
                if isinstance(s, ast.Assign) and isinstance(s.targets[0], ast.Subscript) and isinstance(s.targets[0].value, ast.Name):
                    kexpr = s.targets[0].slice
                    ksrc = kexpr
                    if isinstance(kexpr, ast.Name):
                        a = [x for x in ast.walk(lp) if isinstance(x, ast.Assign) and dotted(x.targets[0]) == kexpr.id]
                        ksrc = a[0].value if len(a) == 1 else kexpr
                    transformed = isinstance(ksrc, ast.Call) and any(isinstance(x, ast.Name) and x.id in keyvars for x in ast.walk(ksrc))
                    if not transformed:
                        continue
                    n2 += 1
                    d = dotted(s.targets[0].value)
                    accum = any(isinstance(x, ast.Subscript) and dotted(x.value) == d for x in ast.walk(s.value)) or any(is_attr_call(x, "get") and dotted(x.func.value) == d for x in ast.walk(s.value) if isinstance(x, ast.Call))
                    res.add("C06.R2", repo.key(f, s), accum, "the store merges with what is already recorded for the key" if accum else f"`{header(s)}` overwrites: the key `{norm(ksrc, 50)}` is many-to-one (an alias and its component name resolve to the same key), so arrows of a component referenced once by alias and once by name are lost", where(f, s), kind="structural")
                if isinstance(s, ast.Call) and isinstance(s.func, ast.Attribute) and s.func.attr in ("update", "add", "extend") and isinstance(s.func.value, ast.Call) and is_attr_call(s.func.value, "setdefault"):
                    n2 += 1
                    res.add("C06.R2", repo.key(f, stmt_of(s)), True, "setdefault(...).update(...) accumulates per key", where(f, s), kind="structural")
                if isinstance(s, ast.Call) and isinstance(s.func, ast.Attribute) and s.func.attr in ("update", "add") and isinstance(s.func.value, ast.Subscript):
                    dd = dotted(s.func.value.value)
                    is_dd = any(isinstance(a, ast.Assign) and dotted(a.targets[0]) == dd and isinstance(a.value, ast.Call) and dotted(a.value.func) == "defaultdict" for a in own_nodes(f.node))
                    n2 += 1
                    res.add("C06.R2", repo.key(f, stmt_of(s)), is_dd, "defaultdict(set)[key].add(...) accumulates per key" if is_dd else f"`{norm(s, 60)}` raises KeyError for a new key (not a defaultdict)", where(f, s), kind="structural")
        for dc in [n for n in own_nodes(f.node) if isinstance(n, ast.DictComp)]:
            keyvars = {x.id for g in dc.generators for x in ast.walk(g.target) if isinstance(x, ast.Name)}
            transformed = isinstance(dc.key, ast.Call) and any(isinstance(x, ast.Name) and x.id in keyvars for x in ast.walk(dc.key))
            if transformed and f is uni:
                n2 += 1
                res.add("C06.R2", repo.key(f, stmt_of(dc)) + " [dict comprehension]", False, f"a dict comprehension keyed by `{norm(dc.key, 50)}` keeps only the last entry per key: the key is many-to-one (alias and name of one component), so earlier arrows are dropped", where(f, dc), kind="structural")
    res.floor("C06.R2", 2, n2)
    # ---- R3 alias resolution on both sides + component set
    um = pp.methods.get("_unify_module")
    if um is None:
        raise AnalysisError("PumlParser._unify_module not found")
    rets = [s for s in own_nodes(um.node) if isinstance(s, ast.Return)]
    mp, ap = um.param_names[1], um.param_names[2]
    ok = len(rets) == 1 and isinstance(rets[0].value, ast.Call) and is_attr_call(rets[0].value, "get") and dotted(rets[0].value.func.value) == ap and [dotted(a) for a in rets[0].value.args] == [mp, mp]
    res.add("C06.R3", f"{um.relpath}::{um.qualname}::alias or itself", ok, "an alias resolves to its component name, anything else to itself" if ok else "a reference is not resolved as `aliases.get(ref, ref)`", where(um, um.node), kind="structural")

    def transfer(f: FuncInfo, call: ast.Call, names, args, recv, kwargs):
        if isinstance(call.func, ast.Attribute) and call.func.attr == um.name:
            return {"U:" + t if not t.startswith("U:") else t for t in (args[0] if args else ())}
        return None

    dparam = uni.param_names[2]

    def sources(f: FuncInfo, e: ast.expr):
        return None

    flow = Flow(repo, T, Spec(transfer=transfer, objects_carry=False, scope=lambda f: f is uni, param_seeds={(uni.fq, dparam): {"DEP"}}))
    lp = [l for l in own_nodes(uni.node) if isinstance(l, ast.For) and dparam in norm(l.iter)]
    dictcomps = [n for n in own_nodes(uni.node) if isinstance(n, ast.DictComp) and any(dparam in norm(g.iter) for g in n.generators)]
    ok_k = ok_v = False
    if lp:
        for s in ast.walk(lp[0]):
            if isinstance(s, ast.Assign) and isinstance(s.targets[0], ast.Subscript):
                ok_k = ok_k or set(flow.tags(s.targets[0].slice)) == {"U:DEP"}
                ok_v = ok_v or set(flow.tags(s.value)) == {"U:DEP"}
            if isinstance(s, ast.Call) and isinstance(s.func, ast.Attribute) and s.func.attr == "update" and isinstance(s.func.value, ast.Call) and is_attr_call(s.func.value, "setdefault"):
                ok_k = ok_k or set(flow.tags(s.func.value.args[0])) == {"U:DEP"}
                ok_v = ok_v or (s.args and set(flow.tags(s.args[0])) == {"U:DEP"})
    for dc in dictcomps:
        ok_k = ok_k or set(flow.tags(dc.key)) == {"U:DEP"}
        ok_v = ok_v or set(flow.tags(dc.value)) == {"U:DEP"}
    res.add("C06.R3", f"{uni.relpath}::{uni.qualname}::dependor resolved", ok_k, "the dependor of every arrow goes through alias resolution" if ok_k else "dependors are stored without alias resolution", where(uni, uni.node), kind="flow")
    res.add("C06.R3", f"{uni.relpath}::{uni.qualname}::every dependee resolved", bool(ok_v), "every dependee goes through alias resolution" if ok_v else "dependees are stored without (complete) alias resolution", where(uni, uni.node), kind="flow")
    # component set
    mparam, dparam2 = gum.param_names[1], gum.param_names[2]

    def src3(f: FuncInfo, e: ast.expr):
        if isinstance(e, ast.Call) and isinstance(e.func, ast.Attribute) and dotted(e.func.value) == dparam2 and e.func.attr in ("keys", "values", "items"):
            return {"KEYS"} if e.func.attr == "keys" else {"VALUES"} if e.func.attr == "values" else {"KEYS", "VALUES"}
        if isinstance(e, ast.Attribute) and e.attr == "name" and isinstance(e.value, ast.Name):
            return {"DECLARED"}
        if isinstance(e, ast.Name) and e.id == dparam2 and isinstance(parent(e), (ast.For, ast.comprehension, ast.Call, ast.Starred, ast.BinOp)):
            return {"KEYS"}
        return None

    fl3 = Flow(repo, T, Spec(sources=src3, objects_carry=False, scope=lambda f: f is gum))
    rt = set(fl3.ret_tags.get(gum.fq, ()))
    for tag, what in (("DECLARED", "declared components"), ("KEYS", "dependors"), ("VALUES", "dependees")):
        res.add("C06.R3", f"{gum.relpath}::{gum.qualname}::{what} in the component set", tag in rt, f"{what} are part of the returned component set" if tag in rt else f"the {what} do not reach the returned component set: a component that only occurs as {what[:-1]} is missing from `all_modules` (no rule is generated for it)", where(gum, gum.node), kind="flow")
    # discarded results of non-mutating set methods
    for f in [m for m in pp.methods.values()]:
        for s in own_nodes(f.node):
            if isinstance(s, ast.Expr) and isinstance(s.value, ast.Call) and isinstance(s.value.func, ast.Attribute) and s.value.func.attr in ("union", "intersection", "difference", "symmetric_difference", "replace", "strip", "join"):
                res.add("C06.R3", repo.key(f, s), False, f"the result of `{norm(s.value, 60)}` is discarded ({s.value.func.attr} returns a new object, it does not modify the receiver)", where(f, s), kind="structural")
    # _unify returns (component set of the unified deps, unified deps)
    gcall = [c for c in calls_in(uni.node) if is_attr_call(c, gum.name)]
    ok = len(gcall) == 1 and dotted(gcall[0].args[0]) == uni.param_names[1]
    res.add("C06.R3", f"{uni.relpath}::{uni.qualname}::component set from declarations and unified arrows", ok, "the component set is computed from the declarations and the unified dependencies" if ok else "the component set is not computed from the declared modules and the unified dependencies", where(uni, uni.node), kind="flow")
    return res


def _all_groups(rx: Regex, s: str) -> list[str]:
    r = rx.match_at(s, 0)
    out = []
    for pos in range(len(s) + 1):
        r = rx.match_at(s, pos)
        if r is not None:
            end, g = r
            out = [s[a:b] for a, b in g.values()]
            break
    return out
